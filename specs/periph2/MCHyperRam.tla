---------------------------- MODULE MCHyperRam ----------------------------
(* Bounded instance of HyperRam for exhaustive TLC exploration. *)
EXTENDS HyperRam, TLC

CONSTANT MaxTxn            \* number of requests explored per behaviour

VARIABLE ntxn              \* requests accepted so far (bounds the exploration)

\* request alphabet: every flag both ways; addresses = corners and walking ones across the three command words
MCReqs == {[write |-> TRUE,  reg |-> FALSE, single |-> FALSE, ahi |-> 0,     alo |-> 1],
           [write |-> TRUE,  reg |-> TRUE,  single |-> FALSE, ahi |-> 32768, alo |-> 8],
           [write |-> FALSE, reg |-> FALSE, single |-> TRUE,  ahi |-> 65535, alo |-> 65535],
           [write |-> FALSE, reg |-> TRUE,  single |-> FALSE, ahi |-> 8,     alo |-> 4],
           [write |-> TRUE,  reg |-> FALSE, single |-> TRUE,  ahi |-> 7,     alo |-> 65528]}

MCInit == Init /\ ntxn = 0
Count == ntxn' = IF out'.idle /\ in'.start THEN ntxn + 1 ELSE ntxn
MCFree    == FreeCycle /\ Count
MCAccept  == AcceptCycle /\ Count
MCWait    == WaitCycle /\ Count
MCCommand == CommandClock /\ Count
MCLatency == LatencyClock /\ Count
MCWrite   == WriteClock /\ Count
MCRead    == ReadClock /\ Count
MCDrain   == DrainCycle /\ Count
MCNext == MCFree \/ MCAccept \/ MCWait \/ MCCommand \/ MCLatency \/ MCWrite \/ MCRead \/ MCDrain
MCSpec == MCInit /\ [][MCNext]_<<vars, ntxn>>

Bounded == ntxn <= MaxTxn /\ (ntxn = MaxTxn => (cur.active \/ ~in.start))
=============================================================================
