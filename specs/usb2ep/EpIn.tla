-------------------------------- MODULE EpIn --------------------------------
(***************************************************************************)
(* Reference behaviour of one USB2 bulk/interrupt IN endpoint fed by a     *)
(* byte stream (properties C11, C14; component of C12).                    *)
(*                                                                         *)
(* Written from the property statement, the doc-strings of                 *)
(* USBStreamInEndpoint / USBInTransferManager and USB 2.0 ch. 8.5.2/8.6    *)
(* (data toggle synchronisation and retry) -- not from the FSM.            *)
(*                                                                         *)
(* Grain: one step = one stream beat accepted, one flush observation, or   *)
(* one packet on the bus (token / device response / host handshake).       *)
(*                                                                         *)
(* The endpoint's reference state is a *record* `s` and every step is an   *)
(* operator on records, so that several endpoint instances can be composed *)
(* (EpDev.tla).  Fields:                                                   *)
(*   off    all stream beats accepted so far, [b |-> byte, l |-> last]     *)
(*   done   number of bytes of `off` whose packet the host has ACKed        *)
(*   out    a packet has been sent and is not yet ACKed (must be retried)  *)
(*   outN   its payload length (bytes done+1 .. done+outN of `off`)        *)
(*   tog    data toggle of the packet being / to be sent (0 = DATA0)       *)
(*   zlp    the last ACKed packet was full-size and ended a transfer: a    *)
(*          zero-length packet is owed                                     *)
(*   fl     stream positions (number of bytes accepted) at which `flush`   *)
(*          was seen asserted: a packet may be cut short there             *)
(*   ph     "idle" | "tok" (IN token waiting for our answer) | "sent"      *)
(*   rdy    snapshot at token time: a packet was already complete, so the  *)
(*          endpoint may not NAK (the freedom "NAK while still buffering") *)
(* Ghost (the host's side of the toggle protocol, used only by Prop):      *)
(*   htog   toggle the host expects next                                   *)
(*   hgot   bytes the host has accepted (each toggled packet once)         *)
(*   hends  lengths of hgot at which the host saw a transfer end           *)
(*          (a packet shorter than MaxPkt)                                 *)
(*   hahead the host has already accepted the outstanding packet (its ACK  *)
(*          was lost), so the retry will be discarded by the host          *)
(*   hsync  FALSE once the toggle was reset while the host was ahead       *)
(*          (data integrity across that event is outside C11)              *)
(***************************************************************************)
EXTENDS Naturals, Sequences, FiniteSets

InInit == [off |-> <<>>, done |-> 0, out |-> FALSE, outN |-> 0, tog |-> 0, zlp |-> FALSE,
           fl |-> {}, ph |-> "idle", rdy |-> FALSE,
           htog |-> 0, hgot |-> <<>>, hends |-> {}, hahead |-> FALSE, hsync |-> TRUE]

\* the n bytes following stream position a
InBytes(s, a, n) == [i \in 1..n |-> s.off[a + i].b]
InPend(s) == Len(s.off) - s.done

\* A whole packet is available: MaxPkt bytes, or a transfer end, among the un-ACKed bytes.
InHasComplete(s, M) == \/ InPend(s) >= M
                       \/ \E i \in (s.done + 1)..Len(s.off) : s.off[i].l
InMustSend(s, M) == s.out \/ s.zlp \/ InHasComplete(s, M)

-----------------------------------------------------------------------------
(* Env steps *)
InBeat(s, b, l) == [s EXCEPT !.off = Append(@, [b |-> b, l |-> l])]
InFlush(s)      == [s EXCEPT !.fl = @ \cup {Len(s.off)}]

\* Anything else on the bus ends the window in which an ACK could still arrive.
InAbort(s) == [s EXCEPT !.ph = "idle"]

\* IN token for this endpoint.
InTok(s, M) == [s EXCEPT !.ph = "tok", !.rdy = InMustSend(s, M)]

-----------------------------------------------------------------------------
(* The endpoint's answer r = [k, pid, payload, ok]:                         *)
(* name of the first violated clause of the reference relation, or "ok".   *)
InRespStatus(s, M, r) ==
  IF s.ph # "tok" THEN "in_unsolicited_response"
  ELSE IF r.k = "nak" THEN (IF s.rdy THEN "in_nak_while_packet_ready" ELSE "ok")
  ELSE IF r.k = "none" THEN "in_no_response"
  ELSE IF r.k # "data" THEN "in_unexpected_response"
  ELSE IF ~r.ok THEN "in_data_crc"
  ELSE IF r.pid # s.tog THEN "in_toggle"
  ELSE LET n == Len(r.payload) IN
    IF s.out THEN
        (IF n = s.outN /\ r.payload = InBytes(s, s.done, n) THEN "ok" ELSE "in_retry_differs")
    ELSE IF s.zlp THEN (IF n = 0 THEN "ok" ELSE "in_zlp_omitted")
    ELSE IF n = 0 THEN "in_spurious_zlp"
    ELSE IF n > M THEN "in_oversize_packet"
    ELSE IF s.done + n > Len(s.off) THEN "in_payload_not_stream"
    ELSE IF r.payload # InBytes(s, s.done, n) THEN "in_payload_not_stream"
    ELSE IF \E i \in (s.done + 1)..(s.done + n - 1) : s.off[i].l THEN "in_crosses_transfer_end"
    ELSE IF ~(n = M \/ s.off[s.done + n].l \/ (s.done + n) \in s.fl) THEN "in_short_packet_mid_transfer"
    ELSE "ok"

InResp(s, r) == IF r.k = "data"
                THEN [s EXCEPT !.out = TRUE, !.outN = Len(r.payload), !.ph = "sent"]
                ELSE [s EXCEPT !.ph = "idle"]

\* The set of answers the reference allows to an IN token (used by the exhaustive model).
InAllowedLens(s, M) ==
    IF s.out THEN {s.outN}
    ELSE IF s.zlp THEN {0}
    ELSE {n \in 1..M : /\ s.done + n <= Len(s.off)
                       /\ \A i \in (s.done + 1)..(s.done + n - 1) : ~s.off[i].l
                       /\ (n = M \/ s.off[s.done + n].l \/ (s.done + n) \in s.fl)}
InNakAllowed(s) == ~s.rdy

-----------------------------------------------------------------------------
(* Host handshake after a data packet.                                      *)
\* ghost: the host received the packet intact
InHostRx(s, M) ==
    IF s.tog = s.htog
    THEN LET g == s.hgot \o InBytes(s, s.done, s.outN) IN
         [s EXCEPT !.hgot = g, !.htog = 1 - @, !.hahead = TRUE,
                   !.hends = IF s.outN < M THEN @ \cup {Len(g)} ELSE @]
    ELSE s                                                 \* repeated toggle: discarded
\* the endpoint saw the host's ACK
InAck(s, M) ==
    LET d == s.done + s.outN IN
    [s EXCEPT !.done = d, !.tog = 1 - @, !.out = FALSE, !.outN = 0, !.ph = "idle",
              !.zlp = (s.outN = M /\ s.off[d].l),
              !.fl = {p \in @ : p > d}, !.hahead = FALSE]
\* no ACK reached the endpoint
InNoAck(s) == [s EXCEPT !.ph = "idle"]

InHs(s, M, ack, hostrx) ==
    IF s.ph # "sent" THEN s
    ELSE LET s1 == IF hostrx THEN InHostRx(s, M) ELSE s IN
         IF ack THEN InAck(s1, M) ELSE InNoAck(s1)

\* CLEAR_FEATURE(ENDPOINT_HALT) naming this endpoint completed: both sides restart at DATA0.
InClear(s) == [s EXCEPT !.tog = 0, !.htog = 0, !.hsync = (@ /\ ~s.hahead), !.hahead = FALSE]

-----------------------------------------------------------------------------
(* Prop: statements of C11 over the ghost variables.                        *)
InHostPrefix(s) == /\ Len(s.hgot) <= Len(s.off)
                   /\ \A i \in 1..Len(s.hgot) : s.hgot[i] = s.off[i].b
InSync(s) == /\ (s.hahead => s.out)
             /\ Len(s.hgot) = s.done + (IF s.hahead THEN s.outN ELSE 0)
             /\ s.htog = (IF s.hahead THEN 1 - s.tog ELSE s.tog)
\* every transfer end the host has passed was marked by a short packet or a ZLP
\* (or the ZLP is the very next packet the endpoint owes)
InTransferEnds(s, M) ==
    \A i \in 1..Len(s.hgot) :
        s.off[i].l => \/ i \in s.hends
                      \/ (i = Len(s.hgot) /\ (s.zlp \/ (s.hahead /\ s.outN = M)))
\* the host never sees a transfer end where the stream had none and no flush was requested: by Ref
InDrainedEqual(s) == (s.done = Len(s.off) /\ ~s.out) =>
                        s.hgot = [i \in 1..Len(s.off) |-> s.off[i].b]
InStruct(s, M) == /\ s.done + s.outN <= Len(s.off)
                  /\ s.outN <= M
                  /\ (s.zlp => ~(s.out /\ s.outN > 0))
InInv(s, M) == InStruct(s, M) /\
               (s.hsync => InHostPrefix(s) /\ InSync(s) /\ InTransferEnds(s, M) /\ InDrainedEqual(s))
=============================================================================
