------------------------------ MODULE MCDataRx ------------------------------
(* Bounded instance of DataRx: every receive history within the bounds, and every output the  *)
(* relation allows.  The byte alphabet is BaseBytes plus, at every position, the one or two     *)
(* bytes that make the CRC16 trailer of the packet-so-far correct (computed by the spec and    *)
(* cached in `smart`, as a bit-serial CRC costs TLC milliseconds).                              *)
EXTENDS DataRx, TLC

CONSTANTS BaseBytes,   \* byte alphabet (PIDs with good / bad check nibble, data and non-data; payload values)
          MaxLen,      \* packet length bound (bytes incl. PID)
          MaxPkts,     \* number of packets
          MaxResets    \* number of domain resets

VARIABLES npk, smart, nrst,
          dc          \* Due1 of the step, evaluated once per input (it contains the CRC16)
mcvars == <<vars, npk, smart, nrst, dc>>

Smart(p) == (IF Len(p) >= 1 THEN {Usb2Crc16Lo(Tail(p))} ELSE {})
            \cup (IF Len(p) >= 2 THEN {Usb2Crc16Hi(SubSeq(p, 2, Len(p) - 1))} ELSE {})

RightByte(i) == IF Len(Pkt1(i)) >= Sent0(i) + 2 THEN Pkt1(i)[Sent0(i) + 2] ELSE 0

MCOutputs(i) ==
    {[sv |-> n, nx |-> n, pl |-> IF n THEN RightByte(i) ELSE 0, cp |-> c, mm |-> m, rfr |-> r,
      pid |-> IF c /\ Len(pkt) >= 1 THEN pkt[1] % 16 ELSE 99] : n, c, m, r \in BOOLEAN}

\* one cycle with input i and any allowed output
Cycle(i) == /\ dc' = Due1(i)
            /\ \E o \in MCOutputs(i) :
              /\ FailingD(i, o, dc') = "ok"
              /\ StepD(i, o, dc')
              /\ npk' = npk + (IF Rise(i) THEN 1 ELSE 0)
              /\ smart' = IF i.valid THEN Smart(Pkt1(i)) ELSE IF Rise(i) THEN {} ELSE smart
              /\ UNCHANGED nrst

\* a domain reset in a quiet cycle (any allowed output in that cycle)
DomainReset == /\ nrst < MaxResets /\ ResetLegal(NoIn)
               /\ dc' = Due1(NoIn)
               /\ \E o \in MCOutputs(NoIn) : FailingD(NoIn, o, dc') = "ok" /\ ResetStepD(NoIn, o)
               /\ nrst' = nrst + 1 /\ UNCHANGED <<npk, smart>>

MCInit == Init /\ npk = 0 /\ smart = {} /\ dc = "none" /\ nrst = 0

\* Env actions, by input class
Quiet     == ~in.active /\ Cycle(NoIn)
PacketEnd == in.active /\ Cycle(NoIn)
GapCycle  == (in.active \/ (idle >= MinGap /\ npk < MaxPkts)) /\ Cycle([active |-> TRUE, valid |-> FALSE, data |-> 0])
ByteCycle == in.active /\ Len(pkt) < MaxLen /\ \E d \in BaseBytes \cup smart : Cycle([active |-> TRUE, valid |-> TRUE, data |-> d])

MCNext == Quiet \/ PacketEnd \/ GapCycle \/ ByteCycle \/ DomainReset
MCSpec == MCInit /\ [][MCNext]_mcvars

-----------------------------------------------------------------------------
(* The same step relation split by the Ref branch taken, for the non-vacuity run (small bounds): *)
(* every branch must be covered.                                                                 *)
AnyInput == {NoIn} \cup (IF in.active \/ (idle >= MinGap /\ npk < MaxPkts) THEN {[active |-> TRUE, valid |-> FALSE, data |-> 0]} ELSE {})
            \cup (IF in.active /\ Len(pkt) < MaxLen THEN {[active |-> TRUE, valid |-> TRUE, data |-> d] : d \in BaseBytes \cup smart} ELSE {})
DoB(i, o, d) == /\ FailingD(i, o, d) = "ok" /\ StepD(i, o, d) /\ dc' = d /\ UNCHANGED nrst
                /\ npk' = npk + (IF Rise(i) THEN 1 ELSE 0)
                /\ smart' = IF i.valid THEN Smart(Pkt1(i)) ELSE IF Rise(i) THEN {} ELSE smart
Complete   == \E i \in AnyInput : LET d == Due1(i) IN \E o \in MCOutputs(i) : o.cp /\ DoB(i, o, d)
Mismatch   == \E i \in AnyInput : LET d == Due1(i) IN \E o \in MCOutputs(i) : o.mm /\ DoB(i, o, d)
Rfr        == \E i \in AnyInput : LET d == Due1(i) IN \E o \in MCOutputs(i) : o.rfr /\ DoB(i, o, d)
StreamBeat == \E i \in AnyInput : LET d == Due1(i) IN \E o \in MCOutputs(i) : Beat(o) /\ DoB(i, o, d)
QuietEnd   == \E i \in AnyInput : LET d == Due1(i) IN \E o \in MCOutputs(i) : Fall(i) /\ d = "none" /\ DoB(i, o, d)
Other      == \E i \in AnyInput : LET d == Due1(i) IN \E o \in MCOutputs(i) :
                 ~(o.cp \/ o.mm \/ o.rfr \/ Beat(o) \/ (Fall(i) /\ d = "none")) /\ DoB(i, o, d)
MCNextByBranch == Complete \/ Mismatch \/ Rfr \/ StreamBeat \/ QuietEnd \/ Other \/ DomainReset
MCSpecByBranch == MCInit /\ [][MCNextByBranch]_mcvars
=============================================================================
