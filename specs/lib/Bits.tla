-------------------------------- MODULE Bits --------------------------------
(* Integers <-> bit sequences.  TLC integers are 32-bit: values wider than 31 bits are kept *)
(* as bit sequences (or sequences of bytes), never as integers.                            *)
EXTENDS Naturals, Sequences

Bit == {0, 1}
Xor(a, b) == (a + b) % 2
Pow2(n) == 2 ^ n

\* bits of v, least-significant first (the order USB puts every field on the wire)
BitsLSB(v, n) == [i \in 1..n |-> (v \div Pow2(i - 1)) % 2]
\* bits of v, most-significant first
BitsMSB(v, n) == [i \in 1..n |-> (v \div Pow2(n - i)) % 2]

RECURSIVE ValLSB(_)
ValLSB(bits) == IF bits = <<>> THEN 0 ELSE bits[1] + 2 * ValLSB(Tail(bits))
Reverse(s) == [i \in 1..Len(s) |-> s[Len(s) + 1 - i]]
ValMSB(bits) == ValLSB(Reverse(bits))

Invert(bits) == [i \in 1..Len(bits) |-> 1 - bits[i]]
XorBits(a, b) == [i \in 1..Len(a) |-> Xor(a[i], b[i])]

\* byte sequence -> wire bit order (each byte LSB first)
BytesToBits(bytes) == [i \in 1..(8 * Len(bytes)) |-> (bytes[((i - 1) \div 8) + 1] \div Pow2((i - 1) % 8)) % 2]

\* wire bits (LSB first per byte) -> byte sequence; Len(bits) must be a multiple of 8
BitsToBytes(bits) == [j \in 1..(Len(bits) \div 8) |-> ValLSB(SubSeq(bits, 8 * j - 7, 8 * j))]
=============================================================================
