"""Engine `fsphy` — C25: the gateware full-speed PHY (TxPipeline / RxPipeline / GatewarePHY) vs specs/fsphy.

TLC (MCFsPhy) explores the bit-serial reference transmitter/receiver of FsPhy.tla on every vector of the bounded
set, proves them equal to the functional line code of LineCode.tla (USB 2.0 ch. 7) and writes the vectors with
their predicted line symbols; the binding replays them (and TLC-encoded random packets beyond the bounds) into the
real GatewarePHY in both directions, records one step per 12 MHz cycle (incl. the four 48 MHz samples of the pins)
and has TLC validate every recorded trace against FsPhyTrace.tla.  Python only drives, records and classifies.
"""
import json
import os
import types

from .. import tlc
from ..core import use_repo
from ..pipeline import validate_group
from ..tlaval import TlaSet

ENGINE = "fsphy"
SPEC_DIR = "fsphy"

META = {
    "C25": {
        "text": "The USB 2.0 chapter-7 line code (SYNC, LSB-first bits, a stuffed 0 after six 1s counted from the "
                "SYNC's final 1, NRZI, SE0-SE0-J) is written bit-serially in LineCode.tla; TLC proves on every byte "
                "sequence of length <= 3 over {00,FF,7F,FE,80,3F} and on 0xFF runs of length 1..8 that a bit-serial "
                "reference transmitter produces exactly Encode(bytes), that a bit-serial reference receiver returns "
                "exactly the bytes with active framing, that every stuff violation raises the error flag, and the "
                "transition-density bound. TLC writes these vectors with their predicted symbols; the real "
                "GatewarePHY is driven with them in both directions (UTMI tx_valid/tx_data paced by tx_ready with "
                "arbitrary idle data and gaps; synthesized 48 MHz D+/D- waveforms at all four sampling phases, "
                "inter-packet gaps down to two bit times, +-0.25 % rate offsets, injected stuff violations), plus "
                "TLC-encoded random packets beyond the bounds; every recorded 12 MHz cycle (with the four 48 MHz pin "
                "samples) is validated by TLC: each bit exactly four 48 MHz clocks, symbols = Encode(accepted bytes), "
                "every byte accepted exactly once, received bytes = Decode(symbols) inside rx_active, rx_error on "
                "violations and never on good packets; static clauses (no drive in UTMI non-driving mode, pull-up = "
                "term_select, pull-down = dp|dm request) on random control schedules.",
        "note": "Digital, sampled model of D+/D- only (no analogue effects, no D+/D- skew); usb and usb_io clocks are "
                "phase-locked 1:4 as the doc-string requires. The host obeys UTMI (tx_data held until tx_ready, "
                "tx_valid dropped after the last byte) and the USB inter-packet delay (>= 2 bit times). Exhaustive "
                "only for the bounded TLA+ model; gateware executions are sampled. Trusted base: TLC, amaranth.sim, "
                "the waveform synthesizer (its output is logged and checked by TLC against the symbol stream).",
        "technique": "TLA+ bit-serial line-code spec, TLC exhaustive + TLC-generated vectors + batch trace validation",
        "design_ref": "DESIGN.md §5 C25",
    }
}

J, K, SE0 = 1, 2, 3
SYM_CODE = {"J": J, "K": K, "SE0": SE0}
LEVELS = {J: (1, 0), K: (0, 1), SE0: (0, 0)}
UNITS = 1600          # time units per 48 MHz sample; a nominal bit is 4 samples = 6400 units


def _cfg(name):
    with open(os.path.join(tlc.SPECS, SPEC_DIR, name)) as f:
        return f.read()


# ----------------------------------------------------------------------------------------------------------------
# the real PHY in amaranth.sim
# ----------------------------------------------------------------------------------------------------------------
class PhyBench:
    """One elaborated GatewarePHY; runs scenarios (lists of items) and records one dict per usb cycle."""

    def __init__(self, pullup=True, pulldown=False, vbus=False, record=False, clk_offset=False):
        """io configuration: optional `pullup` / `pulldown` / `vbus_valid` elements given or omitted; `record` = a
        real amaranth Record (what platform.request returns) instead of a plain namespace of signals; `clk_offset` =
        the usb edge falls half a usb_io period after a usb_io edge instead of coinciding with one (both are
        "phase related" in the doc-string's sense)."""
        use_repo()
        from amaranth import Signal, Module, ClockDomain, Elaboratable
        from amaranth.sim import Simulator
        from luna.gateware.interface.gateware_phy import GatewarePHY
        if record:
            import warnings
            with warnings.catch_warnings():
                warnings.simplefilter("ignore")
                from amaranth.hdl.rec import Record
                layout = [("d_p", [("i", 1), ("o", 1), ("oe", 1)]), ("d_n", [("i", 1), ("o", 1), ("oe", 1)])]
                layout += [("pullup", [("o", 1)])] if pullup else []
                layout += [("pulldown", [("o", 1)])] if pulldown else []
                layout += [("vbus_valid", [("i", 1)])] if vbus else []
                io = Record(layout)
        else:
            io = types.SimpleNamespace()
            for n in ("d_p", "d_n"):
                setattr(io, n, types.SimpleNamespace(i=Signal(name=n + "_i"), o=Signal(name=n + "_o"),
                                                     oe=Signal(name=n + "_oe")))
            if pullup:
                io.pullup = types.SimpleNamespace(o=Signal(name="pullup_o"))
            if pulldown:
                io.pulldown = types.SimpleNamespace(o=Signal(name="pulldown_o"))
            if vbus:
                io.vbus_valid = types.SimpleNamespace(i=Signal(name="vbus_valid_i"))
        self.io = io
        self.has_pu, self.has_pd, self.has_vbus = pullup, pulldown, vbus
        self.phy = phy = GatewarePHY(io=io)
        # the two domains are created here (as a platform would) so that their resets can be driven
        self.cd_usb, self.cd_io = ClockDomain("usb"), ClockDomain("usb_io")

        class Top(Elaboratable):
            def elaborate(top, platform):
                m = Module()
                m.domains.usb = self.cd_usb
                m.domains.usb_io = self.cd_io
                m.submodules.phy = phy
                return m
        self.sim = Simulator(Top())
        # usb = usb_io / 4, phase related (the doc-string demands it)
        self.sim.add_clock(0.25e-6, phase=0.125e-6, domain="usb_io")
        self.sim.add_clock(1e-6, phase=0.5e-6 if clk_offset else 0.125e-6, domain="usb")
        self._job = None
        self._out = None
        self._first = True
        self.sim.add_testbench(self._bench)

    # -- helpers used inside the testbench ------------------------------------------------------------------
    def _pin_code(self, ctx):
        io = self.io
        oep, oen = ctx.get(io.d_p.oe), ctx.get(io.d_n.oe)
        if oep != oen:
            return 5
        if not oep:
            return 0
        p, n = ctx.get(io.d_p.o), ctx.get(io.d_n.o)
        return J if (p, n) == (1, 0) else K if (p, n) == (0, 1) else SE0 if (p, n) == (0, 0) else 4

    async def _bench(self, ctx):
        kind, job = self._job
        if kind == "pkt":
            self._out = await self._run_pkt(ctx, job)
        else:
            self._out = await self._run_ctl(ctx, job)

    async def _cycle(self, ctx, st, v, d, rst=None):
        """One usb cycle of a packet scenario: apply UTMI inputs, play four waveform samples, record.
        rst = (txk, rxk): both clock-domain resets are asserted in this cycle; the record tells the trace
        specification which packets have been given up (bookkeeping indices after the reset)."""
        phy, io = self.phy, self.io
        ctx.set(phy.tx_valid, int(v))
        ctx.set(phy.tx_data, d)
        ctx.set(self.cd_usb.rst, int(rst is not None))
        ctx.set(self.cd_io.rst, int(rst is not None))
        rec = {"v": bool(v), "d": d, "rdy": bool(ctx.get(phy.tx_ready)),
               "a": bool(ctx.get(phy.rx_active)), "rv": bool(ctx.get(phy.rx_valid)), "rd": ctx.get(phy.rx_data)}
        w, e = [], []
        wave = st["wave"]
        rec["lb"] = False
        for _ in range(4):
            code = wave.next_sample()
            rec["lb"] = rec["lb"] or code != J
            if code != st["lvl"]:
                p, n = LEVELS[code]
                ctx.set(io.d_p.i, p)
                ctx.set(io.d_n.i, n)
                st["lvl"] = code
            w.append(self._pin_code(ctx))
            e.append(ctx.get(phy.rx_error))
            await ctx.tick("usb_io")
        rec["w"], rec["e"] = w, e
        rec["rst"] = rst is not None
        rec["txk"], rec["rxk"] = rst if rst is not None else (0, 0)
        st["steps"].append(rec)
        return rec

    async def _run_pkt(self, ctx, sc):
        phy, io = self.phy, self.io
        wave = Waveform()
        st = {"wave": wave, "lvl": None, "steps": []}
        ctl = sc.get("ctl", {})
        ctx.set(phy.op_mode, 0)
        ctx.set(phy.term_select, ctl.get("ts", 1))
        ctx.set(phy.xcvr_select, ctl.get("xs", 1))
        ctx.set(phy.dp_pulldown, ctl.get("dp", 0))
        ctx.set(phy.dm_pulldown, ctl.get("dm", 0))
        if self.has_vbus:
            ctx.set(io.vbus_valid.i, ctl.get("vbus", 1))
        ctx.set(io.d_p.i, 1)
        ctx.set(io.d_n.i, 0)
        st["lvl"] = J
        await ctx.tick("usb")
        txp, rxp, notes = [], [], []
        idle_d = sc.get("idle0_data", 0)
        for _ in range(sc.get("idle0", 4)):
            await self._cycle(ctx, st, 0, idle_d)
        for it in sc["items"]:
            if it["dir"] == "tx":
                idle_d = it.get("idle_data", 0)
                for _ in range(it["gap"]):
                    await self._cycle(ctx, st, 0, idle_d)
                data = it["bytes"]
                start = len(st["steps"])
                i, driven, released, guard = 0, False, False, 0
                while not released:
                    if it.get("reset_at") is not None and guard == it["reset_at"]:
                        # clock-domain reset in the middle of the transmission: the packet is given up
                        for _ in range(it.get("reset_len", 2)):
                            await self._cycle(ctx, st, 0, idle_d, rst=(len(txp) + 2, len(rxp)))
                        for _ in range(it.get("reset_idle", 3)):
                            await self._cycle(ctx, st, 0, idle_d)
                        break
                    v = i < len(data)
                    rec = await self._cycle(ctx, st, v, data[i] if v else idle_d)
                    if v and rec["rdy"]:
                        i += 1
                    if any(c != 0 for c in rec["w"]):
                        driven = True
                    elif driven and i >= len(data):
                        released = True
                    guard += 1
                    if guard > 40 + 12 * len(data):
                        break                               # the trace will be rejected as incomplete
                txp.append(data)
                notes.append({"dir": "tx", "bytes": data, "idle_data": idle_d, "gap": it["gap"],
                              "kf": it.get("kf", []), "start": start + 1, "end": len(st["steps"])})
            else:
                # a burst of packets rendered on one bit clock; `gap` = idle bit times before each packet (the
                # EOP's J of the previous packet is part of that packet's symbols)
                codes = []
                for p in it["pkts"]:
                    codes += [J] * p["gap"] + [SYM_CODE[s] for s in p["syms"]]
                wave.queue(codes, phase=it.get("phase", 0), rate=it.get("rate", 0), sub=it.get("sub", 0))
                start = len(st["steps"])
                n = 0
                while wave.busy():
                    if it.get("reset_at") is not None and n >= it["reset_at"]:
                        # reset held from here until the burst has left the line (plus two idle bit times), so that
                        # the receiver does not wake up in the middle of a packet
                        await self._cycle(ctx, st, 0, idle_d, rst=(len(txp) + 1, len(rxp) + len(it["pkts"])))
                    else:
                        await self._cycle(ctx, st, 0, idle_d)
                    n += 1
                if it.get("reset_at") is not None:
                    for _ in range(2):
                        await self._cycle(ctx, st, 0, idle_d, rst=(len(txp) + 1, len(rxp) + len(it["pkts"])))
                    for _ in range(3):
                        await self._cycle(ctx, st, 0, idle_d)
                # let the receive pipeline drain: until rx_active has been seen and is low again (bounded)
                guard = 0
                seen = any(r["a"] for r in st["steps"][start:]) or it.get("reset_at") is not None
                while guard < 30 and not (seen and guard >= it.get("drain", 2) and not st["steps"][-1]["a"]):
                    rec = await self._cycle(ctx, st, 0, idle_d)
                    seen = seen or rec["a"]
                    guard += 1
                for p in it["pkts"]:
                    rxp.append({"syms": p["syms"]})
                    notes.append({"dir": "rx", "bytes": p.get("bytes"), "bad": p.get("bad", 0),
                                  "phase": it.get("phase", 0), "rate": it.get("rate", 0), "gap": p["gap"],
                                  "start": start + 1, "end": len(st["steps"])})
        for _ in range(sc.get("tail", 6)):
            await self._cycle(ctx, st, 0, idle_d)
        runs, gaps = wave.summary([[SYM_CODE[s] for s in p["syms"]] for p in rxp])
        cfg = {"kind": "pkt", "txp": txp, "rxp": rxp, "rxgaps": gaps, "runs": runs}
        return {"cfg": cfg, "steps": st["steps"]}, notes

    async def _run_ctl(self, ctx, sc):
        phy, io = self.phy, self.io
        ctx.set(io.d_p.i, 1)
        ctx.set(io.d_n.i, 0)
        await ctx.tick("usb")
        steps = []
        for s in sc["stim"]:
            ctx.set(phy.op_mode, s["op"])
            ctx.set(phy.tx_valid, int(s["v"]))
            ctx.set(phy.tx_data, s["d"])
            ctx.set(phy.term_select, int(s["ts"]))
            ctx.set(phy.dp_pulldown, int(s["dp"]))
            ctx.set(phy.dm_pulldown, int(s["dm"]))
            ctx.set(phy.xcvr_select, s.get("xs", 1))
            if self.has_vbus:
                ctx.set(io.vbus_valid.i, int(s.get("vbus", True)))
            rec = dict(s)
            oe = False
            puo = pdo = 0
            for k in range(4):
                oe = oe or bool(ctx.get(io.d_p.oe)) or bool(ctx.get(io.d_n.oe))
                if k == 3:
                    puo = ctx.get(io.pullup.o) if self.has_pu else 0
                    pdo = ctx.get(io.pulldown.o) if self.has_pd else 0
                await ctx.tick("usb_io")
            rec.update({"oe": oe, "puo": puo, "pdo": pdo, "vbo": ctx.get(phy.vbus_valid), "seo": ctx.get(phy.session_end)})
            steps.append(rec)
        cfg = {"kind": "ctl", "pu": self.has_pu, "pd": self.has_pd, "vbus": self.has_vbus}
        return {"cfg": cfg, "steps": steps}, [{"dir": "ctl", "origin": sc.get("origin")}]

    def run(self, kind, job):
        self._job = (kind, job)
        self._out = None
        if not self._first:
            self.sim.reset()
        self._first = False
        self.sim.run()
        return self._out


class Waveform:
    """Renders queued line symbols into 48 MHz samples (the Env's D+/D- waveform).

    Time is kept in units of 1/1600 sample; a bit lasts 6400 * (1 + rate/10000) units, `phase` whole samples and
    `sub` units of extra idle precede a queued packet.  Every sample handed out is logged (run-length coded) so that
    TLC can check the waveform against the symbol stream it is supposed to render.
    """

    def __init__(self):
        self.syms = []          # symbols of the packet being rendered
        self.bit = 4 * UNITS
        self.t = 0              # time of the next sample relative to the start of self.syms
        self.log = []           # [code, samples]

    def queue(self, codes, phase=0, rate=0, sub=0):
        assert not self.syms
        self.syms = list(codes)
        self.bit = 4 * UNITS + (4 * UNITS * rate) // 10000
        self.t = -(phase * UNITS + sub)

    def busy(self):
        return bool(self.syms)

    def next_sample(self):
        code = J
        if self.syms:
            if self.t >= 0:
                k = self.t // self.bit
                if k >= len(self.syms):
                    self.syms = []
                else:
                    code = self.syms[k]
            self.t += UNITS
        if self.log and self.log[-1][0] == code:
            self.log[-1][1] += 1
        else:
            self.log.append([code, 1])
        return code

    def summary(self, packets):
        """(runs, rxgaps).  rxgaps = idle bit times before / between / after the packets (beyond each EOP's own J
        bit) as measured on the waveform that was driven; runs[i] = [code, samples, bits, start]: the i-th run of
        equal samples, and which bit times of the symbol stream idle, packet, idle, ... it renders.  TLC rebuilds
        that stream from cfg.rxp / cfg.rxgaps and checks every run against it (FsPhyTrace!LegalWaveform)."""
        log = [list(r) for r in self.log]
        idle = [n for i, (c, n) in enumerate(log) if c == J and (i == 0 or log[i - 1][0] == SE0)]
        if not packets or len(idle) < 2:
            gaps = [max(1, (idle[0] if idle else 4) // 4)]
        else:
            gaps = [max(1, idle[0] // 4)] + [max(0, n // 4 - 1) for n in idle[1:]]
        gaps += [0] * (len(packets) + 1 - len(gaps))
        stream = [J] * gaps[0]
        for k, p in enumerate(packets):
            stream += p + [J] * (gaps[k + 1] if k + 1 < len(gaps) else 0)
        rle = []
        for pos, c in enumerate(stream):
            if rle and rle[-1][0] == c:
                rle[-1][1] += 1
            else:
                rle.append([c, 1, pos + 1])
        runs = [[c, n, rle[i][1] if i < len(rle) else 0, rle[i][2] if i < len(rle) else 0]
                for i, (c, n) in enumerate(log)]
        return runs, gaps


# ----------------------------------------------------------------------------------------------------------------
# running scenarios (optionally on several processes; results keep the job order, so runs are deterministic)
# ----------------------------------------------------------------------------------------------------------------
_BENCHES = {}


def _run_job(job):
    kind, key, sc = job
    if key not in _BENCHES:
        _BENCHES[key] = PhyBench(*key)
    return _BENCHES[key].run(kind, sc)


def _run_chunk(jobs):
    return [_run_job(j) for j in jobs]


def _default_procs():
    """Simulator processes: up to 8, fewer when the machine is already oversubscribed."""
    n = os.cpu_count() or 2
    try:
        load = os.getloadavg()[0]
    except OSError:
        load = 0
    return max(2, min(8, n) // (4 if load > 2 * n else 2 if load > n else 1))


def run_jobs(jobs, procs):
    if procs <= 1 or len(jobs) < 8:
        return _run_chunk(jobs)
    import multiprocessing as mp
    n = min(procs, len(jobs))
    # contiguous chunks of the jobs ordered by io/clock configuration: a process elaborates only a few of them
    order = sorted(range(len(jobs)), key=lambda i: (jobs[i][1], i))
    size = -(-len(order) // n)
    idx = [order[c * size:(c + 1) * size] for c in range(n)]
    try:
        with mp.get_context("fork").Pool(n) as pool:
            parts = pool.map(_run_chunk, [[jobs[i] for i in ix] for ix in idx])
    except (OSError, ValueError):
        return _run_chunk(jobs)
    out = [None] * len(jobs)
    for ix, part in zip(idx, parts):
        for i, r in zip(ix, part):
            out[i] = r
    return out


# ----------------------------------------------------------------------------------------------------------------
# TLC as vector generator
# ----------------------------------------------------------------------------------------------------------------
def exhaustive_vectors(rep, alphabet, maxlen, runs, workers):
    """Exhaustive TLC run on the bounded model; returns the vectors TLC wrote (bytes, predicted syms, violations)."""
    cfg = tlc.render_cfg(_cfg("MCFsPhy.cfg.tmpl"), {"Alphabet": TlaSet(alphabet), "MaxLen": maxlen,
                                                    "OnesRuns": TlaSet(runs)})
    with tlc.scratch("fsphy-vec-") as d:
        vf = os.path.join(d, "vectors.json")
        res = tlc.model_check(SPEC_DIR, "MCFsPhy", cfg, workers=workers, timeout=1500, env={"VECTOR_FILE": vf})
        if not os.path.exists(vf):
            raise tlc.TLCError("MCFsPhy wrote no vectors:\n" + res.get("output_tail", ""))
        with open(vf) as f:
            vecs = json.load(f)
    rep.add_mc("MCFsPhy Alphabet=%s MaxLen=%d OnesRuns=%s" % (sorted(alphabet), maxlen, list(runs)), res,
               {"Alphabet": sorted(alphabet), "MaxLen": maxlen, "OnesRuns": list(runs)})
    vecs.sort(key=lambda v: (len(v["bytes"]), v["bytes"]))
    return vecs


def encode_with_tlc(requests):
    """Ask TLC (FsPhyVectors) to encode byte sequences beyond the model's bounds."""
    if not requests:
        return []
    with tlc.scratch("fsphy-enc-") as d:
        rq, vf = os.path.join(d, "requests.json"), os.path.join(d, "vectors.json")
        with open(rq, "w") as f:
            json.dump(requests, f)
        res = tlc.model_check(SPEC_DIR, "FsPhyVectors", _cfg("FsPhyVectors.cfg.tmpl"), workers=1, timeout=900,
                              coverage=False, env={"REQUEST_FILE": rq, "VECTOR_FILE": vf})
        if not os.path.exists(vf):
            raise tlc.TLCError("FsPhyVectors wrote no vectors:\n" + res.get("output_tail", ""))
        with open(vf) as f:
            out = json.load(f)
    if len(out) != len(requests) or any(o["bytes"] != r["bytes"] for o, r in zip(out, requests)):
        raise tlc.TLCError("FsPhyVectors answered different requests")
    return out


# ----------------------------------------------------------------------------------------------------------------
# Env predicates of the open findings (clean stimuli satisfy none of them; witness stimuli exactly one)
# ----------------------------------------------------------------------------------------------------------------
def _bits(b):
    return [(b >> i) & 1 for i in range(8)]


def _run6(bits):
    n = 0
    for b in bits:
        n = n + 1 if b else 0
        if n >= 6:
            return True
    return False


def kf_stall(prev_idle, idle, first):
    """KF_tx_stall: six consecutive ones can reach the (never reset, free-running) transmit bit-stuffer before the
    data phase: the shifter reloads tx_data every eight cycles whatever tx_valid says, so the stream it sees is made
    of whole bytes of the idle tx_data values followed by the first byte."""
    p, i, f = _bits(prev_idle), _bits(idle), _bits(first)
    return _run6(p + p + i + i + f + f + f) or _run6(p + f + f) or _run6(i + p + p)


def kf_sync1(first):
    """KF_tx_sync_one: the SYNC's final one takes part in a stuffing decision (first five data bits are ones)."""
    return first & 0x1F == 0x1F


def kf_rx_eop(syms):
    """KF_rx_eop_after_five_ones: the packet's last five bits before the EOP are ones and the line rests at K."""
    body = syms[:-3]
    n = 0
    while n + 1 < len(body) and body[-1 - n] == body[-2 - n]:
        n += 1
    return body[-1] == "K" and n == 5


SAFE_IDLE = [0x00, 0x55, 0xAA, 0x24, 0x81, 0x12]
PIDS = [0xC3, 0x4B, 0xD2, 0x5A, 0xA5, 0x2D, 0xE1, 0x69, 0x1E, 0x87, 0x96, 0x3C]


def tx_kf(prev_idle, idle, data):
    out = []
    if kf_stall(prev_idle, idle, data[0]):
        out.append("stall")
    if kf_sync1(data[0]):
        out.append("sync1")
    return out


# ----------------------------------------------------------------------------------------------------------------
# classification of rejected traces (normalised cause for known-finding matching; never verdict-bearing)
# ----------------------------------------------------------------------------------------------------------------
def _clause(status):
    i = status.find("_at_")
    return (status[:i], int(status[i + 4:])) if i > 0 and status[i + 4:].isdigit() else (status, None)


def classify(trace, matched, status, meta):
    clause, pos = _clause(status)
    if clause.startswith("env_"):
        # the harness left the stated Env (host model / waveform synthesizer / vector bookkeeping): a machinery
        # failure, never a property violation
        raise tlc.TLCError("stimulus outside the environment assumptions: clause %s at step %d of trace %s"
                           % (clause, matched, meta.get("origin")))
    steps = trace["steps"]
    k = matched                                   # 1-based index of the failing record
    pattern = "other"
    if trace["cfg"]["kind"] == "ctl":
        r = steps[k - 1] if 0 < k <= len(steps) else {}
        if clause == "drives_in_nondriving_mode" and r.get("op") == 1 and r.get("v"):
            # what the code's NO_ENCODING branch does: oe = tx_valid
            pattern = "op_mode_1_handled_as_no_encoding"
        elif clause in ("pulldown_follows_request", "pullup_follows_term_select") and trace["cfg"]["pu"] \
                and trace["cfg"]["pd"] and r.get("pdo") == 0 and r.get("puo") == int(r.get("dp") or r.get("dm")):
            pattern = "pulldown_request_drives_pullup_output"
        return {"clause": clause, "pattern": pattern}
    if clause.startswith("tx_"):
        note = None
        for n in meta.get("notes", []):
            if n["dir"] == "tx" and n["start"] <= k <= n["end"] + 2:
                note = n
        if note is not None:
            first = next((i for i in range(note["start"], len(steps) + 1) if any(c != 0 for c in steps[i - 1]["w"])),
                         None)
            kf = note.get("kf", [])
            if "sync1" in kf and clause == "tx_stuffing_ignores_sync_one":
                pattern = "first_byte_low_five_bits_ones"
            elif "stall" in kf and first is not None and k - first <= 20:
                pattern = "stuffer_stall_from_ones_before_data_phase"
    elif clause == "rx_error_on_good_packet":
        frame = 0
        for i in range(k):
            if steps[i]["a"] and (i == 0 or not steps[i - 1]["a"]):
                frame += 1
        rxp = trace["cfg"]["rxp"]
        ends = all(not r["a"] for r in steps[k + 3:k + 4])          # rx_active falls within three cycles
        if 0 < frame <= len(rxp) and kf_rx_eop(rxp[frame - 1]["syms"]) and ends:
            pattern = "during_eop_after_five_ones_at_k"
    elif clause == "rx_error_pulse_shorter_than_usb_cycle":
        best = cur = 0
        for r in steps:
            for b in r["e"]:
                cur = cur + 1 if b else 0
                if r["a"]:
                    best = max(best, cur)
        pattern = "single_usb_io_cycle_pulse" if best == 1 else "pulse_of_%d_usb_io_cycles" % best
    return {"clause": clause, "pattern": pattern}


# ----------------------------------------------------------------------------------------------------------------
# scenario builders
# ----------------------------------------------------------------------------------------------------------------
class Builder:
    def __init__(self, rng):
        self.rng = rng
        self.jobs = []           # (kind, (pullup, pulldown), scenario)
        self.meta = []           # per job: {"origin", "class"}

    def add(self, kind, sc, origin, cls="clean", key=(True, False)):
        sc["origin"] = origin
        self.jobs.append((kind, key, sc))
        k = tuple(key) + (False,) * (5 - len(key))
        self.meta.append({"origin": origin, "class": cls,
                          "io": dict(zip(("pullup", "pulldown", "vbus_valid", "record", "clk_offset"), k))})

    # -- transmit ----------------------------------------------------------------------------------------------
    def tx_item(self, data, prev_idle, idle=None, gap=None):
        rng = self.rng
        if idle is None:
            idle = rng.choice(SAFE_IDLE)
        if gap is None:
            gap = rng.choice([1, 1, 2, 2, 3, 4, 6, 9, 13])
        return {"dir": "tx", "bytes": list(data), "idle_data": idle, "gap": gap, "kf": tx_kf(prev_idle, idle, data)}

    def clean_tx_bytes(self, data, salt):
        """The packet itself when no open finding's Env predicate can hold for it, else the same bytes behind a PID."""
        if not any(tx_kf(i, j, data) for i in SAFE_IDLE for j in SAFE_IDLE):
            return list(data)
        return [PIDS[salt % len(PIDS)]] + list(data)

    def tx_traces(self, packets, origin, per_trace=6):
        rng = self.rng
        for i in range(0, len(packets), per_trace):
            prev = rng.choice(SAFE_IDLE)
            items = []
            for data in packets[i:i + per_trace]:
                it = self.tx_item(data, prev)
                assert not it["kf"], (data, it)
                prev = it["idle_data"]
                items.append(it)
            self.add("pkt", {"idle0": rng.randint(2, 9), "idle0_data": items[0]["idle_data"], "items": items,
                             "tail": rng.randint(3, 8)}, origin)

    # -- receive -----------------------------------------------------------------------------------------------
    def rx_burst(self, pkts, phase, rate=0, sub=0, min_first_gap=2):
        """pkts: list of (vector, bad_index or None)."""
        rng = self.rng
        out = []
        for n, (v, bad) in enumerate(pkts):
            gap = rng.choice([1, 1, 1, 2, 3, 5, 9]) if n else rng.randint(min_first_gap, 6)
            out.append({"gap": gap, "syms": v["bad"][bad] if bad is not None else v["syms"], "bytes": v["bytes"],
                        "bad": 0 if bad is None else bad + 1})
        return {"dir": "rx", "pkts": out, "phase": phase, "rate": rate, "sub": sub, "drain": rng.choice([0, 1, 2, 5])}

    def rx_traces(self, plan, origin, bursts_per_trace=2, per_burst=3):
        """plan: list of (vector, bad, phase, rate)."""
        rng = self.rng
        i = 0
        while i < len(plan):
            items = []
            for _ in range(bursts_per_trace):
                chunk = plan[i:i + per_burst]
                if not chunk:
                    break
                # one burst = one bit clock: use the phase / rate of its first packet
                items.append(self.rx_burst([(v, b) for v, b, _, _ in chunk], chunk[0][2], chunk[0][3],
                                           sub=rng.randrange(UNITS) if chunk[0][3] else 0))
                i += per_burst
            self.add("pkt", {"idle0": rng.randint(2, 7), "items": items, "tail": rng.randint(3, 8)}, origin)


def ctl_stimulus(rng, n, allow_nondriving_request, pull_requests):
    """Random control schedule; moods last a few cycles.  allow_nondriving_request = may assert tx_valid in op_mode 1."""
    stim = []
    s = {"op": 0, "v": False, "d": 0, "ts": False, "dp": False, "dm": False, "xs": 1, "vbus": True}
    left = 0
    for _ in range(n):
        if left == 0:
            left = rng.randint(1, 9)
            what = rng.choice(["op", "op", "tx", "tx", "pull", "pull", "all"])
            if what in ("op", "all"):
                s["op"] = rng.choice([0, 0, 1, 1, 2, 3])
            if what in ("tx", "all"):
                s["v"] = rng.random() < 0.6
                s["d"] = rng.choice([0x00, 0xFF, 0x80, 0xC3, rng.randrange(256)])
            if what in ("pull", "all"):
                s["ts"] = rng.random() < 0.5
                if pull_requests:
                    s["dp"] = rng.random() < 0.4
                    s["dm"] = rng.random() < 0.4
                s["xs"] = rng.randrange(4)
                s["vbus"] = rng.random() < 0.7
            if s["op"] == 1 and s["v"] and not allow_nondriving_request:
                s["v"] = False
        left -= 1
        stim.append(dict(s))
    return stim


# ----------------------------------------------------------------------------------------------------------------
# the check
# ----------------------------------------------------------------------------------------------------------------
def _observed_symbols(steps, note):
    """Line symbols of one transmitted packet as recovered from the 48 MHz samples (DRIFT information only)."""
    flat = [c for r in steps[note["start"] - 1:note["end"]] for c in r["w"]]
    drv = [c for c in flat if c != 0]
    names = {J: "J", K: "K", SE0: "SE0", 4: "SE1", 5: "?"}
    return [names[drv[i]] for i in range(0, len(drv) - len(drv) % 4, 4)]


def check_C25(rep):
    quick = rep.tier == "quick"
    rng = rep.rng
    procs = int(os.environ.get("VERIF_PROCS", 0)) or _default_procs()
    rep.rule = ("packets driven through the real GatewarePHY and validated by TLC against FsPhy/LineCode; a case is "
                "non-trivial when a whole packet was transmitted or received (or a control request changed); distinct by "
                "(direction, bytes, idle tx_data / sampling phase / rate offset / violated stuff bit) resp. "
                "(op_mode, tx_valid, term_select, pull-down request, io elements)")
    rep.assume("usb and usb_io clocks are phase-locked 1:4 with coinciding edges (GatewarePHY doc-string)")
    rep.assume("UTMI host: tx_data is held until tx_ready, tx_valid is dropped in the cycle after the last byte was "
               "accepted, tx_data is arbitrary while tx_valid is low; a new packet is requested at least one cycle "
               "after the PHY released the bus / after rx_active fell")
    rep.assume("bus side: well-formed full-speed packets, inter-packet delay >= 2 bit times, sampled-digital D+/D- "
               "without skew, line rate within +-0.25 % of the 48 MHz sampler / 4, any sampling phase")
    rep.assume("op_mode 2 (no bit-stuffing/NRZI) and 3 (reserved), xcvr_select and line_state are not constrained "
               "by the property; control outputs are compared once a request has been stable for 2 usb cycles")
    rep.assume("clock-domain resets: ResetSignal of usb and usb_io are asserted together for at least two usb cycles "
               "(a single-cycle reset leaves the reset-less 3-stage synchronizers of TxPipeline holding 'drive', and "
               "the PHY then puts a runt K + EOP on the bus after the reset -- observed, outside the stated Env); the "
               "receiver is released from reset only while the line is idle")
    rep.assume("clean stimuli avoid the Env predicates of the open findings (KF_tx_stall: six consecutive ones in "
               "idle tx_data / first byte before the data phase; KF_tx_sync_one: first byte xxx11111; stuff-violation "
               "packets and op_mode 1 with tx_valid / io with pulldown element are witness stimuli)")

    # 1. exhaustive exploration of the specification; TLC writes the vectors with the predicted symbols
    alphabet = [0x00, 0xFF, 0x7F, 0xFE, 0x80, 0x3F] + ([] if quick else [0x01, 0xFC])
    vecs = exhaustive_vectors(rep, alphabet, 3, range(1, 9) if quick else range(1, 13), workers=None)

    # 2. packets beyond the bounds, encoded by TLC on request
    def pid():
        return rng.choice(PIDS)
    extra = [[pid()] + [rng.randrange(256) for _ in range(rng.randint(0, 9))] for _ in range(50 if quick else 300)]
    extra += [[pid()] + [rng.choice([0xFF, 0xFF, 0x7F, 0xFE, 0xFC, 0x3F, 0xF8, 0x00, rng.randrange(256)])
                         for _ in range(rng.randint(10, 40))] for _ in range(6 if quick else 40)]
    extra += [[pid()] + [0xFF] * n for n in ((9, 12, 21) if quick else (9, 10, 11, 12, 16, 21, 33, 64))]
    extra += [[pid(), b] for b in (0xF8, 0xFC, 0x7E, 0xBF, 0x1F, 0xFB)]
    extra += [[pid()] + [rng.randrange(256) for _ in range(n)] for n in ((64,) if quick else (64, 64, 128, 256))]
    xvecs = encode_with_tlc([{"bytes": b, "nbad": 2} for b in extra])

    B = Builder(rng)
    # io / clock configurations (pullup, pulldown, vbus_valid, amaranth Record, usb edge offset): packet traces rotate
    # over them (start of the rotation depends on the seed), the control traces elaborate each optional-pin class
    PKT_KEYS = [(True, False, False, False, False), (True, True, True, True, False), (False, False, False, False, True),
                (True, False, True, False, True), (False, True, False, True, False)]
    rot = [rng.randrange(len(PKT_KEYS))]
    add0 = B.add

    def add_rot(kind, sc, origin, cls="clean", key=None):
        if kind == "pkt" and key is None:
            rot[0] += 1
            key = PKT_KEYS[rot[0] % len(PKT_KEYS)]
            sc.setdefault("ctl", {"ts": rng.randrange(2), "xs": rng.randrange(1, 4), "dp": rng.randrange(2),
                                  "dm": rng.randrange(2), "vbus": rng.randrange(2)})
        add0(kind, sc, origin, cls, key if key is not None else (True, False))
    B.add = add_rot

    # 3a. transmit: every vector (behind a PID where an open finding's Env predicate could hold), random packets
    tx_clean = [B.clean_tx_bytes(v["bytes"], i) for i, v in enumerate(vecs)] + [v["bytes"] for v in xvecs]
    rng.shuffle(tx_clean)
    B.tx_traces(tx_clean, "tx:tlc-vectors+random", per_trace=6)

    # 3b. receive: every vector at the four sampling phases, random packets with rate offsets, injected stuff
    #     violations
    plan, eop_kf = [], []
    for i, v in enumerate(vecs):
        phases = range(4)
        if kf_rx_eop(v["syms"]):
            eop_kf.append(v)
            continue
        for ph in phases:
            rate = rng.choice([-25, 25]) if rng.random() < (0.15 if quick else 0.3) else 0
            plan.append((v, None, ph, rate))
    for v in xvecs:
        if kf_rx_eop(v["syms"]):
            eop_kf.append(v)
            continue
        for _ in range(1 if quick else 3):
            plan.append((v, None, rng.randrange(4), rng.choice([-25, -12, 0, 12, 25])))
    rng.shuffle(plan)
    B.rx_traces(plan, "rx:tlc-vectors+random")

    bad_pool = [(v, k) for v in vecs + xvecs for k in range(len(v["bad"])) if not kf_rx_eop(v["bad"][k])]
    bad_sel = rng.sample(bad_pool, min(len(bad_pool), 200)) if quick else bad_pool
    good_pool = [v for v in vecs if len(v["bytes"]) <= 2 and not kf_rx_eop(v["syms"])]
    rx_pool = [v for v in vecs + xvecs[:30] if not kf_rx_eop(v["syms"])]
    bplan = []
    for v, k in bad_sel:
        ph, rate = rng.randrange(4), rng.choice([-25, 0, 0, 25])
        bplan += [(rng.choice(good_pool), None, ph, rate), (v, k, ph, rate), (rng.choice(good_pool), None, ph, rate)]
    B_bad_first = len(B.jobs)
    B.rx_traces(bplan, "rx:stuff-violation", bursts_per_trace=1, per_burst=3)
    for m in B.meta[B_bad_first:]:
        m["class"] = "witness:C25-rx-error-single-48mhz-pulse"

    first = len(B.jobs)
    B.rx_traces([(v, None, ph, 0) for v in eop_kf[:8 if quick else 1000] for ph in ((0, 2) if quick else range(4))],
                "rx:witness last five bits ones at K", bursts_per_trace=1, per_burst=1)
    for m in B.meta[first:]:
        m["class"] = "witness:C25-rx-false-error-at-eop"

    # 3c. both directions in one trace (turn-arounds)
    for _ in range(16 if quick else 100):
        items, prev = [], rng.choice(SAFE_IDLE)
        for _ in range(rng.randint(3, 6)):
            if rng.random() < 0.5:
                it = B.tx_item(B.clean_tx_bytes(rng.choice(vecs)["bytes"], rng.randrange(12)), prev)
                prev = it["idle_data"]
                items.append(it)
            else:
                items.append(B.rx_burst([(rng.choice(rx_pool), None) for _ in range(rng.randint(1, 2))],
                                        rng.randrange(4), rng.choice([-25, 0, 0, 25]), sub=rng.randrange(UNITS)))
        B.add("pkt", {"idle0": rng.randint(2, 7), "idle0_data": prev, "items": items, "tail": 6}, "mixed:turnaround")

    # 3c'. systematic alignment sweeps: start of a transmission against the free-running bit strobe / shifter
    #      (every offset 0..15), gap between two transmissions, gap between two received packets (at every phase),
    #      both turn-arounds
    def vec_of(data):
        return next(v for v in vecs + xvecs if v["bytes"] == data)
    for off in range(16):
        B.add("pkt", {"idle0": 3 + off, "idle0_data": 0x55, "items": [B.tx_item([0xC3, 0xFF, 0x7F], 0x55, idle=0x55, gap=0)],
                      "tail": 4}, "tx:sweep start offset %d" % off)
    for g in range(1, 13):
        B.add("pkt", {"idle0": 4, "idle0_data": 0, "items": [B.tx_item([0x4B, 0x00, 0xFF], 0, idle=0, gap=1),
                                                              B.tx_item([0xD2], 0, idle=0x24, gap=g)], "tail": 4},
              "tx:sweep gap %d" % g)
    va, vb = vec_of([0xFF, 0x7F]), vec_of([0x80])
    for g in range(1, 11):
        for ph in range(4):
            burst = B.rx_burst([(va, None), (vb, None)], ph)
            burst["pkts"][0]["gap"], burst["pkts"][1]["gap"] = 3, g
            B.add("pkt", {"idle0": 3, "items": [burst], "tail": 6}, "rx:sweep gap %d phase %d" % (g, ph))
    for drain in range(0, 5):
        for g in range(1, 4):
            burst = B.rx_burst([(va, None)], (drain + g) % 4)
            burst["drain"] = drain
            B.add("pkt", {"idle0": 3, "items": [burst, B.tx_item([0xD2], 0, idle=0, gap=g)], "tail": 5},
                  "mixed:sweep rx->tx drain %d gap %d" % (drain, g))
    for g in range(2, 9):
        burst = B.rx_burst([(vb, None)], g % 4)
        burst["pkts"][0]["gap"] = g
        B.add("pkt", {"idle0": 3, "items": [B.tx_item([0xD2, 0xFF], 0, idle=0, gap=1), burst], "tail": 5},
              "mixed:sweep tx->rx gap %d" % g)

    # 3c''. clock-domain reset (ResetSignal of usb and usb_io) in the middle of a transmission / reception, at every
    #       offset; afterwards the PHY must be idle and handle the next packets in both directions
    for d in range(0, 34, 1 if not quick else 2):
        it = B.tx_item([0xC3, 0xFF, 0x80], 0, idle=0, gap=2)
        it.update({"reset_at": d, "reset_len": 2 + d % 3, "reset_idle": 1 + d % 4})
        B.add("pkt", {"idle0": 3 + d % 5, "idle0_data": 0, "tail": 5,
                      "items": [it, B.tx_item([0x4B, 0xFF, 0x3F], 0, idle=0, gap=1), B.rx_burst([(va, None)], d % 4),
                                B.tx_item([0xD2], 0, idle=0, gap=2)]}, "reset:during tx, offset %d" % d)
    for d in range(0, 40, 1 if not quick else 2):
        burst = B.rx_burst([(va, None)], d % 4)
        burst["reset_at"] = d
        B.add("pkt", {"idle0": 3, "tail": 5,
                      "items": [burst, B.rx_burst([(vb, None), (va, None)], (d + 1) % 4),
                                B.tx_item([0xC3, 0x00, 0xFF], 0, idle=0, gap=1)]}, "reset:during rx, offset %d" % d)

    # 3d. witness stimuli of the transmit findings
    for off in range(56):          # the stall depends on the phase of the free-running shifter (8) and stuffer (7)
        it = B.tx_item([0xC3, 0x12], 0xFF, idle=0xFF, gap=0)
        B.add("pkt", {"idle0": 20 + off, "idle0_data": 0xFF, "items": [it], "tail": 4},
              "tx:witness idle tx_data=FF then C3 12, offset %d" % off, cls="witness:C25-tx-bitstuffer-free-running")
    for data in ([0x1F], [0x5F, 0x00], [0x5F, 0xFF, 0x01]):
        it = B.tx_item(data, 0x00, idle=0x00, gap=3)
        B.add("pkt", {"idle0": 5, "idle0_data": 0, "items": [it], "tail": 4},
              "tx:witness first byte xxx11111", cls="witness:C25-tx-sync-one-not-counted")

    # 3e. static clauses
    for n, key in enumerate([(True, False)] * (4 if quick else 20) + [(False, False)] * (2 if quick else 6)):
        B.add("ctl", {"stim": ctl_stimulus(rng, 250 if quick else 1000, True, True)}, "ctl:random", key=key)
    # op_mode leaves normal mode while the transmit pipeline is busy (during SYNC / payload / drain / EOP), at every
    # offset, for every target mode; then back to normal and a second packet request
    CTL_KEYS = [(True, False), (False, False), (True, True), (False, True), (True, True, True), (True, False, True, True),
                (False, False, False, False, True)]
    for d in range(0, 40, 1 if not quick else 2):
        for mode in ((1,) if quick and d % 4 else (1, 2, 3)):
            base = {"op": 0, "v": False, "d": 0, "ts": bool(d & 1), "dp": False, "dm": bool(d & 2), "xs": 1 + d % 3,
                    "vbus": True}
            nv = 10 + d % 12                      # cycles tx_valid is held (tx_data constant: a stream of C3 bytes)
            stim = [dict(base) for _ in range(3)]
            stim += [dict(base, v=(i < nv), d=0xC3, op=(mode if i >= d else 0)) for i in range(d + 14)]
            stim += [dict(base, op=mode) for _ in range(6)] + [dict(base) for _ in range(3)]
            stim += [dict(base, v=(i < 9), d=0x80) for i in range(30)]
            B.add("ctl", {"stim": stim}, "ctl:sweep op_mode 0->%d at offset %d while transmitting" % (mode, d),
                  key=CTL_KEYS[(d + mode) % len(CTL_KEYS)])
    for key in CTL_KEYS[4:]:
        B.add("ctl", {"stim": ctl_stimulus(rng, 200, True, True)}, "ctl:random", key=key)
    B.add("ctl", {"stim": ctl_stimulus(rng, 250, True, True)}, "ctl:witness op_mode=1 with tx_valid",
          cls="witness:C25-opmode-constants-swapped")
    for _ in range(2):
        B.add("ctl", {"stim": ctl_stimulus(rng, 150, False, True)}, "ctl:witness io with pullup and pulldown",
              cls="witness:C25-pulldown-drives-pullup", key=(True, True))

    # 4. run everything on the real PHY
    results = run_jobs(B.jobs, procs)
    try:        # io with a pulldown but no pullup element: elaborates only once the pull-down assignment is right
        tr = _run_job(("ctl", (False, True), {"stim": ctl_stimulus(rng, 150, False, True)}))
        results.append(tr)
        B.meta.append({"origin": "ctl:io with pulldown only", "class": "witness:C25-pulldown-drives-pullup",
                       "io": {"pullup": False, "pulldown": True}})
    except AttributeError as ex:
        rep.notes.append("GatewarePHY(io with pulldown but without pullup element) does not elaborate: %s "
                         "(same cause as finding C25-pulldown-drives-pullup)" % ex)

    items = []
    by_bytes = {tuple(v["bytes"]): v for v in vecs + xvecs}
    lat_tx, lat_rx = set(), set()
    for (trace, notes), meta in zip(results, B.meta):
        m = dict(meta)
        m["notes"] = notes
        items.append((trace, m))
        steps = trace["steps"]
        rep.add_eval(len(steps))
        if trace["cfg"]["kind"] == "ctl":
            want_vbus = (lambda r: int(r.get("vbus", True))) if trace["cfg"].get("vbus") else (lambda r: 1)
            for r in steps:
                rep.nontriv(("ctl", r["op"], r["v"], r["ts"], r["dp"] or r["dm"], trace["cfg"]["pu"], trace["cfg"]["pd"],
                             trace["cfg"].get("vbus", False)))
                if (r["vbo"], r["seo"]) != (want_vbus(r), 1 - want_vbus(r)) and len(rep.drift) < 10:
                    rep.drift.append({"what": "vbus_valid / session_end do not follow io.vbus_valid (doc-string; not "
                                              "part of C25's statement)", "record": r, "io": meta["io"]})
            continue
        for n in notes:
            if n["dir"] == "tx":
                rep.nontriv(("tx", tuple(n["bytes"]), n["idle_data"]))
                first = next((i for i in range(n["start"], n["end"] + 1) if any(steps[i - 1]["w"])), None)
                if first:
                    lat_tx.add(first - n["start"])
                v = by_bytes.get(tuple(n["bytes"]))
                if v is not None and meta["class"] == "clean":      # spec -> code: TLC's prediction vs the pins
                    obs = _observed_symbols(steps, n)
                    if obs != v["syms"] and len(rep.drift) < 10:
                        rep.drift.append({"what": "transmitted symbols differ from TLC's prediction (decided by the "
                                                  "trace validation)", "bytes": n["bytes"], "observed": obs})
            else:
                rep.nontriv(("rx", tuple(n["bytes"] or ()), n["phase"], n["rate"], n["bad"]))
    rep.notes.append("not part of C25, not checked: the doc-string promises that the lines are not driven while "
                     "xcvr_select = 0b00, but GatewarePHY.elaborate never reads xcvr_select")
    rep.notes.append("observed latency tx_valid -> first driven bit time: %s usb cycles (free in the spec)"
                     % sorted(lat_tx))

    # 5. TLC validates every recorded trace
    cfg = _cfg("FsPhyTrace.cfg.tmpl")
    validate_group(rep, SPEC_DIR, "FsPhyTrace", cfg, items, classify=classify, steps_of=lambda t: len(t["steps"]),
                   what_prefix="GatewarePHY ", chunk=600, timeout=1500)
    for (trace, notes), meta in list(zip(results, B.meta))[:400:80]:
        rep.sample({"origin": meta["origin"], "cfg": {k: v for k, v in trace["cfg"].items() if k != "runs"},
                    "first_steps": trace["steps"][:3], "cycles": len(trace["steps"])})


CHECKS = {"C25": check_C25}
