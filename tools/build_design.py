#!/usr/bin/env python3
"""Refresh the generated appendices of DESIGN.md (engine notes, findings/fixes, seeded changes, mutants)."""
import glob, json, os, re, subprocess
V = "/verif"
design = open(V + "/DESIGN.md").read()
MARK = "\n<!-- GENERATED APPENDICES BELOW: tools/build_design.py -->\n"
head = design.split(MARK)[0].rstrip() + "\n"

out = [MARK]
out.append("\n## Appendix C — engines as built (one note per engine, written by the engine's author)\n")
order = ["fifo", "crc", "usb2tok", "usb2data", "usb2ctl", "usb2desc", "usb2ep", "usb2iso", "usbserial", "usb2reset", "ulpi",
         "fsphy", "periph1", "periph2", "ss_phys", "ss_linka", "ss_linkb", "ss_linklayer", "ss_ltssm", "ss_proto", "usb2stack", "ss_device"]
for e in order:
    p = "%s/docs/%s.md" % (V, e)
    if os.path.exists(p):
        txt = open(p).read().strip()
        txt = re.sub(r"(?m)^# ", "### ", txt)
        txt = re.sub(r"(?m)^## ", "#### ", txt)
        out.append("\n" + txt + "\n")

out.append("\n## Appendix D — genuine defects found by the checks, and what was done\n")
out.append("Every entry was first reproduced by the framework's own check as a rejected real-gateware trace. `fixed` = repaired "
           "in /repo by the named unguarded `fix:` commit (the witness stimuli stay in the check as regression and must now be "
           "accepted); `open` = recorded in known_findings.json, the check prints a KNOWN-FINDING line for the witness class only.\n\n"
           "| property | finding | status | commit | what |\n|---|---|---|---|---|\n")
fs = json.load(open(V + "/known_findings.json"))["findings"]
for f in fs:
    what = f["what"].replace("|", "/").replace("\n", " ")
    what = re.sub(r"^fixed: property=\S+ \S+ ", "", what)
    out.append("| %s | %s | %s | %s | %s |\n" % (f["property"], f["id"], f["status"], f.get("commit", ""), what[:400]))
n_open = sum(1 for f in fs if f["status"] == "open")
out.append("\n%d findings in total, %d repaired by `fix:` commits, %d open.\n" % (len(fs), len(fs) - n_open, n_open))

out.append("\n## Appendix E — independently seeded changes and which checks catch them\n")
out.append("Each change was written by a fresh sub-agent that saw only the property text and a scratch worktree (nothing from /verif), "
           "confirmed by the integrator in a fresh worktree (patch applies, unedited test-suite still 93 passed, demo exits 0 on the "
           "unchanged tree and 1 with the patch), filed under `seeded/<id>/` and run against the checks with `tools/seedtest.py`.\n\n"
           "| seed | breaks | what it needs to manifest | caught by | note |\n|---|---|---|---|---|\n")
res = {}
rp = V + "/seeded/RESULTS.json"
if os.path.exists(rp):
    res = json.load(open(rp))
for d in sorted(glob.glob(V + "/seeded/*/meta.json")):
    n = os.path.basename(os.path.dirname(d))
    m = json.load(open(d))
    r = res.get(n, {})
    needs = str(m.get("needs", "")).replace("|", "/").replace("\n", " ")[:300]
    out.append("| %s | %s | %s | %s | %s |\n" % (n, m["property"], needs, r.get("caught_by", "?"), r.get("note", "")))

out.append("\n## Appendix F — mutants kept for self-test (`tools/seedtest.py mutants/<ID>/<name>.diff <ID>`)\n\n")
for d in sorted(glob.glob(V + "/mutants/C*")):
    names = sorted(os.path.basename(x)[:-5] for x in glob.glob(d + "/*.diff"))
    if names:
        out.append("* **%s** (%d): %s\n" % (os.path.basename(d), len(names), ", ".join(names)))
open(V + "/DESIGN.md", "w").write(head + "".join(out))
print("DESIGN.md refreshed:", len(head + "".join(out)), "bytes")
