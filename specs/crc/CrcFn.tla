------------------------------- MODULE CrcFn -------------------------------
(***************************************************************************)
(* Property C30, part 1: the combinational CRC networks of LUNA, as what   *)
(* the USB standards say they must compute.                                *)
(*                                                                         *)
(* Every network is a pure function  out = F(state, data).  All values are *)
(* exchanged as bit sequences in *signal order*: element i+1 is bit i of   *)
(* the gateware signal.  USB sends every field least-significant bit first,*)
(* so a data signal in signal order is already in wire order.              *)
(*                                                                         *)
(*  - CRC5 networks (USB2 token, USB3 link control word): 11 protected     *)
(*    bits -> the 5-bit CRC field, bit 0 = first field bit on the wire.    *)
(*  - "next state" networks (USB2 data CRC16 per byte; USB3 header CRC16   *)
(*    per 32-bit word; USB3 payload CRC32 per word / 3 / 2 / 1 trailing    *)
(*    bytes): running register x data -> running register.  The running    *)
(*    register is the shift register of CRC.tla; bit i of the gateware     *)
(*    register holds the coefficient of x^i (this is the "running CRC"     *)
(*    format whose bit-reversed complement the modules output as the CRC   *)
(*    field).                                                              *)
(* Nothing here looks at the parallel XOR equations of the code: every     *)
(* definition is a fold of the one-bit shift CrcShift of CRC.tla.          *)
(***************************************************************************)
EXTENDS CRC

Crc5Kinds == {"usb2_crc5", "usb3_crc5"}
NextKinds == {"usb2_crc16", "usb3_hdr16", "usb3_crc32_4B", "usb3_crc32_3B", "usb3_crc32_2B", "usb3_crc32_1B"}
FnKinds   == Crc5Kinds \cup NextKinds

StateWidth(k) == IF k \in Crc5Kinds THEN 0
                 ELSE IF k \in {"usb2_crc16", "usb3_hdr16"} THEN 16 ELSE 32
DataWidth(k)  == CASE k \in Crc5Kinds      -> 11
                   [] k = "usb2_crc16"     -> 8
                   [] k = "usb3_hdr16"     -> 32
                   [] k = "usb3_crc32_4B"  -> 32
                   [] k = "usb3_crc32_3B"  -> 24
                   [] k = "usb3_crc32_2B"  -> 16
                   [] k = "usb3_crc32_1B"  -> 8
OutWidth(k)   == IF k \in Crc5Kinds THEN 5 ELSE StateWidth(k)
PolyOf(k)     == CASE k \in Crc5Kinds      -> Poly5
                   [] k = "usb2_crc16"     -> Poly16
                   [] k = "usb3_hdr16"     -> Poly16H
                   [] OTHER                -> Poly32

\* running register (CRC.tla order: element 1 = coefficient of x^(W-1))  <->  gateware signal order
RegOfSignal(s) == Reverse(s)
SignalOfReg(r) == Reverse(r)

\* THE definition every network is compared with.
FnDef(k, s, d) ==
    IF k \in Crc5Kinds THEN CrcField(d, Poly5)
    ELSE SignalOfReg(CrcRun(RegOfSignal(s), d, PolyOf(k)))

WellTyped(k, s, d, o) == /\ k \in FnKinds
                         /\ Len(s) = StateWidth(k) /\ Len(d) = DataWidth(k) /\ Len(o) = OutWidth(k)
                         /\ \A i \in 1..Len(s) : s[i] \in Bit
                         /\ \A i \in 1..Len(d) : d[i] \in Bit
                         /\ \A i \in 1..Len(o) : o[i] \in Bit

-----------------------------------------------------------------------------
(* The inputs TLC asks the harness to evaluate the real networks on (spec -> code):       *)
(* all 2^11 inputs of the CRC5 networks; for the wide networks an affine basis of the     *)
(* input space GF(2)^(StateWidth+DataWidth): the zero vector and every unit vector.       *)
(* Two affine maps that agree on an affine basis agree everywhere.                        *)
ZeroVec(n)    == [i \in 1..n |-> 0]
UnitVec(n, j) == [i \in 1..n |-> IF i = j THEN 1 ELSE 0]

PointCount(k) == IF k \in Crc5Kinds THEN 2048 ELSE 1 + StateWidth(k) + DataWidth(k)
Point(k, j) ==                                   \* j \in 1..PointCount(k)
    IF k \in Crc5Kinds
    THEN [s |-> <<>>, d |-> BitsLSB(j - 1, 11)]
    ELSE LET sw == StateWidth(k)
             dw == DataWidth(k)
         IN IF j = 1 THEN [s |-> ZeroVec(sw), d |-> ZeroVec(dw)]
            ELSE IF j <= 1 + sw THEN [s |-> UnitVec(sw, j - 1), d |-> ZeroVec(dw)]
            ELSE [s |-> ZeroVec(sw), d |-> UnitVec(dw, j - 1 - sw)]

\* the expected images, as evaluated by TLC from the bit-serial definition
ImagesOf(k) == [j \in 1..PointCount(k) |->
                  LET p == Point(k, j) IN [s |-> p.s, d |-> p.d, o |-> FnDef(k, p.s, p.d)]]

-----------------------------------------------------------------------------
(* Facts from the standards used as cross-checks of the transcription (checked by TLC as  *)
(* ASSUMEs / invariants in MCCrcFn):                                                      *)
(*  [USB2.0 8.3.5.1] "the residual of a packet received without errors is 01100" (CRC5)   *)
(*  [USB2.0 8.3.5.2] "... 1000000000001101" (CRC16); CRC-32 (0x04C11DB7) residual         *)
(*  0xC704DD7B [USB3.2 7.2.1.2.1].  Residual = register after the data *and* its CRC      *)
(*  field went through the generator.                                                     *)
Residual5  == <<0, 1, 1, 0, 0>>
Residual16 == <<1,0,0,0, 0,0,0,0, 0,0,0,0, 1,1,0,1>>
Residual32 == <<1,1,0,0, 0,1,1,1, 0,0,0,0, 0,1,0,0, 1,1,0,1, 1,1,0,1, 0,1,1,1, 1,0,1,1>>   \* 0xC704DD7B

\* the residual of a polynomial, computed (the standards give it only for some of them)
ResidualOf(poly) == CrcRun(Ones(Len(poly)), CrcField(<<>>, poly), poly)

\* a receiver accepts (data, field) iff running both through the generator leaves the residual
Accepts(data, field, poly) == CrcRun(Ones(Len(poly)), data \o field, poly) = ResidualOf(poly)

Flip(bits, j) == [i \in 1..Len(bits) |-> IF i = j THEN 1 - bits[i] ELSE bits[i]]
=============================================================================
