------------------------------ MODULE IlaTrace ------------------------------
(***************************************************************************)
(* Trace validation for Ila.  Per-cycle records from the real              *)
(* IntegratedLogicAnalyzer:                                                *)
(*   [trigger, d, addr, rst       -- inputs applied in this cycle           *)
(*    sampling, complete, sample] -- outputs observed before the clock edge *)
(* A trace is [cfg |-> [depth |-> D, pre |-> P], steps |-> <<records>>].   *)
(***************************************************************************)
EXTENDS Ila, TLC, TLCExt, Json, IOUtils

Logs == JsonDeserialize(IOEnv.TRACE_FILE)

VARIABLES tid, l, status
tvars == <<vars, tid, l, status>>

ASSUME \A i \in 1..Len(Logs) : TLCSet(i, <<0, "ok">>)

Rec == Logs[tid].steps[l]

InputOf(r) == [trigger |-> r.trigger, d |-> r.d, addr |-> r.addr, rst |-> r.rst]

Failing(r) ==
    IF r.sampling # Sampling THEN "sampling"
    ELSE IF r.complete /\ ~done THEN "complete_before_last_sample"
    ELSE IF ~r.complete /\ cmp /\ done THEN "complete_dropped"
    ELSE IF ~r.complete /\ done /\ lag >= MaxLag THEN "complete_not_raised"
    ELSE IF ReadChecked /\ r.sample # ReadValue THEN "read_back"
    ELSE "ok"

TInit == /\ tid \in 1..Len(Logs)
         /\ InitWith(Logs[tid].cfg.depth, Logs[tid].cfg.pre)
         /\ l = 1
         /\ status = "ok"

TNext == /\ status = "ok"
         /\ l <= Len(Logs[tid].steps)
         /\ LET r == Rec IN
              /\ status' = Failing(r)
              /\ Step(InputOf(r), r.complete)
         /\ l' = l + 1
         /\ UNCHANGED tid

TSpec == TInit /\ [][TNext]_tvars

TraceProp == CapturedWindow /\ PartialWindow /\ CaptureLength

\* verdict of the state just reached; a trace is not followed beyond a failed clause or invariant
Verdict == IF status # "ok" THEN status ELSE IF TraceProp THEN "ok" ELSE "prop_invariant"
Progress == TLCSet(tid, <<l - 1, Verdict>>) /\ Verdict = "ok"

Verdicts == JsonSerialize(IOEnv.VERDICT_FILE, [i \in 1..Len(Logs) |-> TLCGet(i)])
=============================================================================
