------------------------------ MODULE MCIsoIn ------------------------------
(* Bounded instance of IsoIn for exhaustive TLC exploration. *)
EXTENDS IsoIn, TLC

CONSTANTS MaxPkts,      \* max packet sizes explored (endpoint number 1, device address 0)
          MaxFrames, MaxPos, MaxNpk, FreePids

MCConfigs == {[maxPkt |-> m, epNum |-> 1, devAddr |-> 0] : m \in MaxPkts}

VARIABLE nframes
mcvars == <<vars, nframes>>

\* tokens that are not an IN for the endpoint: other endpoint, other address, other token kinds
MCForeignTokens == {<<"IN", DevAddr, EpNum + 1>>, <<"IN", DevAddr + 1, EpNum>>,
                    <<"OUT", DevAddr, EpNum>>, <<"SETUP", DevAddr, EpNum>>}

MCInit == Init /\ nframes = 0
\* the PID of an unconstrained packet is drawn from FreePids (a subset of DataPids keeps the model small)
MCSetBif  == (\E n \in 0..MaxReq : SetBif(n)) /\ UNCHANGED nframes
MCSof     == Sof /\ nframes' = nframes + 1
MCBadSof  == BadSof /\ UNCHANGED nframes
MCIn      == /\ \E sv \in [1..PktLen -> BOOLEAN] :
                  \E pid \in (IF PidConstrained THEN {ExpectedPid} ELSE FreePids) : In(sv, pid)
             /\ UNCHANGED nframes
MCForeign == (\E t \in MCForeignTokens : Foreign(t[1], t[2], t[3])) /\ UNCHANGED nframes
MCNext == MCSetBif \/ MCSof \/ MCBadSof \/ MCIn \/ MCForeign
MCSpec == MCInit /\ [][MCNext]_mcvars

Bounded == nframes <= MaxFrames /\ pos <= MaxPos /\ npk <= MaxNpk
=============================================================================
