"""A USB2 host that talks to a real LUNA device *through a ULPI PHY model* (harness/hosts/ulpi_phy.py).

Same API as hosts/utmi.py:UTMIHost (token / data / handshake / sof / setup / in_transaction / out_transaction /
wait_response / idle / cycle), but every host packet is rendered by the reactive `ULPIPhy` into DIR / NXT / RxCmd /
data cycles following a *receive pattern*, and every device transmission (TXCMD + data + STP, throttled by NXT) is
collected back into a packet together with what the property needs at the PHY boundary:

    {"e": "dev", "cmd": TXCMD byte, "bytes": [data bytes the PHY accepted after the TXCMD],
     "stp_lag": cycles from the last accepted byte to STP, "stp_data": data.o in the STP cycle,
     "gap": cycles from the end of the last host packet (RxActive dropped at the PHY) to the first cycle the TXCMD
            stood on the bus, "blk": how many of those cycles the PHY itself kept the bus (DIR high / turn-around),
     "dirdrv": cycles in which the link drove (oe) while DIR was high since the previous device packet,
     + the classification of hosts/utmi.py (kind / pid / payload / crc_ok) of the packet the PHY would put on the wire}

Receive pattern (`RxPattern`), all fields optional; what is not legal in the PHY's state is ignored by the PHY model
(it stays ULPI-legal by construction):
    start : "nxt"  DIR rises together with NXT, the RxCmd announcing RxActive follows [ULPI 1.1 Fig. 17]
            "cmd"  DIR rises alone (turn-around), RxActive is announced by an RxCmd
            "hold" like "cmd" but `pre` extra RxCmds (RxActive = 0) come first, DIR already high
    gaps  : {byte index: n}   n cycles without NXT (the PHY repeats its RxCmd) before that byte
    cmds  : {byte index: [rxcmd low bits, ...]}  explicit RxCmds (line-state changes, RxActive kept) before that byte
    end   : "dir"  DIR falls right after the last byte (RxActive ends with DIR)
            "cmd"  an RxCmd with RxActive = 0 / line state SE0 ends the packet, `tail` further RxCmds (SE0 .. J)
                   follow before DIR falls
            "dir_j" like "dir", and the line-state update (J) follows in a separate RxCmd `post` cycles later
The host model is stimulus only: no verdict is computed here.
"""
from . import utmi
from .ulpi_phy import ULPIPhy, IDLE, CMD_WAIT, TX_DATA

LS_SE0, LS_J, LS_K = 0, 1, 2
VBUS_VALID = 0x0C            # RxCmd bits 3:2 = 11: VBUS valid (session not ended)


def make_ulpi_record():
    """A ULPI record without `rst` (no 1 ms start-up wait) and with an output `clk` (handle_clocking works)."""
    from amaranth.hdl.rec import Record
    return Record([("data", [("i", 8), ("o", 8), ("oe", 1)]), ("nxt", [("i", 1)]), ("stp", [("o", 1)]),
                   ("dir", [("i", 1)]), ("clk", [("o", 1)])], name="ulpi")


class RxPattern(dict):
    pass


class ULPIHost:
    T = 1                # PHY clocks per unit of the scenario interpreter's short pauses

    async def power_on(self, ctx, connect):
        await settle(ctx, self, connect, 80)

    def __init__(self, bus, rng, domain="usb", gap_prob=0.0, stall_prob=0.0, max_stall=3, fs_pacing=0):
        self.bus = bus
        self.rng = rng
        self.domain = domain
        self.gap_prob = gap_prob
        self.stall_prob = stall_prob
        self.max_stall = max_stall
        self.fs_pacing = fs_pacing          # extra NXT-low cycles per device byte (a real FS PHY takes ~40 clocks/byte)
        self.phy = ULPIPhy(max_stall=max(max_stall, fs_pacing) + 1)
        self.phy.last_cmd = VBUS_VALID | LS_J
        self.vbus = VBUS_VALID              # RxCmd VBUS bits currently reported by the PHY
        self.hs = False                     # high-speed line-state coding: 00 = squelch (idle), 01 = activity
        self.chirps = []                    # NOPID transmissions (device chirp) seen, with their length in clocks
        self.log = []
        self.cycle_no = 0
        self.last_rx_end = None
        self.device_packets = []
        self.extra_probe = None
        self.patterns = []                  # RxPatterns for the coming host packets, one each (None / empty -> drawn from rng)
        self.end_pulses = []                # per coming host packet: None or d = a lone RxCmd (line state J) d cycles after its end
        self.nxt_plan = []                  # explicit acc choices for the coming owed link bytes (then rng)
        self.rxcmd_at = {}                  # {cycle_no: low bits}: a lone RxCmd pulse requested at that cycle
        self._pkt = None
        self._ev_seen = 0
        self._present_t = None
        self._blk = 0
        self._dirdrv = 0
        self._stalls = 0
        self._pace = 0
        self._pulse = None
        self.reg_writes = []
        self.aborts = 0

    # ---- one clock cycle -------------------------------------------------------------------
    def _acc(self):
        if self.nxt_plan:
            return bool(self.nxt_plan.pop(0))
        if self._pace > 0:
            self._pace -= 1
            return False
        if self.stall_prob and self._stalls < self.max_stall and self.rng.random() < self.stall_prob:
            self._stalls += 1
            return False
        self._stalls = 0
        return True

    async def cycle(self, ctx, rx="none", b=0):
        phy, bus = self.phy, self.bus
        d, n, di = phy.outputs()
        ctx.set(bus.dir.i, d)
        ctx.set(bus.nxt.i, n)
        ctx.set(bus.data.i, di)
        do = ctx.get(bus.data.o)
        oe = ctx.get(bus.data.oe)
        stp = ctx.get(bus.stp.o)
        if d and oe:
            self._dirdrv += 1
        link_owns = (d == 0 and phy.prev_dir == 0)
        if self.last_rx_end is not None and self._present_t is None and not link_owns:
            self._blk += 1
        if phy.phase == IDLE and link_owns and oe and ((do >> 6) & 3) == 1 and self._present_t is None:
            self._present_t = self.cycle_no
        # a lone RxCmd pulse (line-state / VBUS update) requested for this cycle
        if rx == "none" and self.rxcmd_at and not self._pulse and min(self.rxcmd_at) <= self.cycle_no:
            self._pulse = ["up", ("cmd", self.rxcmd_at.pop(min(self.rxcmd_at))), "down"]
        if rx == "none" and self._pulse:
            step = self._pulse[0]
            if step == "up":
                if d == 0:
                    rx = "up"
                    if phy.phase != TX_DATA:
                        self._pulse.pop(0)
                else:
                    self._pulse.pop(0)
            elif step == "down":
                rx = "down"
                self._pulse.pop(0)
            else:
                if d:
                    rx, b = "cmd", step[1]
                    self._pulse.pop(0)
                elif d == 0 and phy.dir == 0:
                    self._pulse = None
        owed = phy.phase in (CMD_WAIT, TX_DATA, "rwd") or (phy.phase == IDLE and link_owns and oe and ((do >> 6) & 3) != 0)
        ch = {"acc": self._acc() if owed else True, "rx": rx, "b": b}
        was_phase = phy.phase
        phy.observe(do, stp, oe, ch)
        if was_phase == CMD_WAIT and phy.phase == IDLE and d:
            self.aborts += 1
        self._collect(do)
        if self.extra_probe is not None:
            self.extra_probe(ctx, self)
        await ctx.tick(self.domain)
        self.cycle_no += 1

    def _collect(self, do):
        evs = self.phy.events
        while self._ev_seen < len(evs):
            t, kind, val = evs[self._ev_seen]
            self._ev_seen += 1
            if kind in ("txcmd", "txcmd_stp"):
                gap = None if self.last_rx_end is None or self._present_t is None else self._present_t - self.last_rx_end
                self._pkt = {"start": self._present_t, "cmd": val, "bytes": [], "last_t": t, "gap": gap,
                             "blk": self._blk if gap is not None else 0}
                if self.fs_pacing:
                    self._pace = self.fs_pacing
                if kind == "txcmd_stp":
                    self._finish(t, val)
            elif kind == "tx_byte" and self._pkt is not None:
                self._pkt["bytes"].append(val)
                self._pkt["last_t"] = t
                if self.fs_pacing:
                    self._pace = self.fs_pacing
            elif kind == "tx_stp" and self._pkt is not None:
                self._finish(t, val)
            elif kind == "regw":
                self.reg_writes.append((t, val))
        if len(evs) > 4096:
            del evs[:]
            self._ev_seen = 0

    def _finish(self, t, val):
        p = self._pkt
        self._pkt = None
        if p["cmd"] == 0x40:                # NOPID: a chirp (no bit stuffing / NRZI), not a packet
            ev = {"e": "chirp", "start": p["start"], "end": self.cycle_no, "n": len(p["bytes"]),
                  "nonzero": sum(1 for x in p["bytes"] if x), "stp_data": val}
            self.chirps.append(ev)
            self.log.append(ev)
            self._present_t = None
            self._blk = 0
            return
        wire = [utmi.pid_byte(p["cmd"] & 0xF)] + p["bytes"]
        ev = {"e": "dev", "start": p["start"], "end": self.cycle_no, "cmd": p["cmd"], "bytes": p["bytes"],
              "stp_lag": t - p["last_t"], "stp_data": val, "gap": p["gap"], "blk": p["blk"],
              "dirdrv": self._dirdrv, "since_rx_end": p["gap"], "overlap_rx": False}
        ev.update(utmi.classify_device_packet(wire))
        self._dirdrv = 0
        self._present_t = None
        self._blk = 0
        self.last_rx_end = None
        self.device_packets.append(ev)
        self.log.append(ev)

    async def line(self, ctx, low, hold=0, limit=20000):
        """Bus event at line-state level: the PHY reports line state `low` (with the current VBUS bits) in a lone RxCmd as
        soon as it may claim the bus (not inside a transmit data phase, e.g. the device's chirp), then `hold` clocks pass."""
        self.rxcmd_at[self.cycle_no] = self.vbus | low
        for _ in range(limit):
            await self.cycle(ctx)
            if not self.rxcmd_at and not self._pulse:
                break
        await self.idle(ctx, hold)

    async def idle(self, ctx, n=1):
        for _ in range(n):
            await self.cycle(ctx)

    # ---- host packets ----------------------------------------------------------------------
    def draw_pattern(self, nbytes):
        r = self.rng
        p = RxPattern(start=r.choice(["nxt", "cmd", "cmd", "hold"]), pre=r.randint(1, 2),
                      end=r.choice(["dir", "cmd", "cmd", "dir_j"]), tail=r.randint(0, 3), post=r.randint(0, 12),
                      gaps={}, cmds={})
        for i in range(nbytes):
            if self.gap_prob and r.random() < self.gap_prob:
                if r.random() < 0.5:
                    p["gaps"][i] = r.randint(1, 3)
                else:
                    p["cmds"][i] = [r.choice([LS_J, LS_K, LS_K, LS_SE0])] * r.randint(1, 2)
        return p

    async def send_raw(self, ctx, octets, gaps=None, abort_after=None):
        pat = self.patterns.pop(0) if self.patterns else None
        if pat is None:
            pat = self.draw_pattern(len(octets))
        pulse = self.end_pulses.pop(0) if self.end_pulses else None
        phy = self.phy
        self.last_pattern = pat
        # a device transmission in progress (it should not be: the host is legal) is left to finish first
        for _ in range(4000):
            if phy.phase != TX_DATA and not self._pulse:
                break
            await self.cycle(ctx)
        self.rxcmd_at.clear()                              # a line-state update still pending is overtaken by this packet
        start = pat.get("start", "cmd")
        act = self.vbus | 0x10 | (LS_J if self.hs else LS_K)
        idle_ls = LS_SE0 if self.hs else LS_J
        if phy.dir == 0:
            for _ in range(4000):                          # the PHY refuses DIR inside a transmit data phase: retry
                await self.cycle(ctx, "up_nxt" if start == "nxt" else "up")
                if phy.dir:
                    break
            if start == "nxt":
                await self.cycle(ctx, "cmd", act)          # turn-around cycle on the bus; the announcing RxCmd is chosen now
            else:
                if start == "hold":
                    for _ in range(pat.get("pre", 1)):
                        await self.cycle(ctx, "cmd", self.vbus | idle_ls)
                await self.cycle(ctx, "cmd", act)
        else:
            await self.cycle(ctx, "cmd", act)
        for i, byte in enumerate(octets):
            if abort_after is not None and i >= abort_after:
                break
            g = (gaps[i] if gaps is not None else 0) + pat.get("gaps", {}).get(i, 0)
            for _ in range(g):
                await self.cycle(ctx, "gap")               # DIR high, no NXT: the PHY repeats its RxCmd
            for low in pat.get("cmds", {}).get(i, ()):
                await self.cycle(ctx, "cmd", self.vbus | 0x10 | (LS_J if self.hs else low))
            await self.cycle(ctx, "data", byte)
        end = pat.get("end", "cmd")
        if end == "cmd":
            await self.cycle(ctx, "cmd", self.vbus | LS_SE0)
            self.last_rx_end = self.cycle_no            # the cycle in which the RxCmd with RxActive = 0 stands on the bus
            self._present_t, self._blk = None, 0
            tail = pat.get("tail", 0)
            for k in range(tail):
                await self.cycle(ctx, "cmd", self.vbus | (idle_ls if k == tail - 1 else LS_SE0))
            await self.cycle(ctx, "down")
            if tail == 0 and not self.hs:                  # the line returns to J: a real PHY reports it (else: SE0 = bus reset)
                self.rxcmd_at[self.cycle_no + 1 + pat.get("post", 0)] = self.vbus | LS_J
        else:
            await self.cycle(ctx, "down")
            self.last_rx_end = self.cycle_no            # the cycle in which DIR is low again
            self._present_t, self._blk = None, 0
            stuck_se0 = (self.phy.last_cmd & 3) == LS_SE0    # last line state reported inside the packet was SE0 (EOP)
            if end == "dir_j" or self.hs or stuck_se0:     # the line is back to idle: reported (always at HS / after SE0)
                self.rxcmd_at[self.cycle_no + 1 + pat.get("post", 0)] = self.vbus | idle_ls
        if pulse is not None:
            self.rxcmd_at[self.last_rx_end + pulse] = self.vbus | idle_ls
        await self.cycle(ctx)

    async def token(self, ctx, pid, addr, ep, corrupt_crc=False):
        self.log.append({"e": "tok", "pid": pid, "addr": addr, "ep": ep, "crc_ok": not corrupt_crc})
        await self.send_raw(ctx, utmi.token_bytes(pid, addr, ep, corrupt_crc))

    async def sof(self, ctx, frame, corrupt_crc=False):
        self.log.append({"e": "sof", "frame": frame, "crc_ok": not corrupt_crc})
        await self.send_raw(ctx, utmi.sof_bytes(frame, corrupt_crc))

    async def data(self, ctx, pid, payload, corrupt_crc=False):
        self.log.append({"e": "data", "pid": pid, "payload": list(payload), "crc_ok": not corrupt_crc})
        await self.send_raw(ctx, utmi.data_bytes(pid, payload, corrupt_crc))

    async def handshake(self, ctx, pid):
        self.log.append({"e": "hs", "pid": pid})
        await self.send_raw(ctx, [utmi.pid_byte(pid)])

    async def garbage(self, ctx, octets):
        self.log.append({"e": "raw", "bytes": list(octets)})
        await self.send_raw(ctx, octets)

    # ---- device responses ------------------------------------------------------------------
    async def wait_response(self, ctx, timeout=120):
        n0 = len(self.device_packets)
        for _ in range(timeout):
            await self.cycle(ctx)
            if len(self.device_packets) > n0:
                return self.device_packets[-1]
            if self._pkt is not None or self.phy.phase in (CMD_WAIT, TX_DATA):
                for _ in range(4000 + 60 * self.fs_pacing * 70):
                    await self.cycle(ctx)
                    if len(self.device_packets) > n0:
                        return self.device_packets[-1]
                    if self._pkt is None and self.phy.phase == IDLE:
                        break                       # the command was withdrawn / aborted: keep waiting
                else:
                    ev = {"e": "dev", "kind": "bad", "why": "never_ends"}
                    self.log.append(ev)
                    return ev
        ev = {"e": "dev", "kind": "none"}
        self.log.append(ev)
        return ev

    # ---- transactions ----------------------------------------------------------------------
    async def setup(self, ctx, addr, request8, ep=0, corrupt_crc=False, timeout=120):
        await self.token(ctx, "SETUP", addr, ep)
        await self.idle(ctx, 2)
        await self.data(ctx, "DATA0", request8, corrupt_crc)
        return await self.wait_response(ctx, timeout)

    async def in_transaction(self, ctx, addr, ep, ack=True, timeout=120):
        await self.token(ctx, "IN", addr, ep)
        r = await self.wait_response(ctx, timeout)
        if r.get("kind") == "data" and ack:
            await self.idle(ctx, 2)
            await self.handshake(ctx, "ACK")
            await self.idle(ctx, 2)
        return r

    async def out_transaction(self, ctx, addr, ep, pid, payload, corrupt_crc=False, timeout=120, tok="OUT"):
        await self.token(ctx, tok, addr, ep)
        await self.idle(ctx, 2)
        await self.data(ctx, pid, payload, corrupt_crc)
        return await self.wait_response(ctx, timeout)


async def settle(ctx, host, dev_connect, cycles=400):
    """Power-on: connect, announce VBUS valid / line state J by an RxCmd, let the control translator finish its
    register writes (Function Control / OTG Control) before traffic starts."""
    ctx.set(dev_connect, 1)
    host.rxcmd_at[host.cycle_no + 2] = host.vbus | LS_J
    await host.idle(ctx, cycles)
