------------------------------ MODULE Scrambler ------------------------------
(***************************************************************************)
(* Reference specification of USB3 scrambling/descrambling (property C31)   *)
(* at the grain of one clock cycle of a 4-symbol (32-bit) stream.           *)
(*                                                                         *)
(* A symbol is an integer 0..511: bit 8 is the control (K) flag, bits 0..7  *)
(* the byte.  A word is a sequence of 4 symbols, symbol 1 first on the wire.*)
(*                                                                         *)
(*  Env : per cycle  [valid, ready, hold, en, clr, w]                      *)
(*          valid - a word is offered;  ready - downstream accepts it;      *)
(*          hold  - the word is being replaced by SKPs (TX CTC);            *)
(*          en    - scrambling enabled;  clr - explicit restart.            *)
(*        Assumption HoldLegal: a held word has no COM in its first symbol  *)
(*        (it is logical-idle filler - that is the only thing CTC replaces).*)
(*  Ref : the LFSR state s (SsLfsr, bit-serial) and the output word:        *)
(*          data symbols XOR the key bytes of s, in order, one per symbol;  *)
(*          control symbols unchanged;                                      *)
(*          s advances one word iff the word is transferred and not held;   *)
(*          s restarts at Seed after a transferred word with COM first.     *)
(*  Prop: (MCScrambler) round trip through scrambler + descrambler started  *)
(*        from equal states, keystream continuity, control transparency.    *)
(***************************************************************************)
EXTENDS SsLfsr

CONSTANTS Seed,               \* restart value of the LFSR (FFFFh per the standard)
          WStep(_)            \* s |-> [key, next] for one word; always (a tabulation of) SsLfsr!WordStep

COM == 256 + 188              \* K28.5
SKP == 256 + 60               \* K28.1
IsCtrl(sym) == sym >= 256

ScrWordK(key, en, w) ==       \* key = the four key bytes of the current LFSR state
    [k \in 1..4 |-> IF en /\ ~IsCtrl(w[k]) THEN XorByte(w[k], key[k]) ELSE w[k]]
ScrWord(s, en, w) == ScrWordK(WStep(s).key, en, w)

Transferred(i) == i.valid /\ i.ready
HoldLegal(i)   == (i.valid /\ i.hold) => i.w[1] # COM

LfsrNextW(s, nxt, i) ==       \* nxt = the LFSR state one word after s
                  IF i.clr THEN Seed
                  ELSE IF Transferred(i) /\ i.w[1] = COM THEN Seed
                  ELSE IF Transferred(i) /\ ~i.hold THEN nxt
                  ELSE s
LfsrNext(s, i) == LfsrNextW(s, WStep(s).next, i)

\* state of the LFSR after n symbols from s (keystream position), serial definition
RECURSIVE AfterSyms(_, _)
AfterSyms(s, n) == IF n = 0 THEN s ELSE AfterSyms(AfterSym(s), n - 1)
\* ... and after n words
RECURSIVE AfterWords(_, _)
AfterWords(s, n) == IF n = 0 THEN s ELSE AfterWords(WStep(s).next, n - 1)
=============================================================================
