------------------------------ MODULE Arbiter ------------------------------
(***************************************************************************)
(* Reference specification of a priority stream arbiter (property C26):    *)
(* luna.gateware.stream.arbiter.StreamArbiter and its subclass             *)
(* luna.gateware.usb.usb3.link.header.HeaderQueueArbiter, written from the *)
(* class doc-string ("simple priority scheduler ... bursts of valid will   *)
(* never be interrupted, streams are only switched once the current        *)
(* transmitter drops valid low; streams added first have higher priority;  *)
(* idle is asserted when none of the streams is active").                   *)
(*                                                                         *)
(* Grain: one step = one clock cycle.                                      *)
(*   Env  : any valid / payload vector on inputs 1..N and any back-        *)
(*          pressure on the output (no discipline is assumed).             *)
(*   Ref  : the input selected for the coming cycle (sel); outputs are a   *)
(*          function of (sel, inputs of the cycle).                        *)
(*   Prop : ghost logs acc[i] (words accepted from input i) and dlv        *)
(*          (words delivered at the output, tagged with the input they     *)
(*          were taken from), ghost `served` (inputs whose burst is being  *)
(*          served): exactly-once delivery, bursts never interleaved,      *)
(*          ready only to the selected input, switching only between       *)
(*          bursts and to the highest-priority waiting input, idle flag.   *)
(* Index 1 is the stream added first (highest priority).                   *)
(* Configuration (fixed by Init): N inputs; Comb = TRUE describes the      *)
(* StreamMultiplexer ("no scheduling, assumes only one stream communicates *)
(* at once"): the offering input is connected combinationally, Env then    *)
(* offers at most one valid input per cycle.  Input `rst` = synchronous    *)
(* reset of the arbiter's clock domain: the selection returns to input 1.  *)
(***************************************************************************)
EXTENDS Naturals, Sequences, FiniteSets

CONSTANTS Sizes,      \* the numbers of input streams explored (exhaustive model only)
          Data,       \* payload alphabet (exhaustive model only)
          TagFrom,    \* with N >= TagFrom inputs, input i only ever offers payload i (keeps those models small)
          KeepLogs    \* FALSE: the ghost logs acc / dlv are not accumulated (long recorded traces; their
                      \* per-cycle counterpart ExactlyOncePerCycle is what is evaluated there)

VARIABLES N,          \* configuration: number of input streams (fixed by Init)
          Comb,       \* configuration: TRUE = combinational multiplexer without scheduling (fixed by Init)
          sel,        \* Ref: input selected for the coming cycle
          cur,        \* input that was selected during the cycle recorded in in/out
          in,         \* Env: inputs of the last cycle   [valid, data : 1..N -> _, ready]
          out,        \* outputs of the last cycle       [valid, data, ready : 1..N -> BOOLEAN, idle]
          acc,        \* ghost: per input, payloads accepted (valid & ready seen by that input)
          dlv,        \* ghost: <<input, payload>> of every beat delivered at the output
          served      \* ghost: inputs that are valid without interruption since a beat of theirs was delivered

vars == <<N, Comb, sel, cur, in, out, acc, dlv, served>>

Idx == 1..N
Bool == {TRUE, FALSE}

DataOf(i) == IF N >= TagFrom THEN {i} ELSE Data
DataVectors == IF N >= TagFrom THEN {[k \in Idx |-> k]} ELSE [Idx -> Data]
Inputs == [valid : [Idx -> Bool], data : DataVectors, ready : Bool, rst : {FALSE}]

ValidSet(i) == {k \in Idx : i.valid[k]}
Lowest(S) == CHOOSE k \in S : \A j \in S : k <= j

-----------------------------------------------------------------------------
(* Ref: outputs of a cycle as a function of the selection and the cycle's inputs.  Eff = the input *)
(* connected to the output in this cycle (0 = none: multiplexer with nothing offered).           *)
Eff(i) == IF Comb THEN (IF ValidSet(i) = {} THEN 0 ELSE Lowest(ValidSet(i))) ELSE sel
OutValid(s, i) == s # 0 /\ i.valid[s]
OutData(s, i)  == IF s = 0 THEN 0 ELSE i.data[s]
ReadyTo(s, i)  == [k \in Idx |-> (k = s) /\ i.ready]
IdleFlag(i)    == ValidSet(i) = {}
EnvOK(i)       == Comb => Cardinality(ValidSet(i)) <= 1      \* the multiplexer's documented assumption

(* The selection moves only when the selected input is not offering data, and then to *)
(* the highest-priority input that is waiting; with nobody waiting it stays.  A reset  *)
(* of the clock domain returns it to input 1.                                          *)
NextSel(s, i) == IF i.rst THEN 1
                 ELSE IF Comb \/ i.valid[s] \/ ValidSet(i) = {} THEN s ELSE Lowest(ValidSet(i))

Accepted(i, o) == {k \in Idx : i.valid[k] /\ o.ready[k]}

InitWith(n, comb) ==
        /\ N = n /\ Comb = comb
        /\ sel = 1 /\ cur = 1
        /\ in = [valid |-> [k \in Idx |-> FALSE], data |-> [k \in Idx |-> Lowest(DataOf(k))], ready |-> FALSE, rst |-> FALSE]
        /\ out = [valid |-> FALSE, data |-> 0, ready |-> [k \in Idx |-> FALSE], idle |-> TRUE]
        /\ acc = [k \in Idx |-> <<>>]
        /\ dlv = <<>>
        /\ served = {}

Init == \E n \in Sizes, c \in Bool : InitWith(n, c)

Step(i) ==
  LET e == Eff(i)
      o == [valid |-> OutValid(e, i), data |-> OutData(e, i), ready |-> ReadyTo(e, i),
            idle |-> IdleFlag(i)]
      a == Accepted(i, o)
  IN /\ UNCHANGED <<N, Comb>>
     /\ in' = i
     /\ out' = o
     /\ cur' = e
     /\ sel' = NextSel(sel, i)
     /\ acc' = IF KeepLogs THEN [k \in Idx |-> IF k \in a THEN Append(acc[k], i.data[k]) ELSE acc[k]] ELSE acc
     /\ dlv' = IF KeepLogs /\ o.valid /\ i.ready THEN Append(dlv, <<e, o.data>>) ELSE dlv
     /\ served' = IF i.rst THEN {} ELSE {k \in Idx : i.valid[k] /\ (k \in a \/ k \in served)}   \* a reset ends every burst

(* The cycles are named by what happens in them (so that coverage shows each kind is reached). *)
IdleCycle   == \E i \in Inputs : ValidSet(i) = {} /\ Step(i)                                  \* nobody offers data
BeatCycle   == \E i \in Inputs : EnvOK(i) /\ OutValid(Eff(i), i) /\ i.ready /\ Step(i)          \* a word is forwarded
StallCycle  == \E i \in Inputs : EnvOK(i) /\ OutValid(Eff(i), i) /\ ~i.ready /\ Step(i)         \* back-pressure
SwitchCycle == \E i \in Inputs : ~Comb /\ ~i.valid[sel] /\ ValidSet(i) # {} /\ Step(i)          \* selected idle, someone waits
ResetCycle  == \E i \in Inputs : EnvOK(i) /\ i.ready /\ Step([i EXCEPT !.rst = TRUE])            \* clock-domain reset

Next == IdleCycle \/ BeatCycle \/ StallCycle \/ SwitchCycle \/ ResetCycle

Spec == Init /\ [][Next]_vars

-----------------------------------------------------------------------------
(* Prop *)
TypeOK == sel \in Idx /\ cur \in 0..N /\ served \subseteq Idx

\* words are forwarded only from the selected input, and ready reaches only that input
ForwardsSelectedOnly == /\ out.valid = (cur # 0 /\ in.valid[cur])
                        /\ (out.valid => out.data = in.data[cur])
ReadyOnlyToSelected == \A k \in Idx : out.ready[k] => (k = cur /\ in.ready)

\* every accepted word is delivered exactly once: in every cycle the input-side handshakes
\* are exactly the output-side handshake, with the same payload ...
ExactlyOncePerCycle ==
    LET a == Accepted(in, out) IN
      /\ Cardinality(a) = (IF out.valid /\ in.ready THEN 1 ELSE 0)
      /\ \A k \in a : in.data[k] = out.data
\* ... hence, over the whole history, per input: delivered = accepted (order included)
PerInput(k) == LET F(e) == e[1] = k
                   s == SelectSeq(dlv, F)
               IN [j \in 1..Len(s) |-> s[j][2]]
DeliveredEqualsAccepted == \A k \in Idx : PerInput(k) = acc[k]

\* bursts are never interleaved: while an input that has had a word delivered keeps valid high,
\* nobody else's word is delivered
BurstsNotInterleaved ==
    [][(Len(dlv') > Len(dlv)) => \A k \in served : (in'.valid[k] => k = dlv'[Len(dlv')][1])]_vars

\* the selection changes only between bursts, and then to the highest-priority waiting input
SwitchOnlyWhenSelectedIdle ==
    [][sel' # sel => (in'.rst \/ (~in'.valid[sel] /\ in'.valid[sel'] /\ \A j \in Idx : in'.valid[j] => sel' <= j))]_vars
\* a waiting input is not passed over once the selected one goes idle
NoStarvationByIdleSelection ==
    [][(~Comb /\ ~in'.rst /\ ~in'.valid[sel] /\ ValidSet(in') # {}) => sel' = Lowest(ValidSet(in'))]_vars

IdleExactlyWhenNothingOffered == out.idle <=> (\A k \in Idx : ~in.valid[k])
ResetReturnsToFirst == [][in'.rst => sel' = 1]_vars

=============================================================================
