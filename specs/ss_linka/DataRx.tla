------------------------------- MODULE DataRx -------------------------------
(***************************************************************************)
(* Reception of data packets (C40): DataPacketReceiver of                  *)
(* luna/gateware/usb/usb3/link/data.py.                                    *)
(*                                                                         *)
(* From [USB3.2 7.2.1, 7.2.4.1]: a data packet is a data packet header     *)
(* (HPSTART, DW0..2 with type 01000b, CRC-16, link control word with       *)
(* CRC-5) immediately followed by its payload (DPPSTART, data-length       *)
(* bytes, CRC-32, DPPEND).  Words that are not valid (removed SKPs, ...)   *)
(* carry no symbols and may appear anywhere.                               *)
(*                                                                         *)
(* Grain: one step = one "ss" clock cycle; record r = [iw (word on the     *)
(* sink), good, bad (the two strobes), sv (source valid mask), sd (source  *)
(* data bytes), rst (domain reset)].                                       *)
(*  Env : any stream of valid / not-valid words built from packets         *)
(*        (CRCs good or corrupted), idle, other traffic.                   *)
(*  Ref : a parser of the *valid* words only: header words collected,      *)
(*        payload + CRC symbols collected, the verdict owed.  Free: the    *)
(*        report may come up to MaxLat cycles after the second valid word  *)
(*        that follows the word completing the CRC-32 (a receiver may      *)
(*        want to see the DPPEND framing first); a header with bad CRCs    *)
(*        may be reported bad once or not at all (its length is unknown).  *)
(*  Prop: exactly one report per data packet, good iff all three CRCs      *)
(*        are right, payload stream = data-length bytes (MCDataRx).        *)
(***************************************************************************)
EXTENDS SsLink

CONSTANTS MaxLat

Crc5(v11) == Usb3Crc5(v11)
HdrCrc16(dw) == Usb3Crc16(dw)
Crc32Of(pl) == Crc32Stream(pl)        \* = Usb3Crc32Bytes(pl), see SsLink

RxInit == [ph |-> "idle", hw |-> <<>>, len |-> 0, got |-> <<>>, kbad |-> FALSE,
           owe |-> <<>>, streamed |-> <<>>, optbad |-> FALSE, inpkt |-> FALSE]

\* header words hw = <<dw0, dw1, dw2, dw3>>
HdrBytes(hw) == hw[1].d \o hw[2].d \o hw[3].d
HdrIsData(hw) == hw[1].d[1] % 32 = 8
HdrCrcsOk(hw) == /\ Lo16(hw[4]) = HdrCrc16(HdrBytes(hw))
                 /\ Hi16(hw[4]) \div 2048 = Crc5(Hi16(hw[4]) % 2048)
HdrLen(hw) == Hi16(hw[2])

Owed(v) == <<[v |-> v, vw |-> 0, age |-> 0]>>

\* symbols of word w taken into got: up to the end of payload + CRC; a K symbol among the data bytes ends it
TakeN(q, w) == Min(4, q.len + 4 - Len(q.got))
KPos(q, w) == LET n == TakeN(q, w)
                  ks == {i \in 1..n : BitOf(w.c, i - 1) = 1 /\ Len(q.got) + i <= q.len}
              IN IF ks = {} THEN 0 ELSE CHOOSE i \in ks : \A k \in ks : i <= k

\* 1. the parser consumes the word of the cycle (only valid words count).  When the last CRC-32 symbol
\*    arrives the phase becomes "crcdue"; RxResolve then computes the verdict (one CRC-32 evaluation).
RxConsume(p, w) ==
    IF ~w.v THEN p
    ELSE
      LET q == IF p.owe # <<>> THEN [p EXCEPT !.owe = <<[p.owe[1] EXCEPT !.vw = p.owe[1].vw + 1]>>] ELSE p IN
      CASE q.ph = "idle" ->
             IF IsSet(w, HPSTART) THEN [q EXCEPT !.ph = "dw", !.hw = <<>>, !.optbad = FALSE] ELSE q
        [] q.ph = "dw" ->
             IF Len(q.hw) < 3 THEN [q EXCEPT !.hw = Append(q.hw, w)]
             ELSE [q EXCEPT !.ph = "hdrdue", !.hw = Append(q.hw, w)]
        [] q.ph = "hdrgood" ->
             IF IsSet(w, DPPSTART)
             THEN [q EXCEPT !.ph = "payload", !.len = HdrLen(q.hw), !.got = <<>>, !.kbad = FALSE,
                            !.streamed = <<>>, !.inpkt = TRUE]
             ELSE IF IsSet(w, HPSTART) THEN [q EXCEPT !.ph = "dw", !.hw = <<>>]
             ELSE [q EXCEPT !.ph = "idle", !.hw = <<>>]
        [] q.ph = "payload" ->
             IF KPos(q, w) > 0
             THEN [q EXCEPT !.ph = "idle", !.got = q.got \o SubSeq(w.d, 1, KPos(q, w) - 1), !.kbad = TRUE, !.owe = Owed("bad")]
             ELSE IF Len(q.got) + TakeN(q, w) < q.len + 4 THEN [q EXCEPT !.got = q.got \o SubSeq(w.d, 1, TakeN(q, w))]
             ELSE [q EXCEPT !.ph = "crcdue", !.got = q.got \o SubSeq(w.d, 1, TakeN(q, w))]

\* 2. header / payload CRCs are evaluated exactly once, when due
RxResolve(q) ==
    IF q.ph = "hdrdue" THEN
        (IF ~HdrIsData(q.hw) THEN [q EXCEPT !.ph = "idle", !.hw = <<>>]
         ELSE IF HdrCrcsOk(q.hw) THEN [q EXCEPT !.ph = "hdrgood"]
         ELSE [q EXCEPT !.ph = "idle", !.hw = <<>>, !.optbad = TRUE])
    ELSE IF q.ph = "crcdue" THEN
        [q EXCEPT !.ph = "idle",
                  !.owe = Owed(IF SubSeq(q.got, q.len + 1, q.len + 4) = Crc32Of(SubSeq(q.got, 1, q.len)) THEN "good" ELSE "bad")]
    ELSE q

\* Env assumption: a new verdict never becomes due while the previous one is still owed
RxOverrun(p, p1) == p.owe # <<>> /\ p.ph = "payload" /\ p1.ph = "idle"

Bytes(mask, sd) == SubSeq(sd, 1, MaskLen(mask))
ExpectedStream(p1) == SubSeq(p1.got, 1, Min(p1.len, Len(p1.got)))

\* 3. the outputs of the cycle are judged in the state p1 = RxResolve(RxConsume(p, r.iw))
RxFailing(p1, r) ==
    LET st == IF r.sv # 0 /\ MaskLen(r.sv) # 99 THEN p1.streamed \o Bytes(r.sv, r.sd) ELSE p1.streamed IN
    IF MaskLen(r.sv) = 99 THEN "rx_stream_mask"
    ELSE IF r.sv # 0 /\ ~p1.inpkt THEN "rx_stream_outside_packet"
    ELSE IF r.good /\ r.bad THEN "rx_good_and_bad"
    ELSE IF r.good \/ r.bad THEN
        (IF p1.owe = <<>> THEN
            (IF r.bad /\ p1.optbad THEN "ok" ELSE "rx_report_not_owed")
         ELSE IF r.good /\ p1.owe[1].v = "bad" THEN "rx_good_for_bad_packet"
         ELSE IF r.bad /\ p1.owe[1].v = "good" THEN "rx_bad_for_good_packet"
         ELSE IF ~p1.kbad /\ st # ExpectedStream(p1) THEN "rx_payload_stream"
         ELSE "ok")
    ELSE IF p1.owe # <<>> /\ p1.owe[1].vw >= 2 /\ p1.owe[1].age >= MaxLat THEN "rx_report_missing"
    ELSE IF p1.inpkt /\ Len(st) > p1.len THEN "rx_payload_stream"
    ELSE "ok"

RxAfter(p1, r) ==
    LET st == IF r.sv # 0 THEN p1.streamed \o Bytes(r.sv, r.sd) ELSE p1.streamed IN
    IF r.good \/ r.bad THEN
        IF p1.owe = <<>> THEN [p1 EXCEPT !.optbad = FALSE]
        ELSE [p1 EXCEPT !.owe = <<>>, !.streamed = <<>>, !.inpkt = FALSE]
    ELSE IF p1.owe # <<>> /\ p1.owe[1].vw >= 2
         THEN [p1 EXCEPT !.owe = <<[p1.owe[1] EXCEPT !.age = p1.owe[1].age + 1]>>, !.streamed = st]
    ELSE [p1 EXCEPT !.streamed = st]

\* p1 = RxResolve(RxConsume(p, r.iw)) is passed in, bound once by the caller (it may hold a CRC evaluation)
JudgeE(p, p1, r) ==
    IF RxOverrun(p, p1) THEN [f |-> "env_verdict_overrun", n |-> p]
    \* a reset of the clock domain (r.rst) makes the receiver forget everything with the next edge
    ELSE [f |-> RxFailing(p1, r), n |-> IF r.rst THEN RxInit ELSE RxAfter(p1, r)]

-----------------------------------------------------------------------------
(* Building packets (used by the Env of the model; the harness builds its  *)
(* stimuli the same way from recorded / transmitted words).                *)
\* a data packet as words; c5 / c16 / c32 = FALSE corrupts that CRC by flipping one bit of its field
LinkCtlWord16(lc) == lc + 2048 * Crc5(lc)
DataPacketWords(dw, lc, pl, c5, c16, c32) ==
    LET crc16 == IF c16 THEN HdrCrc16(dw) ELSE FlipBit(HdrCrc16(dw), 3)
        lcw   == IF c5 THEN LinkCtlWord16(lc) ELSE FlipBit(LinkCtlWord16(lc), 12)
        crc   == Crc32Of(pl)
        crcx  == IF c32 THEN crc ELSE [crc EXCEPT ![2] = FlipBit(crc[2], 6)]
        sy    == [i \in 1..Len(pl) |-> <<pl[i], 0>>] \o [i \in 1..4 |-> <<crcx[i], 0>>]
                   \o <<<<END, 1>>, <<END, 1>>, <<END, 1>>, <<EPF, 1>>>>
        pad   == sy \o [i \in 1..((4 - (Len(sy) % 4)) % 4) |-> <<IDL, 0>>]
    IN <<HPSTART, W(SubSeq(dw, 1, 4), 0), W(SubSeq(dw, 5, 8), 0), W(SubSeq(dw, 9, 12), 0),
         W(BytesOf16(crc16) \o BytesOf16(lcw), 0), DPPSTART>>
       \o [j \in 1..(Len(pad) \div 4) |->
             W(<<pad[4 * j - 3][1], pad[4 * j - 2][1], pad[4 * j - 1][1], pad[4 * j][1]>>,
               pad[4 * j - 3][2] + 2 * pad[4 * j - 2][2] + 4 * pad[4 * j - 1][2] + 8 * pad[4 * j][2])]
=============================================================================
