------------------------------- MODULE DataTx -------------------------------
(***************************************************************************)
(* C03 -- transmission of USB2 data packets (USBDataPacketGenerator with   *)
(* the CRC unit wired as in USBDevice), written from the property          *)
(* statement, the module doc-string and [USB2.0 8.3.1, 8.3.5, 8.4.4].      *)
(* Grain: one step = one UTMI clock cycle.                                 *)
(*                                                                         *)
(*  Env  : `in` = (stream valid/first/last/payload, data_pid, tx_ready).   *)
(*         A request is either a zero-length-packet request (a one-cycle   *)
(*         pulse of valid & last without first) or a payload stream        *)
(*         (first on the first byte, last on the final one).  Assumptions  *)
(*         (USBInStreamInterface): a byte is held until it is accepted     *)
(*         (valid & ready), valid stays high from first to last, data_pid  *)
(*         is stable from the request until the PID byte was accepted (it  *)
(*         may change right after), a new request is only made once the    *)
(*         previous packet has left (tx_valid low again).                  *)
(*         tx_ready is an arbitrary bit per cycle.                         *)
(*  Ref  : req/rpid/cons/fin = the request in progress, the payload bytes  *)
(*         consumed so far and whether `last` was consumed; wire = bytes   *)
(*         accepted by the PHY (tx_valid & tx_ready) in this burst.  Every *)
(*         accepted wire byte must be the next byte of                     *)
(*              PidByte(rpid) . payload . CRC16lo . CRC16hi                *)
(*         (CRC16 bit-serial from CRC.tla); tx_valid may fall only after   *)
(*         the whole frame.  Free: how long the generator takes to start   *)
(*         or to move on (up to ProgWin ready cycles without a byte), how  *)
(*         far consumption runs ahead of the wire.                         *)
(*  Prop : over the ghost logs offd (bytes the producer put up), sentlog.  *)
(***************************************************************************)
EXTENDS Naturals, Sequences, CRC

CONSTANTS ProgWin      \* at most ProgWin cycles with tx_ready high and no byte accepted while a packet is owed

VARIABLES in, out,
          req,         \* "none" / "data" / "zlp": request in progress
          rpid,        \* data_pid of the request
          cons,        \* payload bytes consumed (stream valid & ready) so far
          fin,         \* the byte marked last has been consumed (or the request is a ZLP)
          crcv,        \* CRC16 of the payload, once fin
          wire,        \* bytes accepted on the wire in the current burst
          stuck,       \* ready cycles without progress
          offd,        \* ghost: payload bytes the producer has put up for this request
          sent,        \* ghost: the last completed burst [pid, payload (as offered), wire] or NoSent
          nreq, nsent  \* ghost: counts

vars == <<in, out, req, rpid, cons, fin, crcv, wire, stuck, offd, sent, nreq, nsent>>

-----------------------------------------------------------------------------
(* Framing, from the standard. *)
DataPidNibble(p) == CASE p = 0 -> 3 [] p = 1 -> 11 [] p = 2 -> 7 [] p = 3 -> 15     \* DATA0, DATA1, DATA2, MDATA
PidByte(p) == DataPidNibble(p) + 16 * (15 - DataPidNibble(p))                        \* PID nibble, then its complement
Frame(p, payload) == LET c == Usb2Crc16(payload) IN <<PidByte(p)>> \o payload \o <<c % 256, c \div 256>>   \* CRC16 low byte first

-----------------------------------------------------------------------------
NewData(i) == req = "none" /\ i.sv /\ i.sf
NewZlp(i)  == req = "none" /\ i.sv /\ ~i.sf /\ i.sl
Req1(i)    == IF NewData(i) THEN "data" ELSE IF NewZlp(i) THEN "zlp" ELSE req
Pid1(i)    == IF req = "none" THEN i.pid ELSE rpid
Fresh(i)   == NewData(i) \/ NewZlp(i)
CBeat(i, o) == Req1(i) = "data" /\ ~(IF Fresh(i) THEN FALSE ELSE fin) /\ i.sv /\ o.sr     \* a payload byte is consumed
Cons0(i)   == IF Fresh(i) THEN <<>> ELSE cons
Cons1(i, o) == IF CBeat(i, o) THEN Append(Cons0(i), i.sp) ELSE Cons0(i)
Fin1(i, o) == IF NewZlp(i) THEN TRUE
              ELSE IF NewData(i) THEN CBeat(i, o) /\ i.sl
              ELSE fin \/ (CBeat(i, o) /\ i.sl)
Crc1(i, o) == IF Fin1(i, o) /\ (Fresh(i) \/ ~fin) THEN Usb2Crc16(Cons1(i, o)) ELSE crcv
WBeat(i, o) == o.tv /\ i.rdy
Wire0      == IF out.tv THEN wire ELSE <<>>          \* a new burst starts when tx_valid rises
BurstEnd(o) == out.tv /\ ~o.tv

\* Environment assumptions (closed loop: they refer to the outputs of the previous cycle).
Held   == req = "data" /\ ~fin /\ in.sv /\ ~out.sr          \* the byte put up last cycle was not accepted
Legal(i) ==
    /\ req = "none" => (~i.sv \/ i.sf \/ i.sl)                                   \* idle: nothing, first byte, or ZLP pulse
    /\ Held => (i.sv /\ i.sf = in.sf /\ i.sl = in.sl /\ i.sp = in.sp)            \* hold until accepted
    /\ (req = "data" /\ ~fin /\ ~Held) => (i.sv /\ ~i.sf)                        \* valid stays high from first to last
    /\ (req # "none" /\ fin) => ~i.sv                                            \* nothing more until the packet has left
    /\ (req # "none" /\ ~(out.tv /\ Len(wire) >= 1)) => i.pid = rpid              \* data_pid stable until the PID byte has left

\* The observation relation: name of the first violated clause.
Failing(i, o) ==
    LET r1 == Req1(i)
        c1 == Cons1(i, o)
        f1 == Fin1(i, o)
        k  == Len(Wire0) + 1
    IN
    IF ~Legal(i) THEN "env_illegal_input"
    ELSE IF BurstEnd(o) /\ ~(fin /\ Len(wire) = Len(cons) + 3) THEN "packet_truncated"
    ELSE IF o.tv /\ r1 = "none" THEN "tx_without_request"
    ELSE IF WBeat(i, o) /\ k = 1 /\ o.td # PidByte(Pid1(i)) THEN "pid_byte"
    ELSE IF WBeat(i, o) /\ k >= 2 /\ k <= Len(c1) + 1 /\ o.td # c1[k - 1] THEN "payload_byte"
    ELSE IF WBeat(i, o) /\ k >= Len(c1) + 2 /\ ~f1 THEN "wire_byte_without_payload"
    ELSE IF WBeat(i, o) /\ k = Len(c1) + 2 /\ o.td # Crc1(i, o) % 256 THEN "crc_low_byte"
    ELSE IF WBeat(i, o) /\ k = Len(c1) + 3 /\ o.td # Crc1(i, o) \div 256 THEN "crc_high_byte"
    ELSE IF WBeat(i, o) /\ k > Len(c1) + 3 THEN "extra_wire_byte"
    ELSE IF r1 # "none" /\ i.rdy /\ ~WBeat(i, o) /\ ~(BurstEnd(o)) /\ stuck >= ProgWin THEN "no_progress"
    ELSE "ok"

NoSent == [pid |-> 0, payload |-> <<>>, wire |-> <<>>, ok |-> FALSE]

Step(i, o) ==
    LET r1  == Req1(i)
        c1  == Cons1(i, o)
        f1  == Fin1(i, o)
        w1  == IF WBeat(i, o) THEN Append(Wire0, o.td) ELSE Wire0
        end == BurstEnd(o)
        \* the producer puts up a new byte: the first one, or the one after a consumed non-last byte
        newbyte == NewData(i) \/ (req = "data" /\ ~fin /\ ~Held /\ i.sv)
        of1 == IF NewZlp(i) THEN <<>> ELSE IF NewData(i) THEN <<i.sp>>
               ELSE IF newbyte THEN Append(offd, i.sp) ELSE offd
    IN /\ in' = i /\ out' = o
       /\ req'  = IF end THEN "none" ELSE r1
       /\ rpid' = Pid1(i)
       /\ cons' = c1
       /\ fin'  = f1
       /\ crcv' = Crc1(i, o)
       /\ wire' = IF end THEN <<>> ELSE w1
       /\ stuck' = IF r1 = "none" \/ WBeat(i, o) \/ end THEN 0 ELSE IF i.rdy THEN stuck + 1 ELSE stuck
       /\ offd' = of1
       /\ sent' = IF end THEN [pid |-> rpid, payload |-> offd, wire |-> wire, ok |-> TRUE] ELSE NoSent
       /\ nreq' = nreq + (IF Fresh(i) THEN 1 ELSE 0)
       /\ nsent' = nsent + (IF end THEN 1 ELSE 0)

\* A reset of the clock domain while the producer is quiet (no byte on offer; a packet may be on the wire): the
\* outputs of the cycle are still judged, then the request in progress is forgotten (its packet is cut short -- the
\* statement says nothing about it) and the generator must behave like a fresh one.
ResetLegal(i) == ~i.sv /\ (req # "data" \/ fin)
ResetStep(i, o) ==
    /\ in' = i /\ out' = [sr |-> FALSE, tv |-> FALSE, td |-> 0]
    /\ req' = "none" /\ rpid' = 0 /\ cons' = <<>> /\ fin' = FALSE /\ crcv' = 0 /\ wire' = <<>> /\ stuck' = 0
    /\ offd' = <<>> /\ sent' = NoSent /\ nreq' = nsent /\ UNCHANGED nsent

NoIn  == [sv |-> FALSE, sf |-> FALSE, sl |-> FALSE, sp |-> 0, pid |-> 0, rdy |-> FALSE]
NoOut == [sr |-> FALSE, tv |-> FALSE, td |-> 0]

Init == /\ in = NoIn /\ out = NoOut
        /\ req = "none" /\ rpid = 0 /\ cons = <<>> /\ fin = FALSE /\ crcv = 0 /\ wire = <<>> /\ stuck = 0
        /\ offd = <<>> /\ sent = NoSent /\ nreq = 0 /\ nsent = 0

-----------------------------------------------------------------------------
(* Prop *)
IsPrefix(a, b) == Len(a) <= Len(b) /\ SubSeq(b, 1, Len(a)) = a

\* every completed packet is PID . offered payload . CRC16 (low byte first): framing and exactly-once delivery
FramedCorrectly == sent.ok => sent.wire = Frame(sent.pid, sent.payload)

\* what is on the wire so far is a prefix of PID . consumed payload . CRC16
WirePrefix == (req # "none" /\ out.tv) =>
                 IF fin THEN IsPrefix(wire, <<PidByte(rpid)>> \o cons \o <<crcv % 256, crcv \div 256>>)
                 ELSE IsPrefix(wire, <<PidByte(rpid)>> \o cons)

\* only offered bytes are consumed, in order
ConsumedIsOffered == IsPrefix(cons, offd) /\ (fin => cons = offd)

\* one packet per request, in order
OnePacketPerRequest == /\ nsent <= nreq /\ nreq <= nsent + 1
                       /\ (req = "none") <=> (nreq = nsent)

TypeOK == /\ req \in {"none", "data", "zlp"} /\ rpid \in 0..3 /\ stuck \in 0..ProgWin
          /\ (req = "zlp" => fin /\ cons = <<>>)
=============================================================================
