----------------------------- MODULE AlignerTrace -----------------------------
(***************************************************************************)
(* Trace validation for C34: per-cycle records from the real RxWordAligner  *)
(* or RxPacketAligner (Patterns chosen in the cfg):                         *)
(*   [v, w       -- sink.valid, input symbols                               *)
(*    ov, ow,    -- source.valid, output symbols                            *)
(*    ooff,      -- alignment_offset, all sampled before the clock edge     *)
(*    rst]       -- the `ss` domain reset is asserted in this cycle (the    *)
(*                  harness offers no input word then): the output of this  *)
(*                  cycle is still checked; afterwards the aligner is as    *)
(*                  new (offset 0, no previous word, nothing pending).      *)
(* The output may lag by any bounded number of cycles: every valid input    *)
(* word queues its expected presentation, every valid output word must be   *)
(* the oldest one queued.                                                   *)
(***************************************************************************)
EXTENDS Aligner, TLC, TLCExt, Json, IOUtils

Logs == JsonDeserialize(IOEnv.TRACE_FILE)

VARIABLES tid, l, status, off, prev, exp
tvars == <<tid, l, status, off, prev, exp>>

MaxLat == 4

ASSUME \A i \in 1..Len(Logs) : TLCSet(i, <<0, "ok">>)

Word(x) == <<x[1], x[2], x[3], x[4]>>

Exp1(r) == IF r.v THEN Append(exp, [w |-> OutWord(off, prev, Word(r.w)), off |-> NewOff(off, prev, Word(r.w)),
                                    moved |-> NewOff(off, prev, Word(r.w)) # off])
           ELSE exp

Failing(r) ==
    IF r.v /\ ~Unambiguous(prev, Word(r.w)) THEN "env_ambiguous_alignment"
    ELSE IF r.ov /\ Exp1(r) = <<>> THEN "output_word_from_nowhere"
    ELSE IF r.ov /\ ~Agrees(Head(Exp1(r)).w, Word(r.ow)) THEN
            (IF Head(Exp1(r)).w \in Patterns THEN "pattern_not_presented_as_whole_word"
             ELSE IF Head(Exp1(r)).moved THEN "wrong_word_at_offset_change"
             ELSE "symbol_lost_duplicated_or_misplaced")
    ELSE IF r.ov /\ r.ooff # Head(Exp1(r)).off THEN "alignment_offset_output"
    ELSE IF ~r.ov /\ Len(Exp1(r)) > MaxLat THEN "output_word_missing"
    ELSE "ok"

TInit == /\ tid \in 1..Len(Logs) /\ l = 1 /\ status = "ok"
         /\ off = 0 /\ prev = <<Unknown, Unknown, Unknown, Unknown>> /\ exp = <<>>

TNext == /\ status = "ok"
         /\ l <= Len(Logs[tid])
         /\ LET r == Logs[tid][l] IN
              /\ status' = Failing(r)
              /\ exp' = IF r.rst THEN <<>> ELSE IF r.ov /\ Exp1(r) # <<>> THEN Tail(Exp1(r)) ELSE Exp1(r)
              /\ off' = IF r.rst THEN 0 ELSE IF r.v THEN NewOff(off, prev, Word(r.w)) ELSE off
              /\ prev' = IF r.rst THEN <<Unknown, Unknown, Unknown, Unknown>> ELSE IF r.v THEN Word(r.w) ELSE prev
         /\ l' = l + 1
         /\ UNCHANGED tid

TSpec == TInit /\ [][TNext]_tvars
TraceProp == off \in 0..3 /\ Len(exp) <= MaxLat + 1
\* a clause failure keeps its name; an invariant failure stops the trace there (it is not followed further)
Verdict == IF status # "ok" THEN status ELSE IF TraceProp THEN "ok" ELSE "prop_invariant"
Progress == TLCSet(tid, <<l - 1, Verdict>>) /\ Verdict = "ok"
Verdicts == JsonSerialize(IOEnv.VERDICT_FILE, [i \in 1..Len(Logs) |-> TLCGet(i)])
=============================================================================
