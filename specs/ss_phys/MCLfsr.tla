-------------------------------- MODULE MCLfsr --------------------------------
(***************************************************************************)
(* Checks on the LFSR definitions themselves (no behaviour to explore):     *)
(*   SpecVectorOK  - first 16 key bytes = the table in [USB3.2 App. B.1]    *)
(*   RepsAgreeOn   - the integer shift equals the defining bit-sequence     *)
(*                   shift on States (cfg: all 2^16 states in the thorough  *)
(*                   tier; every basis state, 0..255 and FF00h..FFFFh quick)*)
(*   WordIsFourSymbols, no non-zero state maps to zero (bijection witness)  *)
(***************************************************************************)
EXTENDS SsLfsr, TLC

CONSTANT Full

States == IF Full THEN 0..65535
          ELSE {P2(k) : k \in 0..15} \cup (0..255) \cup (65280..65535)

RepsAgreeOn == LfsrRepsAgreeOn(States)
WordIsFourSymbols == \A s \in {LfsrSeed, 1, 32768, 4660} :
                        /\ WordStep(s).key = KeyStream(s, 4)
                        /\ WordStep(s).next = AfterSym(AfterSym(AfterSym(AfterSym(s))))
NonZeroStays == \A k \in 0..15 : AfterSym(P2(k)) # 0 /\ ShiftInt(P2(k)) # 0
ZeroStays == ShiftInt(0) = 0 /\ KeyByte(0) = 0

ASSUME SpecVectorOK
ASSUME RepsAgreeOn
ASSUME WordIsFourSymbols
ASSUME NonZeroStays
ASSUME ZeroStays

VARIABLE x
Tick == x' = 1 - x
Spec == x = 0 /\ [][Tick]_x
=============================================================================
