------------------------------ MODULE MCSpiReg ------------------------------
(* Bounded instance of SpiReg: small register files (chosen in Init), every event sequence of the  *)
(* host -- every command, address and data value, an abort (desel or mid-bit) after any number of   *)
(* bits, extra clocks after the word, clocks while deselected, pokes of the signal-backed register. *)
EXTENDS SpiReg, TLC

CONSTANTS Layouts,      \* which of the layouts below to explore
          MaxWrites     \* bound on completed writes (ghost counters)

Layout(n) ==
    CASE n = 1 -> [A |-> 2, R |-> 2, dflt |-> <<1, 0>>,
                   regs |-> << [a |-> 0, k |-> "ro", v |-> <<1, 1>>],
                               [a |-> 1, k |-> "rw", v |-> <<0, 0>>],
                               [a |-> 2, k |-> "rw", v |-> <<0, 1>>] >>]
      [] n = 2 -> [A |-> 3, R |-> 2, dflt |-> <<0, 1>>,
                   regs |-> << [a |-> 0, k |-> "ro", v |-> <<1, 1>>],
                               [a |-> 3, k |-> "rw", v |-> <<0, 0>>],
                               [a |-> 4, k |-> "rw", v |-> <<1, 0>>],
                               [a |-> 5, k |-> "wo", v |-> <<>>],
                               [a |-> 6, k |-> "rs", v |-> <<0, 0>>] >>]
      [] n = 3 -> [A |-> 1, R |-> 3, dflt |-> <<1, 0, 1>>,
                   regs |-> << [a |-> 0, k |-> "ro", v |-> <<1, 1, 1>>],
                               [a |-> 1, k |-> "rw", v |-> <<0, 1, 0>>] >>]

Init == \E n \in Layouts : LET c == Layout(n) IN InitCfg(c.A, c.R, c.dflt, c.regs)

Values == [1..R -> {0, 1}]
SignalRegs == {regs[i].a : i \in {j \in 1..Len(regs) : regs[j].k = "rs"}}

Event(e) == LET x == Expect(e) IN
            DoX(e, [sdo_lo |-> x.sdo, sdo_hi |-> x.sdo, ws |-> x.ws, vals |-> x.vals, wv |-> x.wv], x)

EvSel   == phase = "idle" /\ Event([e |-> "sel"])
EvBit   == phase # "idle" /\ \E b \in {0, 1} : Event([e |-> "bit", b |-> b])
EvMid   == phase # "idle" /\ \E b \in {0, 1} : Event([e |-> "mid", b |-> b])
EvDesel == phase # "idle" /\ Event([e |-> "desel"])
CutKinds == {[at |-> "fall", off |-> 0], [at |-> "fall", off |-> 1], [at |-> "rise", off |-> 0], [at |-> "fall", off |-> -1]}
EvCut   == phase # "idle" /\ \E b \in {0, 1}, c \in CutKinds :
               LET e == [e |-> "cut", b |-> b, at |-> c.at, off |-> c.off] IN EnvFail(e) = "ok" /\ Event(e)
EvNoise == phase = "idle" /\ Event([e |-> "noise"])
EvPoke  == phase = "idle" /\ \E a \in SignalRegs, v \in Values : Event([e |-> "poke", a |-> a, v |-> v])
EvIdle  == Event([e |-> "idle"])

Next == EvSel \/ EvBit \/ EvMid \/ EvDesel \/ EvCut \/ EvNoise \/ EvPoke \/ EvIdle
Spec == Init /\ [][Next]_vars

RECURSIVE Sum(_)
Sum(s) == IF s = <<>> THEN 0 ELSE Head(s) + Sum(Tail(s))
Bounded == Sum(nW) <= MaxWrites
=============================================================================
