---------------------------- MODULE MCUsbSerial ----------------------------
(* Bounded instance of UsbSerial: the host, the FPGA-side streams AND the device's allowed answers *)
(* are all nondeterministic; TLC checks that every behaviour the specification allows satisfies   *)
(* the exactly-once / in-order theorems (i.e. the Ref relation implies the property).             *)
EXTENDS UsbSerial, TLC

CONSTANTS Bytes, MaxLog

Vid == 4660
Pid == 22136
DevDesc == <<18, 1, 0, 2, 0, 0, 0, 64, 52, 18, 120, 86, 0, 0, 1, 2, 3, 1>>

Payloads == UNION {[1..n -> Bytes] : n \in 0..MaxPkt}
Beats == {<<b, l>> : b \in Bytes, l \in BOOLEAN}
Addrs == {0, 5}

Reqs == { [type |-> 0, recipient |-> 0, dirin |-> FALSE, request |-> 5, value |-> 5, index |-> 0, length |-> 0],
          [type |-> 0, recipient |-> 0, dirin |-> FALSE, request |-> 9, value |-> 1, index |-> 0, length |-> 0],
          [type |-> 0, recipient |-> 0, dirin |-> TRUE,  request |-> 8, value |-> 0, index |-> 0, length |-> 1],
          [type |-> 0, recipient |-> 0, dirin |-> TRUE,  request |-> 6, value |-> 256, index |-> 0, length |-> 64],
          [type |-> 0, recipient |-> 0, dirin |-> TRUE,  request |-> 6, value |-> 256, index |-> 0, length |-> 8],
          [type |-> 1, recipient |-> 1, dirin |-> FALSE, request |-> 32, value |-> 0, index |-> 0, length |-> 7],
          [type |-> 1, recipient |-> 1, dirin |-> FALSE, request |-> 34, value |-> 3, index |-> 0, length |-> 0],
          [type |-> 2, recipient |-> 0, dirin |-> TRUE,  request |-> 1, value |-> 0, index |-> 0, length |-> 4],
          [type |-> 0, recipient |-> 2, dirin |-> FALSE, request |-> 1, value |-> 0, index |-> 132, length |-> 0],
          [type |-> 0, recipient |-> 2, dirin |-> FALSE, request |-> 1, value |-> 0, index |-> 4, length |-> 0] }

CtlData == {<<>>, <<0>>, <<1>>, DevDesc, SubSeq(DevDesc, 1, 8)}

InResps == {[kind |-> "NAK", pid |-> 0, payload |-> <<>>], [kind |-> "none", pid |-> 0, payload |-> <<>>]}
           \cup {[kind |-> "data", pid |-> t, payload |-> p] : t \in {0, 1}, p \in Payloads}

\* `act` records the Env side of the last step (what the host / the streams did), so that
\* TLC-simulated behaviours can be replayed into the real device (spec -> code).
VARIABLE act
mcvars == <<vars, act>>

DoTx   == \E b \in Beats : TxBeatsFail(<<b>>) = "ok" /\ TxBeats(<<b>>) /\ act' = [e |-> "tx", beat |-> b]
DoRx   == \E n \in 1..2 : n <= Held /\ LET bs == SubSeq(hostWritten, Len(rxDelivered) + 1, Len(rxDelivered) + n)
                                        IN RxBeatsFail(bs) = "ok" /\ RxBeats(bs) /\ act' = [e |-> "rx", n |-> n]
DoOut  == \E a \in Addrs, t \in {0, 1}, p \in Payloads, ok \in BOOLEAN, r \in {"ACK", "NAK", "none"} :
             OutFail(a, t, p, ok, r) = "ok" /\ Out(a, t, p, ok, r)
             /\ act' = [e |-> "out", addr |-> a, tog |-> t, payload |-> p, crc_ok |-> ok]
DoIn   == \E a \in Addrs, r \in InResps, ack \in BOOLEAN :
             InFail(a, r, ack) = "ok" /\ In(a, r, ack) /\ act' = [e |-> "in", addr |-> a, host_ack |-> ack]
DoCtl  == \E a \in Addrs, q \in Reqs, o \in {"ok", "stall", "no_response"}, d \in CtlData :
             CtlFail(a, q, o, d, Vid, Pid) = "ok" /\ Ctl(a, q, o, d) /\ act' = [e |-> "ctl", addr |-> a, req |-> q]

DoSetAddr == \E a \in Addrs : LET q == [type |-> 0, recipient |-> 0, dirin |-> FALSE, request |-> 5, value |-> 5, index |-> 0, length |-> 0]
                               IN CtlFail(a, q, "ok", <<>>, Vid, Pid) = "ok" /\ Ctl(a, q, "ok", <<>>)
                                  /\ act' = [e |-> "ctl", addr |-> a, req |-> q]
\* three instances: data path only (+ SET_ADDRESS), control path only, everything
NextData == DoTx \/ DoRx \/ DoOut \/ DoIn \/ DoSetAddr
NextCtl  == DoCtl
NextAll  == DoTx \/ DoRx \/ DoOut \/ DoIn \/ DoCtl
InitMC   == Init /\ act = [e |-> "init"]
SpecData == InitMC /\ [][NextData]_mcvars
SpecCtl  == InitMC /\ [][NextCtl]_mcvars
SpecAll  == InitMC /\ [][NextAll]_mcvars

\* `act` is an observation variable only: hidden from the model checker's state identity
View == vars

Bounded == Len(hostWritten) <= MaxLog /\ Len(txOffered) <= MaxLog

\* A state in which the harness's End record would be accepted is reachable with data moved both ways
\* (non-vacuity witness; expected to be *violated*, checked by the binding with a separate config).
NeverDrained == ~(EndFail = "ok" /\ Len(hostRead) >= 2 /\ Len(rxDelivered) >= 2)
=============================================================================
