"""Engine `ss_ltssm` — C41: LTSSMController vs specs/ss_ltssm/Ltssm.tla.

Verdicts rest on the Prop monitors of Ltssm.tla evaluated by TLC on the logged inputs and *public outputs* of the
real controller.  The reference machine (lock-step, second TLC pass) and the real FSM state name only yield DRIFT
information and coverage figures.
"""
import os
from concurrent.futures import ThreadPoolExecutor

from .. import tlc
from ..core import use_repo
from ..sim import internal_signals

ENGINE = "ss_ltssm"
SPEC_DIR = "ss_ltssm"

META = {
    "C41": {
        "text": "Explicit-time TLA+ specification of the USB3 LTSSM: an implementation-shaped reference machine (21 "
                "substates, entry tasks, detector latches, 12 ms / 2 ms / 360 ms time-outs, Polling.LFPS burst counts) "
                "and independent monitors computed only from inputs and public outputs (trainedSinceReset, "
                "handshakeSinceEntry, reset removes link_ready within a cycle, hot-reset requests honoured, timed "
                "phases left by - and not before - their time-out, scrambling enabled in U0 unless requested, LFPS "
                "exchange counts). TLC proves the monitors on the reference machine for every input schedule of the "
                "scaled model; TLC-simulated behaviours (incl. a tour over every edge of the reference FSM graph), "
                "directed withhold/boundary scenarios and reactive random partners are driven through the real "
                "LTSSMController at a 10 kHz clock (120/20/3600-cycle time-outs) and every recorded, event-compressed "
                "trace is validated by TLC with the monitors evaluated on every observed cycle.",
        "note": "Time-outs are checked in cycles of a scaled clock (ss_clock_frequency=10 kHz) with a tolerance of "
                "2 cycles; lfps_cycles_sent stays below 2^15 (no counter wrap); tseq_detected, power_on_reset and "
                "enable_compliance_scrambling are not connected inside the controller and are not driven; "
                "LUNA_COMPLIANCE is unset. Trusted base: TLC, amaranth.sim, the trace recorder in this binding. "
                "Exhaustive only for the bounded model; implementation traces are sampled.",
        "technique": "TLA+ explicit-time LTSSM spec + I/O monitors, TLC exhaustive + transition tour + batch trace validation",
        "design_ref": "§5 C41",
    }
}

import math


class Clk:
    """A value of the constructor parameter ss_clock_frequency and the time-outs (in cycles) it implies."""

    def __init__(self, hz):
        self.hz = hz
        self.T12, self.T2, self.T360 = (int(math.ceil(t * hz)) for t in (12e-3, 2e-3, 360e-3))
        self.const = {"T12": self.T12, "T2": self.T2, "T360": self.T360, "SlackHi": 2, "SlackLo": 2, "QuietQ": 3}
        self.phase_timeout = {"TS1": self.T12, "TS2": self.T12, "QUIET": self.T12, "IDLE": self.T2, "LFPS": self.T360}

    def __repr__(self):
        return "%g Hz (%d/%d/%d)" % (self.hz, self.T12, self.T2, self.T360)


CLOCK_HZ = 10e3                          # primary scaled clock: all stimulus classes
PRIMARY = Clk(CLOCK_HZ)
T12, T2, T360 = PRIMARY.T12, PRIMARY.T2, PRIMARY.T360          # 120 / 20 / 3600
REAL_CONST = PRIMARY.const
# other value classes of ss_clock_frequency (quick: one of them, rotated by the seed; thorough: all):
#   integer products / products that need the ceil() (3333 Hz: 39.996 -> 40, 6.67 -> 7, 1199.9 -> 1200;
#   20001 Hz: 240.012 -> 241) / a 360 ms count of exactly 2^12 (timer one bit wider than at 10 kHz)
SECONDARY_HZ = [12.5e3, 3333.0, 20001.0, 11377.7]        # 11377.7 Hz: 360 ms = 4096 cycles
DEFAULT_HZ = 125e6                       # the constructor default (thorough tier: the 2 ms and one 12 ms time-out)

# (trace field, attribute of LTSSMController)
IN_FIELDS = [("rst", "in_usb_reset"), ("drst", None),            # drst = ResetSignal("ss") of the controller's domain
             ("phy", "phy_ready"), ("dscr", "disable_scrambling"), ("sent", "lfps_cycles_sent"),
             ("pd", "link_partner_detected"), ("npd", "no_link_partner_detected"), ("lfps", "lfps_polling_detected"),
             ("ts1", "ts1_detected"), ("its1", "inverted_ts1_detected"), ("ts2", "ts2_detected"),
             ("burst", "ts_burst_complete"), ("idle", "idle_handshake_complete"), ("hot", "hot_reset_requested"),
             ("loop", "loopback_requested"), ("nscr", "no_scrambling_requested"), ("rec", "trigger_link_recovery")]
OUT_FIELDS = [("lr", "link_ready"), ("eu0", "entering_u0"), ("txi", "tx_electrical_idle"), ("term", "engage_terminations"),
              ("rxd", "perform_rx_detection"), ("slfps", "send_lfps_polling"), ("stseq", "send_tseq_burst"),
              ("teq", "train_equalizer"), ("sts1", "send_ts1_burst"), ("sts2", "send_ts2_burst"),
              ("rhot", "request_hot_reset"), ("rnscr", "request_no_scrambling"), ("scr", "enable_scrambling"),
              ("pidle", "perform_idle_handshake"), ("loopb", "act_as_loopback"), ("inv", "invert_rx_polarity")]
STROBES = ["pd", "npd", "lfps", "ts1", "its1", "ts2", "burst", "idle", "hot", "loop", "nscr", "rec"]
NO_INPUT = dict({k: False for k, _ in IN_FIELDS}, phy=True, sent=0)

# Edges of the reference FSM graph (must equal FsmEdges of MCLtssm.tla: cross-checked through NEdges and EdgeLegal).
_S = ["Rx.Detect.Reset", "Rx.Detect.Active", "Rx.Detect.Quiet", "Polling.LFPS", "Polling.RxEQ", "Polling.Active",
      "Polling.Configuration", "Polling.Configuration.Exit", "Polling.Idle", "U0", "Hot Reset.Active", "Hot Reset.Exit",
      "Recovery.Active", "Recovery.Configuration", "Recovery.Configuration.Exit", "Recovery.Idle", "Compliance",
      "Loopback", "SS.Inactive.Quiet", "SS.Inactive.Disconnect.Detect", "SS.Disabled.Default"]
(RDR, RDA, RDQ, PLF, PRX, PAC, PCF, PCX, PID, U0, HRA, HRX, RAC, RCF, RCX, RID, CMP, LPB, SIQ, SID, SDD) = _S
FSM_EDGES = sorted({(s, RDR) for s in _S if s != RDR} | {
    (RDR, RDA), (RDA, RDQ), (RDA, PLF), (RDQ, RDA), (PLF, PRX), (PLF, CMP), (PLF, SDD), (PRX, PAC), (PAC, PCF),
    (PAC, RDA), (PCF, PCX), (PCF, RDA), (PCX, PID), (PID, U0), (PID, HRA), (PID, LPB), (PID, RDR), (U0, RAC),
    (HRA, HRX), (HRA, SIQ), (HRX, U0), (HRX, SIQ), (RAC, RCF), (RAC, SIQ), (RCF, RCX), (RCF, SIQ), (RCX, RID),
    (RID, U0), (RID, HRA), (RID, LPB), (RID, SIQ), (SIQ, SID), (SID, SIQ), (SID, RDQ)})
# Warm-reset edges the unchanged controller cannot take (finding C41-warm-reset-ignored-before-rxeq).
EARLY_RESET_EDGES = {(RDA, RDR), (RDQ, RDR), (PLF, RDR)}


def _cfg(name):
    with open(os.path.join(tlc.SPECS, SPEC_DIR, name)) as f:
        return f.read()


def phase(o):
    """What the controller is visibly doing (same classification as Phase(o) in Ltssm.tla; stimulus side only)."""
    if o["lr"]:
        return "U0"
    if o["loopb"]:
        return "LOOP"
    if o["pidle"]:
        return "IDLE"
    if o["sts2"]:
        return "TS2"
    if o["sts1"]:
        return "TS1"
    if o["stseq"]:
        return "TSEQ"
    if o["slfps"]:
        return "LFPS"
    if o["rxd"]:
        return "DETECT"
    if o["txi"] and not o["term"]:
        return "OFF"
    if o["txi"]:
        return "QUIET"
    return "NONE"


PHASE_TIMEOUT = PRIMARY.phase_timeout


def quieten(i):
    return dict(NO_INPUT, phy=i["phy"], dscr=i["dscr"], sent=i["sent"])


def is_quiet(i):
    return not i["rst"] and not i["drst"] and not any(i[s] for s in STROBES)


class Bench:
    """The real LTSSMController in amaranth.sim; one elaboration serves many traces.

    A stimulus source is a generator yielding (inputs, n): one cycle with `inputs` (complete input vector) followed by
    n-1 quiet cycles; after each item it is sent (outputs, fsm-state name) observed in the last of those cycles, so a
    source may react to what the controller is visibly doing (a link partner does).
    """

    def __init__(self, loosen=True, clk=None, compliance=False):
        use_repo()
        os.environ.pop("LUNA_COMPLIANCE", None)
        if compliance:
            os.environ["LUNA_COMPLIANCE"] = "1"       # read by LTSSMController.elaborate()
        self.clk = clk = clk or PRIMARY
        from amaranth import Module, Signal, Cat, ClockDomain
        from amaranth.sim import Simulator
        from luna.gateware.usb.usb3.link.ltssm import LTSSMController
        self.loosen = loosen
        self.dut = dut = LTSSMController(ss_clock_frequency=clk.hz, loosen_requirements=loosen)
        top = Module()
        top.domains.ss = cd = ClockDomain("ss")     # so that the bench can assert the domain's reset
        top.submodules.dut = dut
        self.packed = Signal(len(OUT_FIELDS))
        top.d.comb += self.packed.eq(Cat(*[getattr(dut, a) for _, a in OUT_FIELDS]))   # recorder convenience only
        self.ins = {k: (getattr(dut, a) if a else cd.rst) for k, a in IN_FIELDS}
        self.sim = Simulator(top)
        self.sim.add_clock(1.0 / clk.hz, domain="ss")
        os.environ.pop("LUNA_COMPLIANCE", None)
        fsms = [s for k, s in internal_signals(self.sim).items() if k.endswith("dut.fsm_state")]
        if len(fsms) != 1:
            raise RuntimeError("LTSSM fsm_state not found")
        self.fsm = fsms[0]
        self._fsm_names = {}
        self._odec = {}
        self._src = None
        self._rec = None
        self._first = True
        self.cycles = 0
        self.sim.add_testbench(self._bench)

    def _decode(self, v):
        d = self._odec.get(v)
        if d is None:
            d = {k: bool((v >> n) & 1) for n, (k, _) in enumerate(OUT_FIELDS)}
            self._odec[v] = d
        return d

    def _fsm_name(self, v):
        s = self._fsm_names.get(v)
        if s is None:
            s = self.fsm.decoder(v).rsplit("/", 1)[0]
            self._fsm_names[v] = s
        return s

    async def _bench(self, ctx):
        src = self._src
        recs = []
        cur = {}
        ins = self.ins
        packed, fsm = self.packed, self.fsm
        cycles = 0

        def apply(i):
            for k, v in i.items():
                if cur.get(k) != v:
                    ctx.set(ins[k], int(v))
                    cur[k] = v

        def emit(i, pv, fv):
            if recs:
                last = recs[-1]
                if last["_pv"] == pv and last["_fv"] == fv and last["_q"] and last["i"] == i:
                    last["n"] += 1
                    return
            recs.append({"n": 1, "i": dict(i), "o": self._decode(pv), "fsm": self._fsm_name(fv),
                         "_pv": pv, "_fv": fv, "_q": is_quiet(i)})

        try:
            item = next(src)
        except StopIteration:
            item = None
        while item is not None:
            i, n = item
            apply(i)
            pv, fv = ctx.get(packed), ctx.get(fsm)
            emit(i, pv, fv)
            await ctx.tick("ss")
            cycles += 1
            if n > 1:
                q = quieten(i)
                apply(q)
                for _ in range(n - 1):
                    pv, fv = ctx.get(packed), ctx.get(fsm)
                    emit(q, pv, fv)
                    await ctx.tick("ss")
                cycles += n - 1
            try:
                item = src.send((self._decode(pv), self._fsm_name(fv)))
            except StopIteration:
                item = None
        for r in recs:
            del r["_pv"], r["_fv"], r["_q"]
        self.cycles += cycles
        self._rec = recs

    def run(self, source):
        """source: generator (see class doc) or a list of (inputs, n)."""
        if isinstance(source, list):
            source = _script_source(source)
        self._src = source
        self._rec = None
        if not self._first:
            self.sim.reset()
        self._first = False
        self.sim.run()
        return self._rec


def _script_source(script):
    for i, n in script:
        yield (i, n)


def expand(trace):
    """The same trace without event compression (one record per cycle) — used to cross-check the compression."""
    out = []
    for r in trace:
        out.append(dict(r, n=1))
        q = quieten(r["i"])
        for _ in range(r["n"] - 1):
            out.append(dict(r, n=1, i=q))
    return out


def trace_cycles(trace):
    return sum(r["n"] for r in trace)


# ------------------------------------------------------------------------------------------------------
# Directed stimuli (scripts): written at the level of link-partner events.

class Script:
    """Builder for a list of (inputs, n)."""

    def __init__(self, **levels):
        self.lv = {"phy": True, "dscr": False, "sent": 0}
        self.lv.update(levels)
        self.items = []

    def c(self, *strobes, n=1, rst=False, drst=False, **levels):
        """one cycle with the given strobes (then n-1 quiet cycles); keyword args change level inputs."""
        self.lv.update(levels)
        i = dict(NO_INPUT, **self.lv)
        i["rst"] = rst
        i["drst"] = drst
        for s in strobes:
            i[s] = True
        self.items.append((i, n))
        return self

    def wait(self, n):
        return self.c(n=n) if n > 0 else self

    # --- a cooperative partner, substate by substate -------------------------------------------------
    def to_lfps(self):
        return self.c(n=2).c("pd").c()

    def to_rxeq(self):
        return self.to_lfps().c("lfps", sent=10).c(sent=16, n=2)

    def to_polling_active(self):
        return self.to_rxeq().c("burst", sent=0).c()

    def to_polling_config(self):
        return self.to_polling_active().c("burst").c("ts1").c()

    def to_polling_idle(self, *option_strobes):
        self.to_polling_config().c("ts2", *option_strobes).c("burst").c(n=2).c("burst").c()
        return self

    def to_u0(self, *option_strobes):
        return self.to_polling_idle(*option_strobes).c("idle").c(n=2)

    def recover_to_idle(self, *option_strobes, trigger="ts1"):
        self.c(trigger).c(n=2).c("burst").c("ts1").c().c("ts2", *option_strobes).c("burst").c(n=2).c("burst").c()
        return self

    def recover(self, *option_strobes, trigger="ts1"):
        return self.recover_to_idle(*option_strobes, trigger=trigger).c("idle").c(n=2)

    def hot_reset_from_idle(self):
        """after *_idle(... "hot"): Hot Reset.Active -> Hot Reset.Exit -> U0"""
        return self.c(n=2).c("ts2", "hot").c("burst", "hot").c("ts2").c("burst").c(n=2).c("idle").c(n=2)


# ------------------------------------------------------------------------------------------------------
# Model constants

def _sets(singles, pairs=()):
    items = ["{}"] + ['{"%s"}' % s for s in singles] + ['{"%s", "%s"}' % p for p in pairs]
    return "{" + ", ".join(items) + "}"


PAIRS = [("pd", "npd"), ("ts1", "ts2"), ("ts1", "its1"), ("burst", "ts2"), ("burst", "ts1"), ("burst", "hot"),
         ("idle", "hot"), ("idle", "loop"), ("ts2", "hot"), ("ts2", "nscr"), ("ts2", "loop"), ("lfps", "ts1"),
         ("burst", "idle"), ("ts1", "rec")]

# scaled constants of the exhaustive model: order and (in)equalities between the thresholds are those of the
# real ones (T2 < T12 < T360; LfpsAfter < LfpsMin)
MC_BASE = {"T12": 6, "T2": 4, "T360": 9, "LfpsMin": 3, "LfpsAfter": 1, "SlackHi": 1, "SlackLo": 1, "QuietQ": 2,
           "MaxSent": 5, "AgeCap": 13, "NEdges": len(FSM_EDGES)}

# name -> (strobe sets, SentVals, InitSent, Toggles, LoosenVals)
MC_CONFIGS = {
    "train":   (_sets(["pd", "npd", "ts1", "its1", "ts2", "burst", "idle", "rec"]), "{3}", 3, "{}", "{TRUE}"),
    "hot":     (_sets(["pd", "ts1", "ts2", "burst", "idle", "hot", "loop"]), "{3}", 3, "{}", "{TRUE}"),
    "scr":     (_sets(["pd", "ts1", "ts2", "burst", "idle", "nscr"]), "{3}", 3, '{"dscr"}', "{TRUE}"),
    "lfps":    (_sets(["pd", "lfps", "ts1"]), "{0, 3, 4, 5}", 0, '{"phy"}', "{TRUE, FALSE}"),
    "strict":  (_sets(["pd", "lfps", "ts1", "ts2", "burst", "idle"]), "{0, 3, 4, 5}", 0, "{}", "{FALSE}"),
    "pairs":   (_sets(["pd", "ts1", "ts2", "burst", "idle", "hot", "rec"],
                      [("ts1", "ts2"), ("burst", "ts2"), ("burst", "ts1"), ("idle", "hot"), ("ts2", "hot"), ("burst", "idle"),
                       ("burst", "hot"), ("ts1", "rec")]), "{3}", 3, "{}", "{TRUE}"),
    "all":     (_sets(STROBES), "{3, 5}", 3, '{"dscr"}', "{TRUE}"),
}
MC_QUICK = ["train", "hot", "scr", "lfps"]

SIM_CONST = dict(REAL_CONST, LfpsMin=16, LfpsAfter=4, MaxSent=32767, AgeCap=100000, NEdges=len(FSM_EDGES),
                 SentVals="{0, 5, 12, 13, 15, 16, 17, 19, 20, 21, 24, 40}", InitSent=0, Toggles='{"phy", "dscr"}',
                 StrobeSets=_sets(STROBES, PAIRS), LoosenVals="{TRUE, FALSE}")


def mc_cfg(name):
    sets, sent, init, toggles, loosen = MC_CONFIGS[name]
    d = dict(MC_BASE, StrobeSets=sets, SentVals=sent, InitSent=init, Toggles=toggles, LoosenVals=loosen)
    return tlc.render_cfg(_cfg("MCLtssm.cfg.tmpl"), d), d


def sim_cfg(spec):
    return tlc.render_cfg(_cfg("MCLtssm_sim.cfg.tmpl"), dict(SIM_CONST, Spec=spec))


def trace_cfg(lockstep, clk=None):
    return tlc.render_cfg(_cfg("LtssmTrace.cfg.tmpl"), dict((clk or PRIMARY).const, Lockstep="TRUE" if lockstep else "FALSE"))


# ------------------------------------------------------------------------------------------------------
# spec -> code: behaviours generated by TLC from the specification

def behaviour_to_script(beh):
    """[(action, state)] -> (loosen, script, model FSM edges taken by single-transition steps)"""
    script, edges = [], []
    prev = beh[0][1]["ref"]["st"]
    for action, st in beh[1:]:
        script.append((dict(st["in"]), int(st["n"])))
        cur = st["ref"]["st"]
        if cur != prev:
            edges.append((prev, cur))
        prev = cur
    return bool(beh[0][1]["ref"]["lo"]), script, edges


def simulate_scripts(spec, num, depth, seed):
    behs = tlc.simulate(SPEC_DIR, "MCLtssm", sim_cfg(spec), num=num, depth=depth, seed=seed, timeout=3000)
    return [behaviour_to_script(b) for b in behs]


# ------------------------------------------------------------------------------------------------------
# code -> spec: a reactive link partner (beyond the model's bounds: any number of simultaneous strobes, any
# burst-count values, long runs).  It only looks at the controller's public outputs, as a partner would.

def partner(rng, cycles, withhold=(), chaos=0.0, reset_rate=0.0, recover_rate=0.02, option_rate=0.0,
            dscr_rate=0.0, lazy=0.0, clean=True, phy_glitch=0.0, sent_chaos=False, clk=None, drst_rate=0.0):
    """Generator for Bench.run.

    withhold   : strobes this partner never sends (the controller must then never report link_ready / must time out)
    chaos      : probability per cycle of adding random unrelated strobes
    reset_rate : probability per cycle of starting a warm reset (1..4 cycles).  With clean=True the reset level is
                 only raised outside the triggers of the open findings: not while the controller is visibly in
                 receiver detection / Rx.Detect.Quiet / Polling.LFPS, not in the first 3 cycles of a phase, not
                 within 4 cycles of a phase time-out, and never together with a strobe.
    lazy       : probability per decision of going quiet for a long stretch (lets time-outs fire)
    """
    clk = clk or PRIMARY
    PHASE_TIMEOUT, T12 = clk.phase_timeout, clk.T12
    lv = {"phy": True, "dscr": False, "sent": 0}
    o, fsm = None, None
    ph, age = "INIT", 0
    left = cycles
    rst_left = 0
    sub = 0
    while left > 0:
        i = dict(NO_INPUT, **lv)
        n = 1
        strobes = set()
        if rst_left > 0:
            i["rst"] = True
            rst_left -= 1
        else:
            # what a cooperative partner does next
            if ph == "DETECT":
                strobes.add("pd" if rng.random() < 0.85 else "npd")
            elif ph == "LFPS":
                lv["sent"] = rng.randint(0, 30000) if sent_chaos and rng.random() < 0.3 else min(lv["sent"] + rng.randint(0, 5), 30000)
                if rng.random() < 0.5:
                    strobes.add("lfps")
                if rng.random() < 0.15:
                    strobes.add("ts1")
            elif ph == "TSEQ":
                if rng.random() < 0.4:
                    strobes.add("burst")
            elif ph == "TS1":
                strobes.add(rng.choice(["burst", "ts1", "ts2", "ts1", "its1"] if rng.random() < 0.8 else ["burst"]))
            elif ph == "TS2":
                strobes.add(rng.choice(["burst", "ts2"]))
                if rng.random() < 0.3:
                    strobes.add("ts2")
                if rng.random() < option_rate:
                    strobes.add(rng.choice(["hot", "nscr", "loop", "hot", "nscr"]))
            elif ph == "IDLE":
                if rng.random() < 0.6:
                    strobes.add("idle")
            elif ph == "U0":
                if rng.random() < recover_rate:
                    strobes.add(rng.choice(["ts1", "rec"]))
                elif rng.random() < 0.5:
                    n = rng.randint(2, 40)
            elif ph in ("QUIET", "LOOP"):
                n = rng.randint(1, 60)
            if ph != "LFPS":
                lv["sent"] = 0 if not sent_chaos else rng.choice([0, 0, 3, 16, 40])
            if rng.random() < chaos:
                for _ in range(rng.randint(1, 3)):
                    strobes.add(rng.choice(STROBES))
            if rng.random() < dscr_rate:
                lv["dscr"] = not lv["dscr"]
            if rng.random() < phy_glitch:
                lv["phy"] = not lv["phy"]
            elif not lv["phy"] and rng.random() < 0.3:
                lv["phy"] = True
            if rng.random() < lazy:
                strobes.clear()
                t = PHASE_TIMEOUT.get(ph, 60)
                n = rng.choice([t - age - 1, t - age, t - age + 1, t - age + 2, t + 5, 7]) if t - age > 3 else rng.randint(2, 9)
            strobes -= set(withhold)
            i = dict(NO_INPUT, **lv)
            for s in strobes:
                i[s] = True
            if rng.random() < reset_rate:
                t = PHASE_TIMEOUT.get(ph)
                safe = (ph not in ("DETECT", "QUIET", "LFPS", "INIT", "NONE") and age >= 3
                        and (t is None or ph == "TS2" or abs(t - age) > 4) and (ph != "TS2" or abs(T12 - age) > 4))
                if not clean or safe:
                    if clean:
                        i = dict(NO_INPUT, **lv)
                        n = 1
                    i["rst"] = True
                    rst_left = rng.randint(0, 3)
        if rst_left == 0 and not i["rst"] and rng.random() < drst_rate:
            i = dict(NO_INPUT, **lv)             # the domain reset comes alone (it is not one of the controller's ports)
            i["drst"] = True
        if n > 1 and not is_quiet(i):
            n = 1
        n = max(1, min(n, left))
        o, fsm = yield (i, n)
        left -= n
        p2 = phase(o)
        # age of the visible phase after these n cycles (approximation used only to steer the stimulus)
        age = age + n if p2 == ph else 1
        ph = p2


# ------------------------------------------------------------------------------------------------------
# Directed scenarios

def directed_scripts(clk=None):
    """[(name, class, script)] — class 'clean' (any rejection is a violation) or 'witness' (hits the trigger of an
    open finding; expected to be rejected with that finding's signature on the unchanged tree)."""
    clk = clk or PRIMARY
    T12, T2, T360 = clk.T12, clk.T2, clk.T360
    S = Script
    out = []

    def add(name, s, klass="clean"):
        out.append((name, klass, s.items))

    # plain bring-up, recovery, hot reset, with a long stay in U0
    add("bringup", S().to_u0().wait(700).recover().wait(40).recover(trigger="rec").wait(5000))
    add("hot-reset-in-polling", S().to_polling_idle("hot").hot_reset_from_idle().wait(30).recover().wait(10))
    add("hot-reset-in-recovery", S().to_u0().recover_to_idle("hot").hot_reset_from_idle().wait(30))
    add("loopback", S().to_polling_idle("loop").wait(300).c(rst=True).c(rst=True).wait(3).to_u0())
    add("loopback-in-recovery", S().to_u0().recover_to_idle("loop").wait(50))
    # scrambling options: local request, partner request, and their disappearance after a re-training
    add("scrambling-local", S(dscr=True).to_u0().wait(5).c(dscr=False).wait(5).recover().wait(10))
    add("scrambling-partner", S().to_u0("nscr").wait(10).recover().wait(10).recover("nscr").wait(10).recover().wait(10))
    add("scrambling-late-request", S().to_u0().wait(5).c("nscr").wait(5).c(dscr=True).wait(5).recover().wait(9))
    # disable_scrambling is sampled on entry to Polling.RxEQ / Polling.Active / Recovery.Active: change it right after
    add("scrambling-local-dropped-after-sampling", S(dscr=True).to_rxeq().c("burst", sent=0).c(dscr=False).c("burst").c("ts1").c()
        .c("ts2").c("burst").c(n=2).c("burst").c().c("idle").wait(4).c("ts1").c(dscr=True).wait(2).c("burst").c("ts1").c().c("ts2")
        .c("burst").c(n=2).c("burst").c().c("idle").wait(4))
    add("scrambling-local-raised-after-sampling", S().to_rxeq().c("burst", sent=0).c(dscr=True).c("burst").c("ts1").c()
        .c("ts2").c("burst").c(n=2).c("burst").c().c("idle").wait(4).c(dscr=False).c("rec").c(dscr=True).wait(2).c("burst").c("ts2").c().c("ts2")
        .c("burst").c(n=2).c("burst").c().c("idle").wait(4))
    add("scrambling-hot-reset", S().to_polling_idle("hot", "nscr").hot_reset_from_idle().wait(10).recover().wait(10))
    # every timed substate: quiet until just before, exactly at and after the time-out, then the event it waited for
    for d in (-2, -1, 0, 1):
        add("rxdetect-quiet%+d" % d, S().c(n=2).c("npd").wait(T12 + d).c("pd").wait(4))
        add("polling-lfps%+d" % d, S().to_lfps().wait(T360 + d - 1).c("ts1", sent=20).wait(4))
        add("polling-lfps-seen%+d" % d, S().to_lfps().c("lfps").wait(T360 + d - 2).c("lfps", sent=20).c(sent=30).wait(4))
        add("polling-active%+d" % d, S().to_polling_active().c("burst").wait(T12 + d - 2).c("ts1").wait(4))
        add("polling-config%+d" % d, S().to_polling_config().c("ts2").wait(T12 + d - 2).c("burst").wait(4).c("burst").wait(3))
        add("polling-idle%+d" % d, S().to_polling_idle().wait(T2 + d - 1).c("idle").wait(4))
        add("hot-active%+d" % d, S().to_polling_idle("hot").wait(2).c("ts2").wait(T12 + d - 2).c("burst").wait(4))
        add("hot-exit%+d" % d, S().to_polling_idle("hot").wait(2).c("ts2").c("burst").wait(T2 + d).c("idle").wait(4))
        add("recovery-active%+d" % d, S().to_u0().c("rec").c("burst").wait(T12 + d - 2).c("ts2").wait(4))
        add("recovery-config%+d" % d, S().to_u0().c("ts1").c("burst").c("ts2").wait(T12 + d - 1).c("burst").wait(4).c("burst").wait(3))
        add("recovery-idle%+d" % d, S().to_u0().recover_to_idle().wait(T2 + d - 1).c("idle").wait(4))
        add("inactive-quiet%+d" % d, S().to_u0().c("rec").wait(T12 + 3).wait(T12 + d - 3).c("pd").wait(T12 + 4).c("npd").wait(4))
    # the untimed tail of *.Configuration (one more TS2 burst) may last longer than 12 ms
    add("config-exit-long", S().to_polling_config().c("ts2").c("burst").wait(T12 * 3).c("burst").wait(2).c("idle").wait(5))
    # things that must NOT lead to U0: missing TS2, TS1 instead of TS2, idle handshake before its time, ...
    add("no-ts2", S().to_polling_config().c("ts1").c("burst").c("ts1", "burst").c("burst").c("idle").c("idle", n=T12))
    add("idle-early", S().to_polling_config().c("ts2").c("idle").c("burst").c("idle").wait(2).c("burst").wait(1).c("idle").wait(5))
    add("recovery-no-ts2", S().to_u0().c("ts1").c("burst").c("ts1").c("ts1").c("burst").c("burst").c("idle").c("idle", n=T12 + T2))
    add("recovery-no-idle", S().to_u0().recover_to_idle().wait(T2 + 5).c("idle").wait(T12 * 2 + 10))
    add("hot-no-ts2", S().to_polling_idle("hot").wait(2).c("burst").c("burst", "idle").c("idle").wait(T12 + 10))
    add("lfps-too-few", S().to_lfps().c("lfps", sent=3).c(sent=7).c("ts1").c(sent=15).c("ts1", "lfps").c("burst").wait(5)
        .c(sent=16).c("lfps").c(sent=19).wait(3).c(sent=20).wait(3))
    add("lfps-late-first-burst", S().to_lfps().c(sent=14).c("lfps").c(sent=16).c(sent=17).wait(2).c(sent=18).wait(3).c("burst").wait(3))
    add("partner-lost", S().c(n=2).c("npd").wait(T12 + 1).c("npd").wait(T12 + 1).c("pd").wait(T360 + 3).wait(5))
    add("phy-not-ready", S(phy=False).wait(30).c(rst=True, n=1).c(rst=True).wait(5).c(phy=True).wait(3).to_u0())
    # warm resets in every substate that the unchanged controller handles, held for 1 and for 3 cycles, always alone
    for hold in (1, 3):
        for name, prefix in (("rxeq", lambda: S().to_rxeq()), ("polling-active", lambda: S().to_polling_active()),
                             ("polling-config", lambda: S().to_polling_config().c("ts2")),
                             ("polling-config-exit", lambda: S().to_polling_config().c("ts2").c("burst").wait(2)),
                             ("polling-idle", lambda: S().to_polling_idle().wait(3)),
                             ("u0", lambda: S().to_u0()), ("recovery-active", lambda: S().to_u0().c("ts1").wait(3)),
                             ("recovery-idle", lambda: S().to_u0().recover_to_idle().wait(3)),
                             ("hot-active", lambda: S().to_polling_idle("hot").wait(4)),
                             ("hot-exit", lambda: S().to_polling_idle("hot").wait(2).c("ts2").c("burst").wait(3)),
                             ("inactive", lambda: S().to_u0().c("rec").wait(T12 + 5))):
            s = prefix()
            for _ in range(hold):
                s.c(rst=True)
            add("reset%d-%s" % (hold, name), s.wait(4).to_u0().wait(3))
    # --- witnesses of the open findings -------------------------------------------------------------------
    add("W-race-polling-idle", S().to_polling_idle().wait(2).c("idle", rst=True).c(rst=True).c(rst=True).wait(5), "witness")
    add("W-race-recovery-idle", S().to_u0().recover_to_idle().wait(2).c("idle", rst=True).c(rst=True).wait(5), "witness")
    add("W-race-hot-exit", S().to_polling_idle("hot").wait(2).c("ts2").c("burst").wait(2).c("idle", rst=True).c(rst=True).wait(5), "witness")
    add("W-race-u0-ts1", S().to_u0().wait(3).c("ts1", rst=True).wait(2).c("burst").c("ts1").c().c("ts2").c("burst").c(n=2)
        .c("burst").c().c("idle").wait(5), "witness")
    add("W-race-timeout", S().to_polling_active().wait(T12 - 1).c(rst=True).wait(3).c("pd").to_rxeq().c("burst", sent=0).c()
        .c("burst").c("ts1").c().c("ts2").c("burst").c(n=2).c("burst").c().c("idle").wait(5), "witness")
    add("W-early-polling-lfps", S().to_lfps().wait(3).c(rst=True).c(rst=True).wait(3).c("lfps", sent=10).c(sent=16, n=2)
        .c("burst", sent=0).c().c("burst").c("ts1").c().c("ts2").c("burst").c(n=2).c("burst").c().c("idle").wait(5), "witness")
    add("W-early-rxdetect-active", S().c(n=3).c(rst=True).wait(2).c("pd").c().c("lfps", sent=10).c(sent=16, n=2)
        .c("burst", sent=0).c().c("burst").c("ts1").c().c("ts2").c("burst").c(n=2).c("burst").c().c("idle").wait(5), "witness")
    add("W-early-rxdetect-quiet", S().c(n=2).c("npd").wait(5).c(rst=True).wait(T12).c("pd").c().c("lfps", sent=10).c(sent=16, n=2)
        .c("burst", sent=0).c().c("burst").c("ts1").c().c("ts2").c("burst").c(n=2).c("burst").c().c("idle").wait(5), "witness")
    # --- reset of the "ss" clock domain (power-on reset of the gateware) in the middle of things: link_ready must be
    #     gone in the next cycle and come back only through a complete training; timers start afresh
    for hold in (1, 3):
        for name, prefix in (("lfps", lambda: S().to_lfps().c("lfps", sent=5)), ("rxeq", lambda: S().to_rxeq()),
                             ("polling-active", lambda: S().to_polling_active().c("burst")),
                             ("polling-config", lambda: S().to_polling_config().c("ts2")),
                             ("polling-idle", lambda: S().to_polling_idle("nscr").wait(T2 - 3)),
                             ("u0", lambda: S(dscr=True).to_u0().wait(9)),
                             ("recovery-config", lambda: S().to_u0().c("ts1").c("burst").c("ts2").wait(T12 - 4)),
                             ("recovery-idle", lambda: S().to_u0().recover_to_idle("hot")),
                             ("hot-active", lambda: S().to_polling_idle("hot").wait(4)),
                             ("loopback", lambda: S().to_polling_idle("loop").wait(6)),
                             ("inactive", lambda: S().to_u0().c("rec").wait(T12 + 5)),
                             ("disabled", lambda: S().to_lfps().c("lfps").wait(T360 + 3))):
            s = prefix()
            for _ in range(hold):
                s.c(drst=True)
            add("domain-reset%d-%s" % (hold, name), s.c(dscr=False).wait(3).to_u0().wait(T2 + 5).recover().wait(3))
    add("domain-reset-with-events", S().to_polling_idle().wait(2).c("idle", drst=True).c("idle").wait(3).to_u0().c("ts1", drst=True).wait(4))
    add("domain-reset-in-warm-reset", S().to_u0().c(rst=True).c(rst=True, drst=True).c(rst=True).wait(3).to_u0().wait(4))
    return out


# ------------------------------------------------------------------------------------------------------
# Classification of rejections (for known-finding matching only; uses the logged real FSM state name)

STATE_TIMEOUT = {RDQ: T12, PAC: T12, PCF: T12, HRA: T12, RAC: T12, RCF: T12, SIQ: T12, PID: T2, HRX: T2, RID: T2, PLF: T360}


def _state_timeout(clk, state):
    clk = clk or PRIMARY
    return clk.T360 if state == PLF else clk.T2 if state in (PID, HRX, RID) else clk.T12 if state in STATE_TIMEOUT else None


def classify(trace, matched, status, meta):
    """Normalised cause of a rejection.  The monitors restart their history at every reset cycle; when the controller
    did not honour that reset, whatever clause fails afterwards (until the next honoured reset) is a consequence of
    it, so the cause is looked up at the last reset cycle before the failing record."""
    trace = trace["steps"] if isinstance(trace, dict) else trace
    pattern = "other"
    k = matched if status != "ok" else matched + 1          # 1-based index of the failing record
    j = None
    if status == "reset_link_ready":
        j = k - 2 if k >= 2 and trace[k - 2]["i"]["rst"] else None      # the cycle before link_ready was seen
    else:
        for x in range(min(k - 1, len(trace)) - 1, -1, -1):             # the last reset before the failing cycle
            if trace[x]["i"]["rst"]:
                j = x
                break
    if j is not None:
        rr = trace[j]
        nxt = trace[j + 1]["fsm"] if j + 1 < len(trace) else None
        # cycles already spent in the FSM state when the reset level was sampled
        spent = 0
        x = j - 1
        while x >= 0 and trace[x]["fsm"] == rr["fsm"]:
            spent += trace[x]["n"]
            x -= 1
        strobes = any(rr["i"][s] for s in STROBES)
        if rr["fsm"] == RDR or nxt == RDR:
            pattern = "after_honoured_reset"
        elif rr["fsm"] == PLF:
            pattern = "reset_in_polling_lfps"
        elif rr["fsm"] in (RDA, RDQ):
            pattern = "reset_in_rxdetect"
        elif strobes or spent == _state_timeout(meta.get("clk"), rr["fsm"]) or (rr["fsm"] in (PID, RID) and spent <= 1):
            pattern = "reset_coincides_with_other_transition"
        else:
            pattern = "reset_alone_not_honoured"
    return {"clause": status, "pattern": pattern}


def fsm_edges_of(trace):
    """real FSM transitions with the input vector of the deciding cycle"""
    out = []
    for a, b in zip(trace, trace[1:]):
        if a["fsm"] != b["fsm"]:
            i = a["i"] if a["n"] == 1 else quieten(a["i"])
            cause = tuple(s for s in ["rst"] + STROBES if i[s])
            out.append((a["fsm"], b["fsm"], cause))
    return out


# ------------------------------------------------------------------------------------------------------
# The check



# ------------------------------------------------------------------------------------------------------
# The check

def _run_tour():
    import json
    cfg = tlc.render_cfg(_cfg("LtssmTour.cfg.tmpl"),
                         dict(REAL_CONST, LoosenVals="{TRUE, FALSE}", AvoidRaces="TRUE",
                              StrobeSets=_sets(STROBES, [("ts2", "hot"), ("ts2", "loop"), ("ts2", "nscr")]),
                              SentVals="{0, 10, 16, 20}"))
    with tlc.scratch("tlc-tour-") as d:
        f = os.path.join(d, "tour.json")
        res = tlc.model_check(SPEC_DIR, "LtssmTour", cfg, workers=1, timeout=3000, env={"TOUR_FILE": f}, coverage=False)
        with open(f) as fh:
            tour = json.load(fh)
    return res, tour


def _verdict_pass(rep, items, cross, clk=None):
    """Monitors pass over all recorded traces (verdict-bearing) plus, in the same TLC run, the per-cycle expansions of
    the traces in `cross` (indices into items), whose verdicts must agree with those of the compressed traces."""
    logs = [{"loosen": m["loosen"], "steps": t} for t, m in items]
    logs += [{"loosen": items[k][1]["loosen"], "steps": expand(items[k][0])} for k in cross]
    verdicts, res = tlc.validate_traces(SPEC_DIR, "LtssmTrace", trace_cfg(False, clk), logs, timeout=6000)
    ok = steps = 0
    for (tr, meta), (matched, status) in zip(items, verdicts):
        if status == "ok" and matched == len(tr):
            ok += 1
            steps += len(tr)
            continue
        sig = classify(tr, matched, status, meta)
        k = matched if status != "ok" else matched + 1
        what = ("LTSSMController(ss_clock_frequency=" + repr(clk or PRIMARY) + ", loosen_requirements=%s) %s '%s' [%s]: real-gateware trace rejected by LtssmTrace at record "
                "%d/%d, clause '%s' (%s); last records: %s"
                % (meta["loosen"], meta["origin"], meta["name"], meta["class"], k, len(tr), status, sig["pattern"],
                   [{"n": r["n"], "fsm": r["fsm"], "in": [x for x in ["rst"] + STROBES if r["i"][x]],
                     "out": [x for x, v in r["o"].items() if v]} for r in tr[max(0, k - 3):k]]))
        rep.violation(sig, what, {"meta": meta, "failing_record": k, "clause": status, "trace_prefix": tr[:k + 1]})
    rep.add_traces(ok, steps)
    for n, k in enumerate(cross):
        tr, meta = items[k]
        (m1, s1), (m2, s2) = verdicts[k], verdicts[len(items) + n]
        a1 = s1 == "ok" and m1 == len(tr)
        a2 = s2 == "ok" and m2 == trace_cycles(tr)
        if a1 != a2 or s1 != s2:
            raise tlc.TLCError("event compression changes the verdict of trace %s: compressed %s, per-cycle %s"
                               % (meta, (m1, s1), (m2, s2)))
    return res


def check_C41(rep):
    quick = rep.tier == "quick"
    rep.rule = ("real-LTSSM cycles recorded (event-compressed) and validated against the monitors of Ltssm.tla; a case is "
                "non-trivial when the real FSM changes state; distinct by (loosen, from-state, to-state, asserted inputs of "
                "the deciding cycle)")
    rep.assume("ss_clock_frequency = 10 kHz: 12 ms / 2 ms / 360 ms = 120 / 20 / 3600 cycles; a timed phase may outlast its "
               "time-out by at most 2 cycles and a quiet exit may come at most 2 cycles early")
    rep.assume("an input acts within 3 cycles (QuietQ): a timed phase left after 3 or more quiet cycles counts as left by time-out")
    rep.assume("lfps_cycles_sent < 2^15 (the 16-bit burst target does not wrap)")
    rep.assume("a reset is in_usb_reset = 1 in any cycle (warm reset, VBUS loss and power-on reset all arrive on this input); "
               "'since the last reset' also restarts when the controller visibly falls back to electrical idle")
    rep.assume("clean stimuli never raise in_usb_reset (a) in a cycle in which the controller takes another transition "
               "(input event or time-out) or (b) while it is in Rx.Detect.Active/Quiet or Polling.LFPS - the triggers of the "
               "two open findings; witness/race stimuli do exactly that")
    rep.assume("the synthetic *.Configuration.Exit substates (one more TS2 burst) are untimed, as documented in the module")

    pool = ThreadPoolExecutor(max_workers=8)
    seed = rep.seed

    # 1. TLC jobs in the background: exhaustive exploration of the specification (scaled constants), transition tour of
    #    the reference machine, simulated behaviours (both at the real controller's constants)
    mc_names = MC_QUICK if quick else list(MC_CONFIGS)
    mc_jobs = {}
    for name in mc_names:
        cfg, consts = mc_cfg(name)
        mc_jobs[name] = (pool.submit(tlc.model_check, SPEC_DIR, "MCLtssm", cfg, 2 if quick else 4, 3000), consts)
    tour_job = pool.submit(_run_tour)
    nsim = (20, 12, 50) if quick else (400, 300, 80)
    sim_jobs = [("clean", pool.submit(simulate_scripts, "SimClean", nsim[0], nsim[2], seed * 11 + 1)),
                ("race", pool.submit(simulate_scripts, "SimAny", nsim[1], nsim[2], seed * 13 + 5))]

    # 2. meanwhile: directed scenarios and reactive partners on the real controller
    benches = {lo: Bench(loosen=lo) for lo in (True, False)}
    items = []       # (trace, meta)

    def run(lo, source, meta):
        items.append((benches[lo].run(source), dict(meta, loosen=lo)))

    for name, klass, script in directed_scripts():
        for lo in (True, False):
            run(lo, script, {"origin": "directed", "name": name, "class": klass})

    rng = rep.rng
    n_part = 3 if quick else 30
    cyc = 2000 if quick else 6000
    profiles = [
        ("eager", dict(recover_rate=0.05, option_rate=0.1)),
        ("lazy", dict(lazy=0.12, recover_rate=0.05)),
        ("options", dict(option_rate=0.5, dscr_rate=0.02, recover_rate=0.08)),
        ("chaos", dict(chaos=0.15, lazy=0.03, option_rate=0.2, sent_chaos=True, phy_glitch=0.01)),
        ("resets", dict(reset_rate=0.03, recover_rate=0.05, option_rate=0.2, lazy=0.03)),
        ("no-ts2", dict(withhold=("ts2",), lazy=0.02)),
        ("no-idle", dict(withhold=("idle",), lazy=0.02)),
        ("no-lfps", dict(withhold=("lfps",), lazy=0.01)),
        ("no-burst", dict(withhold=("burst",), lazy=0.05)),
        ("no-ts1-ts2", dict(withhold=("ts1", "ts2", "its1"), lazy=0.05, chaos=0.05)),
        ("no-ts2-chaos", dict(withhold=("ts2",), chaos=0.3)),
        ("domain-resets", dict(drst_rate=0.01, reset_rate=0.01, recover_rate=0.06, option_rate=0.2, lazy=0.03)),
    ]
    for pname, kw in profiles:
        for k in range(n_part):
            run(k % 3 != 2, partner(rng, cyc, clean=True, **kw), {"origin": "partner", "name": "%s-%d" % (pname, k), "class": "clean"})
    for k in range(n_part * 2):
        run(k % 3 != 2, partner(rng, cyc, clean=False, reset_rate=0.05, chaos=0.1, option_rate=0.2, recover_rate=0.05, lazy=0.03),
            {"origin": "partner", "name": "reset-races-%d" % k, "class": "race"})

    # 2b. other configurations of the controller: further values of ss_clock_frequency (time-outs that need the ceil(),
    #     a timer one bit wider, ...), the constructor default (thorough), LUNA_COMPLIANCE set at elaboration time
    others = {}       # Clk -> [(trace, meta)]
    # quick: one further clock in full (rotated by the seed) and the 2^12-cycle boundary clock with the time-out scenarios only
    hz_list = [(SECONDARY_HZ[seed % len(SECONDARY_HZ)], True)] if quick else [(hz, True) for hz in SECONDARY_HZ]
    if SECONDARY_HZ[-1] not in [hz for hz, _ in hz_list]:
        hz_list.append((SECONDARY_HZ[-1], False))
    lite = ("bringup", "polling-lfps", "partner-lost", "rxdetect-quiet", "polling-idle", "recovery-active", "domain-reset1-disabled")
    for hz, full in hz_list:
        clk = Clk(hz)
        b2 = {lo: Bench(loosen=lo, clk=clk) for lo in (True, False)}
        lst = others.setdefault(clk, [])
        for k, (name, klass, script) in enumerate(directed_scripts(clk)):
            if not full and not name.startswith(lite):
                continue
            lo = (k + seed) % 2 == 0
            lst.append((b2[lo].run(script), {"origin": "directed", "name": name, "class": klass, "loosen": lo, "clk": clk}))
        for k, (pname, kw) in enumerate([("eager", dict(recover_rate=0.05, option_rate=0.2)), ("lazy", dict(lazy=0.12, recover_rate=0.05)),
                                         ("resets", dict(reset_rate=0.03, drst_rate=0.005, recover_rate=0.05, lazy=0.03)),
                                         ("no-ts2", dict(withhold=("ts2",), lazy=0.03)), ("no-idle", dict(withhold=("idle",), lazy=0.03)),
                                         ("chaos", dict(chaos=0.15, lazy=0.03, option_rate=0.2, sent_chaos=True))]):
            for r in range((1 if quick else 4) if full else 0):
                lo = (k + r) % 2 == 0
                lst.append((b2[lo].run(partner(rng, cyc, clean=True, clk=clk, **kw)),
                            {"origin": "partner", "name": "%s-%d" % (pname, r), "class": "clean", "loosen": lo, "clk": clk}))
        rep.add_eval(sum(b.cycles for b in b2.values()))
    if not quick:
        clk = Clk(DEFAULT_HZ)
        b3 = Bench(loosen=True, clk=clk)
        lst = others.setdefault(clk, [])
        for name, script in (("default-clock-polling-idle-2ms", Script().to_polling_idle().wait(clk.T2 + 6).to_u0().wait(5).items),
                             ("default-clock-rxdetect-quiet-12ms", Script().c(n=2).c("npd").wait(clk.T12 + 6).c("pd").wait(5).items)):
            lst.append((b3.run(script), {"origin": "directed", "name": name, "class": "clean", "loosen": True, "clk": clk}))
        rep.add_eval(b3.cycles)
    bc = Bench(loosen=True, compliance=True)
    for name, script in (("compliance-stays", Script().to_lfps().wait(T360 + 300).c("ts1", sent=20).c("pd").wait(50).c(rst=True).wait(3).to_u0().wait(5).items),
                         ("compliance-domain-reset", Script().to_lfps().wait(T360 + 30).c(drst=True).wait(3).to_u0().wait(5).items)):
        items.append((bc.run(script), {"origin": "directed", "name": name, "class": "clean", "loosen": True, "nolock": "LUNA_COMPLIANCE"}))
    rep.add_eval(bc.cycles)

    # 3. collect the TLC jobs; replay tour and simulated behaviours
    for name, (fut, consts) in mc_jobs.items():
        res = fut.result()
        rep.add_mc("MCLtssm[%s]" % name, res, {k: consts[k] for k in ("T12", "T2", "T360", "LfpsMin", "LfpsAfter", "LoosenVals",
                                                                     "StrobeSets", "SentVals", "Toggles", "QuietQ", "SlackHi", "SlackLo")})
    res, tour = tour_job.result()
    found = {(e["from"], e["to"]) for e in tour}
    if found != set(FSM_EDGES):
        raise tlc.TLCError("transition tour: edges of the reference machine differ from FsmEdges: missing %s, extra %s"
                           % (sorted(set(FSM_EDGES) - found), sorted(found - set(FSM_EDGES))))
    rep.add_mc("LtssmTour (reference machine only, constants of the 10 kHz controller)", res,
               {"T12": T12, "T2": T2, "T360": T360, "LoosenVals": "{TRUE, FALSE}"})
    for e in tour:
        script = [(dict(p["i"]), int(p["n"])) for p in e["path"]] + [(quieten(e["path"][-1]["i"]), 8)]
        klass = "witness" if (e["from"], e["to"]) in EARLY_RESET_EDGES else "clean"
        meta = {"origin": "tour", "name": "%s -> %s (%s)" % (e["from"], e["to"], e["cause"]), "class": klass}
        run(bool(e["loosen"]), script, meta)
        if not quick:
            run(not e["loosen"], script, dict(meta, name=meta["name"] + " [other loosen]"))
    for klass, fut in sim_jobs:
        for k, (lo, script, edges) in enumerate(fut.result()):
            run(lo, script, {"origin": "tlc-simulate", "name": "%s-%d" % (klass, k), "class": klass})

    # 4. validation: verdict pass (monitors only) and, concurrently, drift pass (reference machine in lock-step)
    rep.add_eval(sum(b.cycles for b in benches.values()))
    lock_items = [(t, m) for t, m in items if not m.get("nolock")]
    lock_job = pool.submit(tlc.validate_traces, SPEC_DIR, "LtssmTrace", trace_cfg(True),
                           [{"loosen": m["loosen"], "steps": t} for t, m in lock_items], 6000)
    other_lock = {clk: pool.submit(tlc.validate_traces, SPEC_DIR, "LtssmTrace", trace_cfg(True, clk),
                                   [{"loosen": m["loosen"], "steps": t} for t, m in lst], 6000) for clk, lst in others.items()}
    cross, budget = [], (10000 if quick else 80000)
    for k, (tr, meta) in enumerate(items):
        c = trace_cycles(tr)
        if len(tr) < c <= 1200 and c <= budget and (meta["class"] != "clean" or k % 2 == 0):
            budget -= c
            cross.append(k)
    _verdict_pass(rep, items, cross)
    for clk, lst in others.items():
        _verdict_pass(rep, lst, [k for k, (tr, _) in enumerate(lst) if len(tr) < trace_cycles(tr) <= 400][:12], clk)
    rep.notes.append("event compression cross-checked on %d traces (same verdict with one record per cycle)" % len(cross))

    real_edges, real_states = set(), set()
    for tr, meta in items + [x for lst in others.values() for x in lst]:
        real_states.update(r["fsm"] for r in tr)
        for a, b, cause in fsm_edges_of(tr):
            real_edges.add((a, b))
            rep.nontriv((meta["loosen"], str(meta.get("clk", "")), a, b) + cause)

    # drift (never a verdict): first record at which the real controller leaves the reference machine
    n_drift = {"clean": 0, "witness": 0, "race": 0}
    lock_results = list(zip(lock_items, lock_job.result()[0]))
    for clk, fut in other_lock.items():
        lock_results += list(zip(others[clk], fut.result()[0]))
    for (tr, meta), (m, st) in lock_results:
        if st == "ok" and m == len(tr):
            continue
        n_drift[meta["class"]] += 1
        if meta["class"] == "clean":
            r = tr[m - 1] if 0 < m <= len(tr) else None
            rep.drift.append({"trace": {k: str(v) for k, v in meta.items()}, "record": m, "what": st, "real_fsm": r and r["fsm"],
                              "inputs": r and [x for x in ["rst"] + STROBES if r["i"][x]]})
    rep.notes.append("lock-step with the reference machine (all outputs and the FSM state name, every cycle): %d clean traces "
                     "drift; %d witness and %d reset-race traces drift (expected while the findings are open)"
                     % (n_drift["clean"], n_drift["witness"], n_drift["race"]))

    rep.extra["configurations"] = {"primary": repr(PRIMARY), "other_clocks": [repr(c) for c in others],
                                   "loosen_requirements": [True, False], "LUNA_COMPLIANCE": ["unset", "set (monitors only)"]}
    rep.extra["transition_tour"] = {"stimuli": len(tour), "model_edges_covered": len(found), "model_edges": len(FSM_EDGES)}
    rep.extra["real_fsm_coverage"] = {
        "states_visited": len(real_states & set(_S)), "states_of_reference": len(_S),
        "states_not_visited": sorted(set(_S) - real_states),
        "edges_visited": len(real_edges & set(FSM_EDGES)), "edges_of_reference": len(FSM_EDGES),
        "reference_edges_not_taken_by_real_fsm": sorted(map(list, set(FSM_EDGES) - real_edges)),
        "real_edges_outside_reference": sorted(map(list, real_edges - set(FSM_EDGES))),
        "note": "SS.Disabled.Error of the real FSM has no incoming transition"}
    shown = set()
    for tr, meta in items:
        if meta["origin"] not in shown and len(tr) > 12:
            shown.add(meta["origin"])
            rep.sample({"trace": meta, "cycles": trace_cycles(tr), "first_records": tr[:8]})
    pool.shutdown()


CHECKS = {"C41": check_C41}
