---------------------------- MODULE TrainingSets ----------------------------
(***************************************************************************)
(* Training ordered sets (C43): TSEmitter and TSBurstDetector of           *)
(* luna/gateware/usb/usb3/link/ordered_sets.py.                            *)
(*                                                                         *)
(* An ordered set is SetLen consecutive words SetWords[1..SetLen]; the     *)
(* first word carries control symbols (ctrl = FirstCtrl: COM x4 for        *)
(* TS1/TS2, one COM for TSEQ), the others none.  When HasCfg (TS2), the    *)
(* second word's symbols 4 and 5 are not fixed: symbol 5 is the link       *)
(* functionality field [USB3.2 Table 6-6]: bit 0 hot reset, bit 2          *)
(* loopback, bit 3 disable scrambling.                                     *)
(*                                                                         *)
(* Grain: one step = one "ss" clock cycle.                                 *)
(*  Env : emitter start / ready / request bits; any word stream into the   *)
(*        detector (valid or not).                                         *)
(*  Ref : emitter = position in the burst; detector = words matched of     *)
(*        the current set, complete consecutive sets, the report owed.     *)
(*        Free: the emitter may wait up to MaxStartLat cycles before the   *)
(*        first word; `detected` comes 1..MaxDetLat cycles after the last  *)
(*        word; the reported configuration is that of any of the counted   *)
(*        sets.  Not-valid words neither extend nor break anything.        *)
(*  Anything that is not the next word of the set in progress voids what  *)
(*  was counted (whole sets of another kind, near-miss sets, foreign       *)
(*  words, aligned or not, behind an idle gap or not); if that word is     *)
(*  itself a first word, a new set starts with it.  No Env assumption.     *)
(***************************************************************************)
EXTENDS SsLink

CONSTANTS SetWords,      \* <<<<b0,b1,b2,b3>>, ...>>  data bytes of the set's words
          FirstCtrl,     \* ctrl mask of the first word
          HasCfg,        \* TS2-style configuration field in the second word
          EmitN,         \* sets per emitter burst
          DetN,          \* consecutive sets per detection
          MaxStartLat, MaxDetLat

SetLen == Len(SetWords)
CtrlOf(k) == IF k = 1 THEN FirstCtrl ELSE 0

CfgByte(hr, lb, ns) == (IF hr THEN 1 ELSE 0) + (IF lb THEN 4 ELSE 0) + (IF ns THEN 8 ELSE 0)
CfgOf(w) == [hr |-> BitOf(w.d[2], 0) = 1, lb |-> BitOf(w.d[2], 2) = 1, ns |-> BitOf(w.d[2], 3) = 1]

\* word k (1-based) of a well-formed set?
IsSetWord(w, k) ==
    /\ w.c = CtrlOf(k)
    /\ IF HasCfg /\ k = 2 THEN w.d[3] = SetWords[2][3] /\ w.d[4] = SetWords[2][4]
       ELSE w.d = SetWords[k]

-----------------------------------------------------------------------------
(* Emitter.  e = [st, k, sets, lat]; record fields start, rdy, hr, lb, ns, ow, done. *)
EmInit == [st |-> "idle", k |-> 1, sets |-> 0, lat |-> 0]

EmExpected(e, r) ==
    IF HasCfg /\ e.k = 2
    THEN W(<<SetWords[2][1], (SetWords[2][2] % 256) + CfgByte(r.hr, r.lb, r.ns), SetWords[2][3], SetWords[2][4]>>, 0)
    ELSE W(SetWords[e.k], CtrlOf(e.k))

EmFailing(e, r) ==
    IF e.st = "idle" THEN
        (IF r.ow.v THEN "em_output_while_idle" ELSE IF r.done THEN "em_done_while_idle" ELSE "ok")
    ELSE IF ~r.ow.v THEN
        (IF r.done THEN "em_done_without_word"
         ELSE IF e.k = 1 /\ e.sets = 0 /\ e.lat < MaxStartLat THEN "ok"
         ELSE IF e.k = 1 /\ e.sets = 0 THEN "em_start_latency" ELSE "em_gap_in_burst")
    ELSE IF r.ow.c # CtrlOf(e.k) THEN "em_word_ctrl"
    ELSE IF HasCfg /\ e.k = 2 /\ r.ow.d[2] # EmExpected(e, r).d[2] THEN "em_config_bits"
    ELSE IF ~SameWord(r.ow, EmExpected(e, r)) THEN "em_word_data"
    ELSE IF r.done # (e.k = SetLen /\ e.sets = EmitN - 1 /\ r.rdy) THEN "em_done"
    ELSE "ok"

EmNext(e, r) ==
    IF e.st = "idle" THEN (IF r.start THEN [st |-> "burst", k |-> 1, sets |-> 0, lat |-> 0] ELSE e)
    ELSE IF ~r.ow.v THEN [e EXCEPT !.lat = e.lat + 1]
    ELSE IF ~r.rdy THEN e
    ELSE IF e.k < SetLen THEN [e EXCEPT !.k = e.k + 1]
    ELSE IF e.sets + 1 < EmitN THEN [e EXCEPT !.k = 1, !.sets = e.sets + 1]
    ELSE IF r.start THEN [st |-> "burst", k |-> 1, sets |-> 0, lat |-> MaxStartLat]   \* next burst follows directly
    ELSE EmInit

-----------------------------------------------------------------------------
(* Detector.  d = [k (words of the current set matched), cnt (complete     *)
(* consecutive sets), cfgs (their configurations), owe (the report due)].  *)
(* Record fields iw, det, dhr, dlb, dsd.                                   *)
DetInit == [k |-> 0, cnt |-> 0, cfgs |-> {}, owe |-> <<>>]

DetConsume(d, w) ==
    IF ~w.v THEN d
    ELSE IF IsSetWord(w, d.k + 1) THEN
        LET cf == IF HasCfg /\ d.k + 1 = 2 THEN d.cfgs \cup {CfgOf(w)} ELSE d.cfgs IN
        IF d.k + 1 < SetLen THEN [d EXCEPT !.k = d.k + 1, !.cfgs = cf]
        ELSE IF d.cnt + 1 < DetN THEN [d EXCEPT !.k = 0, !.cnt = d.cnt + 1, !.cfgs = cf]
        ELSE [d EXCEPT !.k = 0, !.cnt = 0, !.cfgs = {}, !.owe = <<[cfgs |-> cf, age |-> 0]>>]
    ELSE \* not the next word of a set: everything counted so far is void; it may begin a new set
        [d EXCEPT !.k = IF IsSetWord(w, 1) THEN 1 ELSE 0, !.cnt = 0, !.cfgs = {}]

\* Env assumption: a detection never becomes due while the previous one is still owed
DetOverrun(d, d1) == d.owe # <<>> /\ d1.owe # d.owe

\* outputs judged in d1 = DetConsume(d, r.iw), before the ageing of this cycle
DetFailing(d, d1, r) ==
    IF r.det THEN
        (IF d.owe = <<>> THEN "det_spurious"
         ELSE IF HasCfg /\ [hr |-> r.dhr, lb |-> r.dlb, ns |-> r.dsd] \notin d.owe[1].cfgs THEN "det_config_bits"
         ELSE "ok")
    ELSE IF d.owe # <<>> /\ d.owe[1].age + 1 >= MaxDetLat THEN "det_missing"
    ELSE "ok"

DetAfter(d, d1, r) ==
    IF d.owe = <<>> THEN d1
    ELSE IF r.det THEN [d1 EXCEPT !.owe = <<>>]
    ELSE [d1 EXCEPT !.owe = <<[d.owe[1] EXCEPT !.age = d.owe[1].age + 1]>>]

-----------------------------------------------------------------------------
Judge(s, r) ==
    LET ef == EmFailing(s.e, r)
        d1 == DetConsume(s.d, r.iw)
    IN [f |-> IF ef # "ok" THEN ef
              ELSE IF DetOverrun(s.d, d1) THEN "env_detection_overrun" ELSE DetFailing(s.d, d1, r),
        \* a reset of the clock domain (r.rst) puts both back into their initial state with the next edge
        n |-> IF r.rst THEN [e |-> EmInit, d |-> DetInit] ELSE [e |-> EmNext(s.e, r), d |-> DetAfter(s.d, d1, r)]]
SInit == [e |-> EmInit, d |-> DetInit]
-----------------------------------------------------------------------------
(* The ordered sets of [USB3.2 Tables 6-3 .. 6-6] as words of four symbols (for `SetWords <- ...`). *)
D10_2 == 74      \* 4A
D5_2  == 69      \* 45
D21_5 == 181     \* B5 = D10.2 seen with inverted polarity
Rep4(b) == <<b, b, b, b>>
TS1Words    == <<Rep4(COM), <<0, 0, D10_2, D10_2>>, Rep4(D10_2), Rep4(D10_2)>>
TS1InvWords == <<Rep4(COM), <<0, 0, D21_5, D21_5>>, Rep4(D21_5), Rep4(D21_5)>>
TS2Words    == <<Rep4(COM), <<0, 0, D5_2, D5_2>>, Rep4(D5_2), Rep4(D5_2)>>
\* TSEQ: K28.5 D31.7 D23.0 D0.6 | D20.0 D18.5 D7.7 D2.0 | D2.4 D18.3 D14.3 D8.1 | D6.5 D30.5 D13.3 D31.5 | 16 x D10.2
TSEQWords   == <<<<COM, 255, 23, 192>>, <<20, 178, 231, 2>>, <<130, 114, 110, 40>>, <<166, 190, 109, 191>>,
                 Rep4(D10_2), Rep4(D10_2), Rep4(D10_2), Rep4(D10_2)>>
\* a two-word set for tightly bounded models
TinyWords   == <<Rep4(COM), <<0, 0, D5_2, D5_2>>>>
=============================================================================
