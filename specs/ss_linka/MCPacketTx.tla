----------------------------- MODULE MCPacketTx -----------------------------
(* Bounded instance of PacketTx: every ready / start-latency / payload-take  *)
(* schedule for a small family of packets; round trip through RxParse.       *)
EXTENDS PacketTx, TLC

CONSTANTS MaxLen,          \* payload lengths 0..MaxLen
          MaxPackets,      \* packets per behaviour
          MaxLat           \* start latency the Ref tolerates (cycles, incl. the request cycle)

VARIABLES x,        \* transmitter Ref state
          in,       \* cycle record that led here
          emitted,  \* ghost: words accepted by the PHY for the packet in progress / just completed
          pres      \* Env: number of payload bytes already handed over (mirror of x.consumed, Env side)
vars == <<x, in, emitted, pres>>

\* the packet family: two header types, delayed or not, payload bytes a fixed pattern
Payload(n) == [i \in 1..n |-> (37 * i + 11 * n) % 256]
Headers == { [dw |-> DataHeaderBytes(5, 3, 17, n, 1), seq |-> 6, rsv |-> 0, hub |-> 0, dl |-> d, df |-> 0, len |-> n]
                : n \in 0..MaxLen, d \in {0, 1} }
           \cup { [dw |-> <<4, 0, 0, 42, 1, 2, 3, 4, 5, 6, 7, 8>>, seq |-> 1, rsv |-> 5, hub |-> 7, dl |-> 0, df |-> 1, len |-> 0] }

NoRec == [e |-> "cyc", gen |-> FALSE, rdy |-> FALSE, ow |-> NoWord, done |-> FALSE, dsv |-> 0,
          dsd |-> <<0, 0, 0, 0>>, dsr |-> FALSE]

Init == x = TxInit /\ in = NoRec /\ emitted = <<>> /\ pres = 0

\* payload word the Env presents: the next (up to) four bytes not yet taken, held until taken
Presented(y) ==
    LET left == Len(y.pl) - y.consumed
        m    == Min(4, left)
    IN IF y.st = "idle" \/ ~y.isdata \/ y.delayed \/ left = 0 THEN [v |-> 0, d |-> <<0, 0, 0, 0>>]
       ELSE [v |-> LenMask(m), d |-> [i \in 1..4 |-> IF i <= m THEN y.pl[y.consumed + i] ELSE 0]]

Cycle(gen, h, rdy) ==
    LET r0 == [e |-> "cyc", gen |-> gen, rdy |-> rdy, hdr |-> h, pl |-> Payload(h.len), free |-> FALSE,
               maxlat |-> MaxLat, nodone |-> FALSE]
    IN \E c \in {StartCrc(x, r0)} : \E y \in {Eff(x, r0, c)} :
       LET p  == Presented(y)
           outs == IF y.st = "idle" THEN {NoWord}
                   ELSE (IF y.k = 1 /\ y.lat < y.maxlat THEN {NoWord} ELSE {})
                        \cup {IF y.k <= 5 THEN HeaderWords(y.dw, y.crc16, y.lc)[y.k] ELSE y.tail[y.k - 5]}
       IN \E ow \in outs, take \in Bool :
            /\ (take => p.v # 0)
            /\ \E j \in {JudgeE(x, y, [r0 EXCEPT !.rdy = rdy] @@ [ow |-> ow,
                                  done |-> (y.st = "busy" /\ ow.v /\ y.k = NWords(y) /\ rdy),
                                  dsv |-> p.v, dsd |-> p.d, dsr |-> (take /\ p.v # 0)])} :
                 /\ j.f = "ok"
                 /\ x' = j.n
            /\ in' = r0 @@ [ow |-> ow, done |-> (y.st = "busy" /\ ow.v /\ y.k = NWords(y) /\ rdy),
                            dsv |-> p.v, dsd |-> p.d, dsr |-> (take /\ p.v # 0)]
            /\ emitted' = IF x.st = "idle" /\ gen THEN (IF ow.v /\ rdy THEN <<ow>> ELSE <<>>)
                          ELSE IF ow.v /\ rdy THEN Append(emitted, ow) ELSE emitted
            /\ pres' = 0

AnyHeader == CHOOSE h \in Headers : TRUE
Idle    == x.st = "idle" /\ \E rdy \in Bool : Cycle(FALSE, AnyHeader, rdy)
Start   == x.st = "idle" /\ x.npk < MaxPackets /\ \E h \in Headers, rdy \in Bool : Cycle(TRUE, h, rdy)
Sending == x.st = "busy" /\ \E gen \in Bool, rdy \in Bool : Cycle(gen, AnyHeader, rdy)

Next == Idle \/ Start \/ Sending
Spec == Init /\ [][Next]_vars

-----------------------------------------------------------------------------
(* Prop *)
\* C36, round trip: when a packet completes, a receiver following the standard recovers the same header
\* (incl. the link control word) and the same payload from the accepted words, all CRCs good.
RoundTrip ==
    in.done =>
      LET p == RxParse(emitted) IN
      /\ p.ok
      /\ p.dw = x.dw /\ p.lc = x.lc
      /\ p.data = x.isdata
      /\ (x.isdata => p.aborted = x.delayed)
      /\ (x.isdata /\ ~x.delayed => p.pl = x.pl)
\* the CRC-32 follows the last data byte directly: tail size t = Len(pl) % 4 puts t data bytes and 4 - t
\* CRC bytes in one word (t = 0: a word of its own), for every t (static theorem, checked at start-up)
Crc32Placement(pl) ==
    LET L  == Len(pl)
        tl == DppWords(FALSE, pl, Crc32Of(pl))
        sy == SymsOf(SubSeq(tl, 2, Len(tl)))
        c  == Usb3Crc32Bytes(pl)
    IN /\ \A i \in 1..L : sy[i] = <<pl[i], 0>>
       /\ \A i \in 1..4 : sy[L + i] = <<c[i], 0>>
       /\ Len(tl) = 1 + ((L + 8 + 3) \div 4)
ASSUME \A n \in 0..MaxLen : Crc32Placement(Payload(n))
ASSUME Crc5TableOk
ASSUME Crc32StreamOk

\* tables for the cfg overrides HdrCrc16 <- McCrc16, Crc32Of <- McCrc32 (built from the bit-serial definitions)
Crc16Tab == [d \in {h.dw : h \in Headers} |-> Usb3Crc16(d)]
Crc32Tab == [n \in 0..MaxLen |-> Usb3Crc32Bytes(Payload(n))]
McCrc16(dw) == Crc16Tab[dw]
McCrc32(pl) == IF pl = Payload(Len(pl)) THEN Crc32Tab[Len(pl)] ELSE Usb3Crc32Bytes(pl)
\* `done` exactly once per packet, with the last word
DoneOnlyAtEnd == in.done => (x.st = "idle" /\ Len(emitted) = NWords(x))
TypeOK == x.st \in {"idle", "busy"} /\ x.consumed <= Len(x.pl) /\ Len(emitted) <= 16
=============================================================================
