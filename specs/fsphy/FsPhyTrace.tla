----------------------------- MODULE FsPhyTrace -----------------------------
(***************************************************************************)
(* Trace validation for FsPhy (property C25).  Every trace was recorded    *)
(* from the real GatewarePHY: Logs[tid] = [cfg |-> ..., steps |-> <<..>>], *)
(* one step record per `usb` (12 MHz, = one bit time) clock cycle.         *)
(*                                                                         *)
(* cfg.kind = "pkt"  (op_mode normal; packets in both directions)          *)
(*   cfg.txp    : the packets the UTMI host hands over, in order           *)
(*   cfg.rxp    : [syms |-> ...] the packets put on D+/D- by the bus side  *)
(*   cfg.rxgaps : idle (J) bit times before / between / after them         *)
(*   cfg.runs   : the 48 MHz input waveform actually driven, run-length    *)
(*                coded <<code, samples, bits, start>> (1=J, 2=K, 3=SE0)   *)
(*   step: v, d      tx_valid / tx_data applied in this cycle              *)
(*         rdy       tx_ready observed in this cycle                       *)
(*         w         the four usb_io (48 MHz) samples of the io pins in    *)
(*                   this cycle: 0 = not driven, 1 = J, 2 = K, 3 = SE0,    *)
(*                   4 = SE1, 5 = d_p.oe # d_n.oe                          *)
(*         a, rv, rd rx_active / rx_valid / rx_data                        *)
(*         lb        Env: a K or SE0 sample was put on D+/D- in this cycle *)
(*         e         the four usb_io samples of rx_error (0/1)             *)
(*         rst, txk, rxk   ResetSignal of both domains asserted in this    *)
(*                   cycle, and the packet indices after it (else 0)       *)
(* cfg.kind = "ctl"  (static clauses)                                      *)
(*   cfg.pu / cfg.pd : the io record has a pullup / pulldown element       *)
(*   step: op, v, d, ts, dp, dm  inputs;  oe (any of the four samples      *)
(*         driven), puo, pdo (0/1) observed                                *)
(*                                                                         *)
(* Observation relation: the transmit side runs the reference transmitter  *)
(* of FsPhy in lock step with the symbols recovered from `w` (every bit    *)
(* exactly four 48 MHz samples), feeds them to the reference receiver and  *)
(* compares with the functional Encode at the end of the packet; the       *)
(* receive side compares the framed bytes with Decode(cfg.rxp[k].syms).    *)
(* Latencies (tx_valid -> SYNC, line -> rx_active / rx_valid) are free.    *)
(***************************************************************************)
EXTENDS FsPhy, TLC, TLCExt, Json, IOUtils

Logs == JsonDeserialize(IOEnv.TRACE_FILE)

VARIABLES tid, l, status,
          ts,         \* interface-level bookkeeping (record, see TsInit)
          nxt         \* result of the step function for the record just consumed ([s, m, fail])
tvars == <<vars, tid, l, status, ts, nxt>>

ASSUME \A i \in 1..Len(Logs) : TLCSet(i, <<0, "ok">>)

Cfg   == Logs[tid].cfg
Steps == Logs[tid].steps

Grace == 2            \* cycles a control request must have been stable before the output is compared
QuietMax == 16        \* rx_active must not be high when no K / SE0 has been on the line for this many bit times
                      \* (at most 8 inside a packet incl. the EOP's J; the rest is latency allowance)
MinPulse == 4         \* usb_io cycles in one usb cycle: a pulse at least this long is seen at a usb clock edge

Min(a, b) == IF a < b THEN a ELSE b
Max(a, b) == IF a > b THEN a ELSE b
SymOfCode(c) == <<J, K, SE0, SE1>>[c]
NoVec == [bytes |-> <<>>, hit |-> 0, syms |-> <<>>]

TsInit == [txk |-> 1, acc |-> <<>>, pend |-> <<>>, vseen |-> FALSE,          \* transmit side
           rxk |-> 0, got |-> <<>>, act |-> FALSE, rexp |-> [ok |-> TRUE, bytes |-> <<>>, why |-> "none"],
           ew |-> 0, emax |-> 0, eage |-> 9, shortpulse |-> FALSE, quiet |-> 99,   \* receive side
           ndrun |-> 0, turun |-> 0, pdrun |-> 0, lastts |-> FALSE, lastpd |-> FALSE]   \* control

-----------------------------------------------------------------------------
(* Env legality of the synthesized receive waveform: it renders the symbol  *)
(* stream idle, packet, idle, ... with every run of k equal symbols lasting *)
(* 4k +- 1 samples (sampling phase and <= 0.25 % rate offset).              *)
RECURSIVE Repeat(_, _)
Repeat(x, n) == IF n = 0 THEN <<>> ELSE <<x>> \o Repeat(x, n - 1)

RECURSIVE RxLineFrom(_)
RxLineFrom(k) == IF k > Len(Cfg.rxp) THEN <<>>
                 ELSE Cfg.rxp[k].syms \o Repeat(J, Cfg.rxgaps[k + 1]) \o RxLineFrom(k + 1)
RxLine == Repeat(J, Cfg.rxgaps[1]) \o RxLineFrom(1)

(* cfg.runs[i] = <<code, samples, bits, start>>: the i-th run of equal samples of the waveform as driven, and  *)
(* the harness' claim which bit times RxLine[start .. start+bits-1] it renders; the claim is checked here.   *)
LegalWaveform ==
    LET L == RxLine
        R == Cfg.runs
        n == Len(R)
    IN /\ n >= 1 /\ R[1][4] = 1 /\ R[n][4] + R[n][3] - 1 = Len(L)
       /\ \A i \in 1..n :
            /\ R[i][3] >= 1 /\ R[i][4] + R[i][3] - 1 <= Len(L)
            /\ (i < n => R[i + 1][4] = R[i][4] + R[i][3] /\ R[i + 1][1] # R[i][1])
            /\ \A j \in R[i][4]..(R[i][4] + R[i][3] - 1) : L[j] = SymOfCode(R[i][1])
            /\ \/ i \in {1, n}                                               \* leading / trailing idle: free
               \/ /\ R[i][1] = 1 /\ R[i - 1][1] = 3                           \* inter-packet idle: any phase
                  /\ R[i][2] >= 4 * R[i][3] - 1 /\ R[i][2] <= 4 * R[i][3] + 4
               \/ /\ R[i][2] >= 4 * R[i][3] - 1 /\ R[i][2] <= 4 * R[i][3] + 1

-----------------------------------------------------------------------------
(* Transmit side of one cycle.  m = [vec, tx, line, rx] are the FsPhy       *)
(* variables; the result adds `fail` and `fin` (packet finished).           *)
\* Name of a failing line clause.  Diagnosis only (the trace is rejected either way): when what was observed
\* is exactly what stuffing that ignores the SYNC's final one would produce, the clause says so.
TxClause(name, bytes, obs, complete) ==
    LET alt == EncodeIgnoringSyncOne(bytes) IN
    IF alt # Encode(bytes) /\ (IF complete THEN obs = alt ELSE IsPrefixOf(obs, alt))
    THEN "tx_stuffing_ignores_sync_one_at_" \o ToString(Len(obs) + (IF complete THEN 1 ELSE 0))
    ELSE name \o "_at_" \o ToString(Len(obs) + (IF complete THEN 1 ELSE 0))

TxSample(x, c) ==      \* x = [s (ts record), m, fail, fin], c = one 48 MHz sample code
    IF x.fail # "ok" THEN x
    ELSE IF x.fin THEN (IF c = 0 THEN x ELSE [x EXCEPT !.fail = "tx_no_gap_after_packet"])
    ELSE IF c = 0 THEN
        IF x.s.pend # <<>> THEN [x EXCEPT !.fail = "tx_bit_not_4_clocks"]
        ELSE IF x.m.line = <<>> THEN x                                   \* idle
        ELSE IF x.m.tx.st = "done" THEN [x EXCEPT !.fin = TRUE]          \* released after the EOP
        ELSE [x EXCEPT !.fail = TxClause("tx_released_mid_packet", x.m.vec.bytes, x.m.line, TRUE)]
    ELSE IF c = 5 THEN [x EXCEPT !.fail = "tx_oe_differs_between_dp_dn"]
    ELSE
        LET p2 == Append(x.s.pend, c) IN
        IF Len(p2) < 4 THEN [x EXCEPT !.s.pend = p2]
        ELSE IF \E i \in 1..4 : p2[i] # c THEN [x EXCEPT !.fail = "tx_bit_not_4_clocks"]
        ELSE
            \* one complete bit time on the wire
            LET sym == SymOfCode(c)
                m0  == IF x.m.line = <<>> /\ x.s.txk <= Len(Cfg.txp)      \* first symbol: start the reference
                       THEN [vec  |-> [bytes |-> Cfg.txp[x.s.txk], hit |-> 0, syms |-> Encode(Cfg.txp[x.s.txk])],
                             tx   |-> TxStart(Cfg.txp[x.s.txk]), line |-> <<>>, rx |-> RxStart]
                       ELSE x.m
            IN IF x.m.line = <<>> /\ (x.s.txk > Len(Cfg.txp) \/ ~x.s.vseen)
               THEN [x EXCEPT !.fail = "tx_drive_without_request"]
               ELSE IF m0.tx.st = "done"
               THEN [x EXCEPT !.fail = TxClause("tx_extra_symbol", m0.vec.bytes, Append(m0.line, sym), FALSE)]
               ELSE LET o == TxBitTime(m0.tx, FALSE) IN
                    IF o.sym # sym
                    THEN [x EXCEPT !.fail = TxClause("tx_symbol", m0.vec.bytes, Append(m0.line, sym), FALSE)]
                    ELSE [x EXCEPT !.s.pend = <<>>,
                                   !.m = [vec |-> m0.vec, tx |-> o.t, line |-> Append(m0.line, sym),
                                          rx |-> RxBitTime(m0.rx, sym)]]

TxRec(s, m, r) ==
    LET \* UTMI handshake: the host presents the next byte it has not been told to move on from
        envOK == r.v => /\ s.txk <= Len(Cfg.txp)
                        /\ Len(s.acc) < Len(Cfg.txp[s.txk])
                        /\ r.d = Cfg.txp[s.txk][Len(s.acc) + 1]
        s1 == [s EXCEPT !.vseen = s.vseen \/ r.v,
                        !.acc = IF r.v /\ r.rdy THEN Append(s.acc, r.d) ELSE s.acc]
        x0 == [s |-> s1, m |-> m, fail |-> IF envOK THEN "ok" ELSE "env_tx_host", fin |-> FALSE]
        x4 == TxSample(TxSample(TxSample(TxSample(x0, r.w[1]), r.w[2]), r.w[3]), r.w[4])
    IN IF x4.fail # "ok" \/ ~x4.fin THEN x4
       ELSE \* the packet is complete on the wire: Prop on the whole packet
            IF x4.s.acc # x4.m.vec.bytes THEN [x4 EXCEPT !.fail = "tx_bytes_accepted_exactly_once"]
            ELSE IF x4.m.line # Encode(x4.s.acc) THEN [x4 EXCEPT !.fail = "tx_line_is_encode"]
            ELSE IF ~(x4.m.rx.st = "done" /\ x4.m.rx.bytes = x4.s.acc /\ ~x4.m.rx.err)
                 THEN [x4 EXCEPT !.fail = "tx_reference_receiver_decodes_bytes"]
            ELSE [x4 EXCEPT !.s.txk = x4.s.txk + 1, !.s.acc = <<>>, !.s.vseen = FALSE,
                            !.m = [vec |-> NoVec, tx |-> TxIdle, line |-> <<>>, rx |-> RxStart]]

-----------------------------------------------------------------------------
(* Receive side of one cycle. *)
ErrSample(s, active, bit) ==
    LET w2 == IF bit = 1 THEN s.ew + 1 ELSE 0
    IN [s EXCEPT !.ew = w2, !.emax = IF active /\ bit = 1 THEN Max(s.emax, w2) ELSE s.emax]

RxRec(s, r) ==     \* returns [s, fail]
    LET rising  == r.a /\ ~s.act
        falling == ~r.a /\ s.act
        anyErr  == \E i \in 1..4 : r.e[i] = 1
        \* a new frame: the next expected packet; an error pulse at most Grace cycles earlier belongs to it
        s1 == IF rising
              THEN [s EXCEPT !.rxk = s.rxk + 1, !.got = <<>>, !.emax = IF s.eage <= Grace THEN 1 ELSE 0,
                             !.rexp = IF s.rxk + 1 <= Len(Cfg.rxp) THEN Decode(Cfg.rxp[s.rxk + 1].syms) ELSE s.rexp]
              ELSE s
        s2 == ErrSample(ErrSample(ErrSample(ErrSample(s1, r.a, r.e[1]), r.a, r.e[2]), r.a, r.e[3]), r.a, r.e[4])
        s3 == [s2 EXCEPT !.act = r.a,
                         !.quiet = IF r.lb THEN 0 ELSE Min(s.quiet + 1, 99),
                         !.eage = IF anyErr THEN 0 ELSE Min(s.eage + 1, 9),
                         !.got = IF r.rv /\ r.a THEN Append(s2.got, r.rd) ELSE s2.got]
        fail == IF rising /\ s.rxk + 1 > Len(Cfg.rxp) THEN "rx_spurious_frame"
                ELSE IF r.rv /\ ~r.a THEN "rx_valid_outside_active"
                ELSE IF r.a /\ s3.quiet > QuietMax THEN "rx_active_on_idle_line"
                ELSE IF r.a /\ s3.rexp.ok /\ ~IsPrefixOf(s3.got, s3.rexp.bytes) THEN "rx_bytes"
                ELSE IF r.a /\ s3.rexp.ok /\ s3.emax > 0 THEN "rx_error_on_good_packet"
                ELSE IF falling THEN
                     IF s3.rexp.ok THEN (IF s3.got # s3.rexp.bytes THEN "rx_bytes_missing" ELSE "ok")
                     ELSE IF s3.rexp.why # "stuff" THEN "env_rx_vector"
                     ELSE IF s3.emax = 0 THEN "rx_error_not_reported"
                     ELSE "ok"
                ELSE "ok"
    IN [s    |-> IF falling /\ ~s3.rexp.ok /\ s3.emax < MinPulse THEN [s3 EXCEPT !.shortpulse = TRUE] ELSE s3,
        fail |-> fail]

-----------------------------------------------------------------------------
(* Static clauses (kind "ctl"). *)
Level(b) == IF b THEN 1 ELSE 0

CtlRec(s, r) ==
    LET pdreq == PullDownRef(r.dp, r.dm)
        s1 == [s EXCEPT !.ndrun = IF MayDrive(r.op) THEN 0 ELSE Min(s.ndrun + 1, 9),
                        !.turun = IF r.ts = s.lastts THEN Min(s.turun + 1, 9) ELSE 1,
                        !.pdrun = IF pdreq = s.lastpd THEN Min(s.pdrun + 1, 9) ELSE 1,
                        !.lastts = r.ts, !.lastpd = pdreq]
        fail == IF s1.ndrun > Grace /\ r.oe THEN "drives_in_nondriving_mode"
                ELSE IF Cfg.pd /\ s1.pdrun > Grace /\ r.pdo # Level(pdreq) THEN "pulldown_follows_request"
                ELSE IF Cfg.pu /\ s1.turun > Grace /\ r.puo # Level(PullUpRef(r.ts)) THEN "pullup_follows_term_select"
                ELSE "ok"
    IN [s |-> s1, fail |-> fail]

-----------------------------------------------------------------------------
StepOf(r) ==       \* [s, m, fail] after consuming record r
    LET m == [vec |-> vec, tx |-> tx, line |-> line, rx |-> rx] IN
    IF Cfg.kind = "ctl" THEN LET c == CtlRec(ts, r) IN [s |-> c.s, m |-> m, fail |-> c.fail]
    ELSE IF r.rst THEN
        \* Env: both clock-domain resets are asserted in this cycle.  Whatever was in flight is given up (the
        \* record carries the bookkeeping indices: packets offered / put on the line so far); nothing is demanded
        \* of the outputs while the reset is held; afterwards the PHY must behave as freshly started (idle line,
        \* rx_active low -- otherwise the next records fail tx_drive_without_request / rx_spurious_frame).
        [s |-> [TsInit EXCEPT !.txk = r.txk, !.rxk = r.rxk],
         m |-> [vec |-> NoVec, tx |-> TxIdle, line |-> <<>>, rx |-> RxStart], fail |-> "ok"]
    ELSE
        LET t == TxRec(ts, m, r)
            x == RxRec(t.s, r)
            last == l = Len(Steps)
            fail == IF l = 1 /\ ~LegalWaveform THEN "env_rx_waveform"
                    ELSE IF t.fail # "ok" THEN t.fail
                    ELSE IF x.fail # "ok" THEN x.fail
                    ELSE IF last /\ x.s.txk # Len(Cfg.txp) + 1 THEN "tx_packet_incomplete"
                    ELSE IF last /\ (x.s.rxk # Len(Cfg.rxp) \/ x.s.act) THEN "rx_frame_missing_or_unterminated"
                    ELSE IF last /\ x.s.shortpulse THEN "rx_error_pulse_shorter_than_usb_cycle"
                    ELSE "ok"
        IN [s |-> x.s, m |-> t.m, fail |-> fail]

TInit == /\ tid \in 1..Len(Logs)
         /\ l = 1
         /\ status = "ok"
         /\ ts = TsInit
         /\ nxt = [fail |-> "ok"]
         /\ vec = NoVec /\ tx = TxIdle /\ line = <<>> /\ rx = RxStart

\* (the step function is evaluated once: `nxt` is assigned first and the other variables are read off it)
TNext == /\ status = "ok"
         /\ l <= Len(Steps)
         /\ nxt' = StepOf(Steps[l])
         /\ ts' = nxt'.s
         /\ vec' = nxt'.m.vec /\ tx' = nxt'.m.tx /\ line' = nxt'.m.line /\ rx' = nxt'.m.rx
         /\ status' = nxt'.fail
         /\ l' = l + 1
         /\ UNCHANGED tid

TSpec == TInit /\ [][TNext]_tvars

\* Prop invariants of FsPhy, evaluated on every state of every observed execution.
TraceProp == LineFollowsPrediction /\ NoFalseError /\ RecentTransition /\ Framing /\ DeliveredSoFar

\* (a violated Prop invariant stops the exploration of that trace: the constraint is false there)
Progress == TLCSet(tid, <<l - 1, IF TraceProp THEN status ELSE "prop_invariant">>) /\ TraceProp

Verdicts == JsonSerialize(IOEnv.VERDICT_FILE, [i \in 1..Len(Logs) |-> TLCGet(i)])
=============================================================================
