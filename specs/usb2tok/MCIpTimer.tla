------------------------------ MODULE MCIpTimer ------------------------------
(* IpTimer with the real constants (the counter never exceeds 642): every start schedule and every   *)
(* speed in every cycle.                                                                              *)
EXTENDS IpTimer, TLC

Start    == \E s \in Speeds : t >= 0 /\ Step([start |-> TRUE, speed |-> s, rst |-> FALSE])
Reset    == \E s \in Speeds : \E st \in BOOLEAN : t >= 0 /\ Step([start |-> st, speed |-> s, rst |-> TRUE])
Count    == \E s \in Speeds : t < TSat /\ Step([start |-> FALSE, speed |-> s, rst |-> FALSE])
Saturate == \E s \in Speeds : t = TSat /\ since <= TSat + 2 /\ Step([start |-> FALSE, speed |-> s, rst |-> FALSE])

Next == Start \/ Reset \/ Count \/ Saturate
Spec == Init /\ [][Next]_vars
TypeOK == t \in 0..TSat /\ in.speed \in Speeds
=============================================================================
