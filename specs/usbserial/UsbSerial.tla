----------------------------- MODULE UsbSerial -----------------------------
(***************************************************************************)
(* Host-level specification of the ready-made CDC-ACM serial device        *)
(* (luna.gateware.usb.devices.acm.USBSerialDevice), property C57.          *)
(*                                                                         *)
(* Grain: one step = one bus transaction (or whole control transfer) as    *)
(* seen by the host, or one batch of beats on the FPGA-side rx / tx        *)
(* streams.  The device's answers are *parameters* of the actions: an      *)
(* action is enabled only for answers the property allows (XFail = "ok").  *)
(*                                                                         *)
(*   Env  : Ctl (control transfer), Out (bulk OUT transaction), In (bulk   *)
(*          IN transaction, host ACK possibly lost), TxBeats (bytes taken  *)
(*          from the tx stream), RxBeats (bytes appearing on the rx        *)
(*          stream), Probe (token to a foreign address), End (quiescence). *)
(*   Ref  : device address/configuration, data toggles, the un-ACKed IN    *)
(*          packet, whether a ZLP is owed.                                  *)
(*   Prop : ghost logs hostWritten / rxDelivered / txOffered / hostRead:   *)
(*          rx stream = bytes the host wrote (ACKed, in sequence), in      *)
(*          order, exactly once; host reads = tx stream, in order, exactly *)
(*          once, cut into packets at MaxPkt / `last`.                      *)
(***************************************************************************)
EXTENDS Naturals, Sequences, FiniteSets

CONSTANTS MaxPkt,        \* wMaxPacketSize of the data endpoints
          BufBytes       \* bytes the OUT endpoint is documented to buffer (2*MaxPkt - 1 by default)

VARIABLES addr, cfg,           \* device address / configuration as the host must see them
          outTog,              \* data toggle the OUT endpoint expects next
          inTog,               \* data toggle of the next *new* IN packet
          inFlight,            \* <<>> or <<[tog, payload]>>: IN packet sent whose ACK the device has not seen
          zlpOwed,             \* a transfer ended with a full-size packet: next IN packet must be zero-length
          hostWritten,         \* ghost: bytes of OUT packets the device ACKed in sequence
          rxDelivered,         \* ghost: bytes that appeared on the rx stream
          txOffered,           \* ghost: <<byte, last>> beats accepted from the tx stream
          hostRead,            \* ghost: bytes of IN packets the host accepted (one per toggle change)
          known                \* ghost: descriptors read in full so far, by type (1, 2)

vars == <<addr, cfg, outTog, inTog, inFlight, zlpOwed, hostWritten, rxDelivered, txOffered, hostRead, known>>

IsPrefix(s, t) == Len(s) <= Len(t) /\ SubSeq(t, 1, Len(s)) = s
Min(a, b) == IF a < b THEN a ELSE b

Init == /\ addr = 0 /\ cfg = 0 /\ outTog = 0 /\ inTog = 0
        /\ inFlight = <<>> /\ zlpOwed = FALSE
        /\ hostWritten = <<>> /\ rxDelivered = <<>> /\ txOffered = <<>> /\ hostRead = <<>>
        /\ known = [t \in {1, 2} |-> <<>>]

-----------------------------------------------------------------------------
(* FPGA-side streams *)

TxBeatsFail(beats) == "ok"
TxBeats(beats) == /\ txOffered' = txOffered \o beats
                  /\ UNCHANGED <<addr, cfg, outTog, inTog, inFlight, zlpOwed, hostWritten, rxDelivered, hostRead, known>>

\* bytes may only appear on the rx stream if the host wrote them (and the device ACKed them), in order
RxBeatsFail(bytes) == IF IsPrefix(rxDelivered \o bytes, hostWritten) THEN "ok" ELSE "rx_stream_not_host_data_in_order"
RxBeats(bytes) == /\ rxDelivered' = rxDelivered \o bytes
                  /\ UNCHANGED <<addr, cfg, outTog, inTog, inFlight, zlpOwed, hostWritten, txOffered, hostRead, known>>

-----------------------------------------------------------------------------
(* Bulk OUT transaction to the data endpoint: token + DATAx(payload) -> handshake *)
\* resp \in {"ACK", "NAK", "none", ...}
Held == Len(hostWritten) - Len(rxDelivered)

OutFail(a, tog, payload, crcok, resp) ==
    IF a # addr THEN (IF resp = "none" THEN "ok" ELSE "answered_foreign_address")
    ELSE IF ~crcok THEN (IF resp = "none" THEN "ok" ELSE "handshake_for_corrupted_data")
    ELSE IF resp \notin {"ACK", "NAK"} THEN "out_response_not_ack_or_nak"
    ELSE IF tog # outTog THEN (IF resp = "ACK" THEN "ok" ELSE "retransmitted_packet_not_acked")
    \* progress: with nothing buffered a good in-sequence packet must be taken
    ELSE IF resp = "NAK" /\ Held + Len(payload) <= BufBytes - MaxPkt THEN "nak_although_buffer_has_room"
    ELSE "ok"

Out(a, tog, payload, crcok, resp) ==
    LET taken == a = addr /\ crcok /\ resp = "ACK" /\ tog = outTog
    IN /\ hostWritten' = IF taken THEN hostWritten \o payload ELSE hostWritten
       /\ outTog' = IF taken THEN 1 - outTog ELSE outTog
       /\ UNCHANGED <<addr, cfg, inTog, inFlight, zlpOwed, rxDelivered, txOffered, hostRead, known>>

-----------------------------------------------------------------------------
(* Bulk IN transaction on the data endpoint: token -> NAK | DATAx(payload) [-> host ACK] *)
Unread == SubSeq(txOffered, Len(hostRead) + 1, Len(txOffered))     \* beats not yet accepted by the host

\* Is `payload` a legal *new* packet given what the tx stream has offered?
LegalNewPacket(payload) ==
    LET n == Len(payload) IN
    IF zlpOwed THEN n = 0
    ELSE /\ n >= 1 /\ n <= MaxPkt /\ n <= Len(Unread)
         /\ \A i \in 1..n : payload[i] = Unread[i][1]
         /\ \A i \in 1..(n - 1) : ~Unread[i][2]              \* does not run across a transfer boundary
         /\ (n = MaxPkt \/ Unread[n][2])                     \* cut only at MaxPkt or at `last`

\* resp = [kind |-> "NAK" | "none" | "STALL" | "bad" | "data", pid |-> 0/1, payload |-> <<bytes>>]
InFail(a, resp, hostAck) ==
    IF a # addr THEN (IF resp.kind = "none" THEN "ok" ELSE "answered_foreign_address")
    ELSE IF resp.kind = "NAK" THEN "ok"          \* a NAK never loses or duplicates data (liveness is judged at End)
    ELSE IF resp.kind # "data" THEN "in_response_not_data_or_nak"
    ELSE IF inFlight # <<>> THEN
         (IF resp.pid = inFlight[1].tog /\ resp.payload = inFlight[1].payload THEN "ok"
          ELSE "retry_differs_from_unacknowledged_packet")
    ELSE IF resp.pid # inTog THEN "wrong_data_toggle"
    ELSE IF ~LegalNewPacket(resp.payload) THEN "packet_not_next_slice_of_tx_stream"
    ELSE "ok"

In(a, resp, hostAck) ==
    LET isData == a = addr /\ resp.kind = "data"
        n == IF isData THEN Len(resp.payload) ELSE 0
        endsTransfer == isData /\ n >= 1 /\ n <= Len(Unread) /\ Unread[n][2]
    IN /\ IF isData /\ hostAck
          THEN /\ hostRead' = hostRead \o resp.payload
               /\ inTog' = 1 - resp.pid
               /\ inFlight' = <<>>
               /\ zlpOwed' = IF n = 0 THEN FALSE ELSE (endsTransfer /\ n = MaxPkt)
          ELSE /\ inFlight' = IF isData THEN <<[tog |-> resp.pid, payload |-> resp.payload]>> ELSE inFlight
               /\ UNCHANGED <<hostRead, inTog, zlpOwed>>
       /\ UNCHANGED <<addr, cfg, outTog, hostWritten, rxDelivered, txOffered, known>>

-----------------------------------------------------------------------------
(* Control transfers (whole transfer = one step).                          *)
(* req = [type, recipient, dirin, request, value, index, length]           *)
(* outcome \in {"ok", "stall"} or a string describing a protocol error     *)
(* data = bytes returned in the data stage of an IN transfer               *)
SET_LINE_CODING == 32

\* descriptor well-formedness, from [USB2.0 ch. 9] and [CDC 1.2]
RECURSIVE SubDescs(_, _)
SubDescs(d, k) ==      \* sub-descriptors of d starting at index k, as <<start, len, type>> triples; a <<0, 0, 0>> entry marks a malformed tail
    IF k > Len(d) THEN <<>>
    ELSE IF k + 1 > Len(d) \/ d[k] < 2 \/ k + d[k] - 1 > Len(d) THEN <<<<0, 0, 0>>>>
    ELSE <<<<k, d[k], d[k + 1]>>>> \o SubDescs(d, k + d[k])

DeviceDescOK(d, vid, pid) ==
    /\ Len(d) = 18 /\ d[1] = 18 /\ d[2] = 1
    /\ d[9] + 256 * d[10] = vid /\ d[11] + 256 * d[12] = pid
    /\ d[8] \in {8, 16, 32, 64}
    /\ d[18] = 1

ConfigDescOK(d) ==
    /\ Len(d) >= 9 /\ d[1] = 9 /\ d[2] = 2
    /\ d[3] + 256 * d[4] = Len(d)
    /\ d[5] = 2 /\ d[6] = 1
    /\ LET subs == SubDescs(d, 1) IN
         /\ \A i \in 1..Len(subs) : subs[i][2] # 0
         /\ LET eps == {<<d[subs[i][1] + 2], d[subs[i][1] + 3] % 4, d[subs[i][1] + 4] + 256 * d[subs[i][1] + 5]>> :
                           i \in {j \in 1..Len(subs) : subs[j][3] = 5}}
                ifs == {d[subs[i][1] + 5] : i \in {j \in 1..Len(subs) : subs[j][3] = 4}}
            IN /\ eps = {<<131, 3, MaxPkt>>, <<132, 2, MaxPkt>>, <<4, 2, MaxPkt>>}
               /\ ifs = {2, 10}

DescriptorFail(dtype, len, data, vid, pid) ==
    LET full == IF dtype = 1 THEN 18
                ELSE IF Len(data) >= 4 THEN data[3] + 256 * data[4] ELSE 9
    IN IF Len(data) # Min(len, full) THEN "descriptor_length_not_min_of_wLength_and_size"
       ELSE IF known[dtype] # <<>> /\ ~IsPrefix(data, known[dtype]) THEN "descriptor_differs_from_earlier_read"
       ELSE IF dtype = 1 /\ len >= 18 /\ ~DeviceDescOK(data, vid, pid) THEN "device_descriptor_malformed"
       ELSE IF dtype = 2 /\ len >= full /\ ~ConfigDescOK(data) THEN "configuration_descriptor_malformed"
       ELSE "ok"

\* CLEAR_FEATURE(ENDPOINT_HALT) for one direction of the data endpoint [USB2.0 9.4.5]: when the device accepts it, that
\* direction's data toggle restarts at DATA0 (the host restarts its own toggle too, so anything else loses or duplicates
\* bytes afterwards).  Env: the host issues it for the IN direction only while no IN packet is waiting for its ACK.
IsClearHalt(req) == req.type = 0 /\ req.request = 1 /\ req.recipient = 2 /\ ~req.dirin /\ req.length = 0 /\ req.value = 0

CtlFail(a, req, outcome, data, vid, pid) ==
    IF a # addr THEN (IF outcome = "no_response" THEN "ok" ELSE "answered_foreign_address")
    ELSE IF req.type \in {2, 3} THEN (IF outcome = "stall" THEN "ok" ELSE "vendor_or_reserved_request_not_stalled")
    ELSE IF req.type = 1 THEN
        (IF req.request = SET_LINE_CODING /\ ~req.dirin
         THEN (IF outcome = "ok" THEN "ok" ELSE "set_line_coding_not_accepted")
         ELSE (IF outcome = "stall" THEN "ok" ELSE "other_class_request_not_stalled"))
    \* standard requests of the enumeration sequence
    ELSE IF req.request = 6 /\ req.dirin /\ req.recipient = 0 /\ (req.value \div 256) \in {1, 2} /\ req.value % 256 = 0 THEN
        (IF outcome # "ok" THEN "get_descriptor_failed"
         ELSE DescriptorFail(req.value \div 256, req.length, data, vid, pid))
    ELSE IF req.request = 5 /\ ~req.dirin /\ req.recipient = 0 /\ req.length = 0 THEN
        (IF outcome = "ok" THEN "ok" ELSE "set_address_failed")
    ELSE IF req.request = 9 /\ ~req.dirin /\ req.recipient = 0 /\ req.length = 0 /\ req.value \in {0, 1} THEN
        (IF outcome = "ok" THEN "ok" ELSE "set_configuration_failed")
    ELSE IF req.request = 8 /\ req.dirin /\ req.recipient = 0 /\ req.length = 1 THEN
        (IF outcome = "ok" /\ data = <<cfg>> THEN "ok" ELSE "get_configuration_wrong")
    ELSE IF IsClearHalt(req) /\ req.index = 132 /\ inFlight # <<>> THEN "env_clear_halt_while_in_packet_unacknowledged"
    ELSE IF outcome \in {"ok", "stall"} THEN "ok"          \* other standard requests: not constrained here (C10)
    ELSE "control_transfer_protocol_error"

Ctl(a, req, outcome, data) ==
    LET mine == a = addr /\ req.type = 0 /\ outcome = "ok"
        isSetAddr == mine /\ req.request = 5 /\ ~req.dirin /\ req.length = 0
        isSetCfg  == mine /\ req.request = 9 /\ ~req.dirin /\ req.length = 0
        isFullDesc == mine /\ req.request = 6 /\ req.dirin /\ (req.value \div 256) \in {1, 2} /\ req.value % 256 = 0
                      /\ Len(data) < req.length
    IN /\ addr' = IF isSetAddr THEN req.value % 128 ELSE addr
       /\ cfg'  = IF isSetCfg THEN req.value % 256 ELSE cfg
       /\ known' = IF isFullDesc /\ known[req.value \div 256] = <<>>
                   THEN [known EXCEPT ![req.value \div 256] = data] ELSE known
       /\ outTog' = IF mine /\ IsClearHalt(req) /\ req.index = 4 THEN 0 ELSE outTog
       /\ inTog'  = IF mine /\ IsClearHalt(req) /\ req.index = 132 THEN 0 ELSE inTog
       /\ UNCHANGED <<inFlight, zlpOwed, hostWritten, rxDelivered, txOffered, hostRead>>

-----------------------------------------------------------------------------
(* Quiescence: the harness has drained both directions (rx consumer ready, IN polled until NAK). *)
\* everything the host wrote has appeared; everything up to the last complete chunk has been read
CompleteChunks ==      \* number of tx beats that belong to packets the device is obliged to offer
    LET lasts == {i \in (Len(hostRead) + 1)..Len(txOffered) : txOffered[i][2]}
        upToLast == IF lasts = {} THEN Len(hostRead) ELSE CHOOSE m \in lasts : \A j \in lasts : j <= m
        rest == Len(txOffered) - upToLast
    IN upToLast + (rest \div MaxPkt) * MaxPkt

EndFail == IF rxDelivered # hostWritten THEN "host_data_not_delivered_to_rx_stream"
           ELSE IF Len(hostRead) < CompleteChunks THEN "tx_stream_data_not_delivered_to_host"
           ELSE IF zlpOwed THEN "zero_length_packet_owed_but_not_sent"
           ELSE "ok"

-----------------------------------------------------------------------------
(* Prop *)
RxExactlyOnceInOrder == IsPrefix(rxDelivered, hostWritten)
TxExactlyOnceInOrder == /\ Len(hostRead) <= Len(txOffered)
                        /\ \A i \in 1..Len(hostRead) : hostRead[i] = txOffered[i][1]
TogglesBinary == outTog \in {0, 1} /\ inTog \in {0, 1}
AddressRange == addr \in 0..127
=============================================================================
