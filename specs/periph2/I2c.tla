-------------------------------- MODULE I2c --------------------------------
(***************************************************************************)
(* Bus-level specification of luna.gateware.interface.i2c.I2CInitiator     *)
(* (property C52), written from the class doc-string (start / stop / write *)
(* / read strobes taken when `busy` is low; data_i, ack_o, data_o, ack_i)  *)
(* and the I2C-bus specification (UM10204: START/STOP conditions, data     *)
(* validity, MSB-first bytes, ninth-clock acknowledge, clock stretching).  *)
(* It is a bus monitor: it never looks inside the initiator.               *)
(*                                                                         *)
(* Grain: one step = one clock cycle.  Lines are 1 = released/high,        *)
(* 0 = driven low; the bus is the wired AND of initiator and target.       *)
(*   Env  : one operation strobe at a time and only while busy is low;     *)
(*          the target drives SDA as it likes but changes it only while    *)
(*          bus SCL is low; it may begin holding SCL low only while the    *)
(*          initiator itself holds SCL low, and releases it whenever it    *)
(*          likes (clock stretching at any SCL release, of any length).    *)
(*          rst = synchronous reset of the initiator's clock domain in any *)
(*          cycle: the operation in progress is abandoned, both lines are  *)
(*          released in the next cycle and busy falls again.               *)
(*   Ref  : the operation in progress and what has happened on the bus     *)
(*          since it was accepted (bus-SCL rising edges = clock pulses,    *)
(*          START/STOP conditions, bus SDA at each pulse).  The legal      *)
(*          outputs of a cycle are a relation (Viol = "ok"): every number  *)
(*          of cycles per phase is allowed, the protocol is not.           *)
(*   Prop : ghost bus decoder, independent of the rules: START/STOP seen   *)
(*          on the initiator's SDA while SCL is high, bits sampled at bus  *)
(*          SCL rising edges, a byte every NB+1 bits.  Theorem: what the   *)
(*          decoder saw is exactly the sequence of requested operations.   *)
(* NB = bits per byte (8; the exhaustive model uses 2).                    *)
(***************************************************************************)
EXTENDS Integers, Sequences, Bits

CONSTANTS NB,         \* data bits per transfer
          WriteData,  \* exhaustive model only: bytes offered for writing
          MaxOps,     \* exhaustive model only: operations per behaviour
          WithReset   \* exhaustive model only: explore a clock-domain reset

VARIABLES op,         \* operation in progress: "none", "start", "stop", "write", "read"
          pscl, psda, \* initiator's SCL / SDA in the last cycle
          ptscl, ptsda, \* target's SCL / SDA in the last cycle
          pulses,     \* bus-SCL rising edges since the operation was accepted
          conds,      \* START/STOP conditions generated since the operation was accepted
          wbits,      \* write: the latched data, MSB first
          rack,       \* read: the latched ack_i
          bitsB,      \* bus SDA at each clock pulse of the operation
          last,       \* the operation completed last ("none" once a new one is accepted) and its result
          jr, nrst,   \* the previous cycle was a reset cycle; ghost: number of resets so far
          in, out,    \* inputs / outputs of the last cycle
          dbits,      \* ghost decoder: <<initiator SDA, bus SDA>> at the rising edges since the last S / P / byte
          busLog,     \* ghost decoder: events seen on the bus
          reqLog      \* ghost: operations completed, with their arguments and reported results

vars == <<op, pscl, psda, ptscl, ptsda, pulses, conds, wbits, rack, bitsB, last, jr, nrst, in, out, dbits, busLog, reqLog>>

Bool == {TRUE, FALSE}
Min2(a, b) == IF a < b THEN a ELSE b

NoIn  == [start |-> FALSE, stop |-> FALSE, write |-> FALSE, read |-> FALSE, data |-> 0, ack_i |-> FALSE,
          tscl |-> 1, tsda |-> 1, rst |-> FALSE]
NoOut == [scl |-> 1, sda |-> 1, busy |-> TRUE, ack_o |-> FALSE, data_o |-> 0]

Init == /\ op = "none"
        /\ pscl = 1 /\ psda = 1 /\ ptscl = 1 /\ ptsda = 1
        /\ pulses = 0 /\ conds = 0 /\ wbits = <<>> /\ rack = FALSE /\ bitsB = <<>>
        /\ last = [op |-> "none", ack |-> FALSE, data |-> 0]
        /\ jr = FALSE /\ nrst = 0
        /\ in = NoIn /\ out = NoOut
        /\ dbits = <<>> /\ busLog = <<>> /\ reqLog = <<>>

-----------------------------------------------------------------------------
(* the bus in the last cycle and in this one *)
PBscl == Min2(pscl, ptscl)
PBsda == Min2(psda, ptsda)
Bscl(i, o) == Min2(o.scl, i.tscl)
Bsda(i, o) == Min2(o.sda, i.tsda)

Strobes(i) == (IF i.start THEN 1 ELSE 0) + (IF i.stop THEN 1 ELSE 0) + (IF i.write THEN 1 ELSE 0)
              + (IF i.read THEN 1 ELSE 0)
Requested(i) == IF i.start THEN "start" ELSE IF i.stop THEN "stop" ELSE IF i.write THEN "write"
                ELSE IF i.read THEN "read" ELSE "none"

(* events of this cycle *)
SdaChanged(o)  == o.sda # psda
SclLowBoth(i, o)  == PBscl = 0 /\ Bscl(i, o) = 0
SclHighBoth(i, o) == PBscl = 1 /\ Bscl(i, o) = 1
Rise(i, o)     == PBscl = 0 /\ Bscl(i, o) = 1                 \* a clock pulse begins on the bus
CondNow(i, o)  == SdaChanged(o) /\ SclHighBoth(i, o)          \* initiator SDA moves while SCL is high
Completes(o)   == op # "none" /\ ~o.busy

PulsesNow(i, o) == IF Rise(i, o) THEN pulses + 1 ELSE pulses
CondsNow(i, o)  == IF CondNow(i, o) THEN conds + 1 ELSE conds
BitsBNow(i, o)  == IF Rise(i, o) THEN Append(bitsB, Bsda(i, o)) ELSE bitsB

-----------------------------------------------------------------------------
(* Env: legal inputs *)
EnvViol(i, o) ==
    IF Strobes(i) > 1 THEN "env_two_strobes"
    ELSE IF Strobes(i) = 1 /\ o.busy THEN "env_strobe_while_busy"
    ELSE IF Strobes(i) = 1 /\ i.rst THEN "env_strobe_during_reset"
    ELSE IF i.tscl = 0 /\ ptscl = 1 /\ pscl = 1 THEN "env_target_pulls_scl_while_high"
    ELSE IF i.tsda # ptsda /\ ~SclLowBoth(i, o) THEN "env_target_sda_change_while_scl_high"
    ELSE "ok"

(* Ref: legal outputs *)
LineViol(i, o) ==
    IF jr THEN (IF o.scl # 1 \/ o.sda # 1 THEN "lines_not_released_after_reset" ELSE "ok")
    ELSE IF op = "none" /\ (o.scl # pscl \/ o.sda # psda) THEN "line_change_without_operation"
    ELSE IF SdaChanged(o) /\ ~SclLowBoth(i, o) /\
            ~(/\ SclHighBoth(i, o) /\ conds = 0
              /\ \/ (op = "start" /\ o.sda = 0)                    \* requested START: SDA falls while SCL is high
                 \/ (op = "stop" /\ o.sda = 1))                    \* requested STOP: SDA rises while SCL is high
         THEN "sda_change_while_scl_high"
    ELSE IF Rise(i, o) /\ op \in {"start", "stop"} /\ (pulses # 0 \/ conds # 0) THEN "extra_clock_pulse_in_condition"
    ELSE IF Rise(i, o) /\ op \in {"write", "read"} /\ pulses >= NB + 1 THEN "too_many_clock_pulses"
    ELSE IF Rise(i, o) /\ op = "write" /\ pulses < NB /\ o.sda # wbits[pulses + 1] THEN "write_data_bit"
    ELSE IF Rise(i, o) /\ op = "write" /\ pulses = NB /\ o.sda # 1 THEN "sda_not_released_for_acknowledge"
    ELSE IF Rise(i, o) /\ op = "read" /\ pulses < NB /\ o.sda # 1 THEN "sda_driven_during_read_bit"
    ELSE IF Rise(i, o) /\ op = "read" /\ pulses = NB /\ o.sda # (IF rack THEN 0 ELSE 1) THEN "read_acknowledge_level"
    ELSE "ok"

DoneViol(i, o) ==
    IF ~Completes(o) THEN
        (IF op = "none" /\ ~o.busy /\ last.op = "write" /\ o.ack_o # last.ack THEN "ack_o_changed_while_idle"
         ELSE IF op = "none" /\ ~o.busy /\ last.op = "read" /\ o.data_o # last.data THEN "data_o_changed_while_idle"
         ELSE "ok")
    ELSE IF o.scl = 1 /\ Bscl(i, o) = 0 THEN "completed_while_clock_stretched"
    ELSE IF op \in {"start", "stop"} /\ CondsNow(i, o) # 1 THEN "condition_not_generated"
    ELSE IF op \in {"write", "read"} /\ PulsesNow(i, o) # NB + 1 THEN "byte_not_clocked_completely"
    ELSE IF op = "write" /\ o.ack_o # (BitsBNow(i, o)[NB + 1] = 0) THEN "ack_o"
    ELSE IF op = "read" /\ o.data_o # ValMSB(SubSeq(BitsBNow(i, o), 1, NB)) THEN "data_o"
    ELSE "ok"

Viol(i, o) == IF EnvViol(i, o) # "ok" THEN EnvViol(i, o)
              ELSE IF LineViol(i, o) # "ok" THEN LineViol(i, o)
              ELSE DoneViol(i, o)

-----------------------------------------------------------------------------
Update(i, o) ==
  LET comp == Completes(o)
      acc  == Requested(i) # "none" /\ ~o.busy
      rise == Rise(i, o) /\ ~jr
      cond == CondNow(i, o) /\ ~jr               \* (lines jumping to released right after a reset are no bus event)
      db1  == IF cond THEN <<>> ELSE IF rise THEN Append(dbits, <<o.sda, Bsda(i, o)>>) ELSE dbits
      byte == Len(db1) = NB + 1
      ev   == IF cond THEN <<[e |-> IF o.sda = 0 THEN "S" ELSE "P"]>>
              ELSE IF byte THEN <<[e |-> "B", ib |-> [j \in 1..(NB + 1) |-> db1[j][1]],
                                            bb |-> [j \in 1..(NB + 1) |-> db1[j][2]]]>>
              ELSE <<>>
      rq   == IF ~comp THEN <<>>
              ELSE IF op = "start" THEN <<[e |-> "S"]>>
              ELSE IF op = "stop" THEN <<[e |-> "P"]>>
              ELSE IF op = "write" THEN <<[e |-> "W", bits |-> wbits, ack |-> o.ack_o]>>
              ELSE <<[e |-> "R", data |-> o.data_o, ack |-> rack]>>
  IN /\ in' = i /\ out' = o
     /\ pscl' = o.scl /\ psda' = o.sda /\ ptscl' = i.tscl /\ ptsda' = i.tsda
     /\ jr' = i.rst /\ nrst' = (IF i.rst THEN nrst + 1 ELSE nrst)
     /\ op' = IF i.rst THEN "none" ELSE IF acc THEN Requested(i) ELSE IF comp THEN "none" ELSE op
     /\ pulses' = IF acc \/ comp \/ i.rst THEN 0 ELSE PulsesNow(i, o)
     /\ conds'  = IF acc \/ comp \/ i.rst THEN 0 ELSE CondsNow(i, o)
     /\ bitsB'  = IF acc \/ comp \/ i.rst THEN <<>> ELSE BitsBNow(i, o)
     /\ wbits'  = IF i.rst THEN <<>> ELSE IF acc /\ i.write THEN BitsMSB(i.data, NB) ELSE wbits
     /\ rack'   = IF i.rst THEN FALSE ELSE IF acc /\ i.read THEN i.ack_i ELSE rack
     /\ last'   = IF acc \/ i.rst THEN [op |-> "none", ack |-> FALSE, data |-> 0]
                  ELSE IF comp THEN [op |-> op, ack |-> o.ack_o, data |-> o.data_o]
                  ELSE last
     /\ dbits'  = IF byte \/ i.rst THEN <<>> ELSE db1
     /\ busLog' = IF i.rst /\ ~comp THEN SubSeq(busLog \o ev, 1, Len(reqLog))     \* events of an abandoned operation do not count
                  ELSE busLog \o ev
     /\ reqLog' = reqLog \o rq

-----------------------------------------------------------------------------
(* Exhaustive-model generator.  Cycles are named by their main event. *)
Kind(i, o) == IF Requested(i) # "none" THEN "accept"
              ELSE IF jr THEN "quiet"
              ELSE IF Completes(o) THEN "complete"
              ELSE IF SdaChanged(o) /\ SclHighBoth(i, o) THEN "condition"
              ELSE IF SdaChanged(o) THEN "sda_change"
              ELSE IF o.scl # pscl /\ o.scl = 0 THEN "scl_fall"
              ELSE IF o.scl # pscl THEN "scl_release"
              ELSE IF o.scl = 1 /\ i.tscl = 0 THEN "stretch"
              ELSE "quiet"

\* candidate initiator lines / busy / request per kind of cycle (Kind and Viol are still evaluated on each)
LinesOf(kind) ==
    CASE jr -> {<<1, 1>>}                                               \* right after a reset: both lines released
      [] kind \in {"quiet", "stretch", "reset"} -> {<<pscl, psda>>}
      [] kind \in {"condition", "sda_change"} -> {<<pscl, 1 - psda>>}
      [] kind = "scl_fall"    -> IF pscl = 1 THEN {<<0, psda>>} ELSE {}
      [] kind = "scl_release" -> IF pscl = 0 THEN {<<1, psda>>} ELSE {}
      [] OTHER -> {<<pscl, psda>>, <<1 - pscl, psda>>, <<pscl, 1 - psda>>}        \* accept, complete
BusyOf(kind) == IF op = "none" \/ kind = "complete" THEN {FALSE}
                ELSE IF kind = "accept" THEN {FALSE} ELSE {TRUE}
ReqOf(kind) == IF kind = "accept" THEN {"start", "stop", "write", "read"} ELSE {"none"}

Cycle(kind) ==
  \E ln \in LinesOf(kind) :
  \E busy \in BusyOf(kind) :
  \E tscl \in {0, 1}, tsda \in {0, 1} :
  \E rq \in ReqOf(kind) :
  \E d \in (IF rq = "write" THEN WriteData ELSE {0}) :
  \E ai \in (IF rq = "read" THEN Bool ELSE {FALSE}) :
  LET scl == ln[1]
      sda == ln[2]
      i == [start |-> rq = "start", stop |-> rq = "stop", write |-> rq = "write", read |-> rq = "read",
            data |-> d, ack_i |-> ai, tscl |-> tscl, tsda |-> tsda, rst |-> (kind = "reset")]
      o0 == [scl |-> scl, sda |-> sda, busy |-> busy, ack_o |-> out.ack_o, data_o |-> out.data_o]
      bb == BitsBNow(i, o0)
      o == IF op = "write" /\ ~busy /\ Len(bb) = NB + 1 THEN [o0 EXCEPT !.ack_o = (bb[NB + 1] = 0)]
           ELSE IF op = "read" /\ ~busy /\ Len(bb) = NB + 1 THEN [o0 EXCEPT !.data_o = ValMSB(SubSeq(bb, 1, NB))]
           ELSE o0
  IN /\ (kind = "reset" \/ Kind(i, o) = kind)
     /\ (jr => (scl = 1 /\ sda = 1))
     /\ Viol(i, o) = "ok"
     /\ Update(i, o)

Accept     == /\ Len(reqLog) + (IF op # "none" THEN 1 ELSE 0) < MaxOps /\ (nrst = 0 \/ Len(reqLog) = 0) /\ Cycle("accept")   \* an operation strobe is taken
Complete   == /\ op # "none"       /\ Cycle("complete")      \* busy falls
Condition  == /\ op \in {"start", "stop"} /\ pscl = 1 /\ Cycle("condition")   \* START / STOP condition
SdaChange  == /\ op # "none"       /\ Cycle("sda_change")    \* initiator SDA moves while SCL is low
SclFall    == /\ op # "none" /\ pscl = 1 /\ Cycle("scl_fall")
SclRelease == /\ op # "none" /\ pscl = 0 /\ Cycle("scl_release")
Stretch    == /\ pscl = 1          /\ Cycle("stretch")       \* the target holds SCL low after the initiator released it
Quiet      == /\ Len(reqLog) >= 0  /\ Cycle("quiet")

\* (the exhaustive model explores one reset per behaviour, anywhere in its first operation, and one operation after it)
Reset      == /\ WithReset /\ op # "none" /\ nrst = 0 /\ Len(reqLog) = 0 /\ Cycle("reset")

Next == Reset \/ Accept \/ Complete \/ Condition \/ SdaChange \/ SclFall \/ SclRelease \/ Stretch \/ Quiet

Spec == Init /\ [][Next]_vars

-----------------------------------------------------------------------------
(* Prop *)
TypeOK == /\ op \in {"none", "start", "stop", "write", "read"}
          /\ pulses \in 0..(NB + 1) /\ conds \in 0..1 /\ Len(bitsB) = pulses
          /\ Len(dbits) <= NB /\ nrst \in 0..1000

\* what a bus observer decoded is exactly what was requested, operation by operation
Matches(r, b) ==
    CASE r.e = "S" -> b.e = "S"
      [] r.e = "P" -> b.e = "P"
      [] r.e = "W" -> /\ b.e = "B"
                      /\ SubSeq(b.ib, 1, NB) = r.bits                    \* the byte, MSB first, on the initiator's SDA
                      /\ b.ib[NB + 1] = 1                                 \* SDA released in the acknowledge slot
                      /\ r.ack = (b.bb[NB + 1] = 0)                       \* ack_o is the level the target put there
      [] r.e = "R" -> /\ b.e = "B"
                      /\ \A j \in 1..NB : b.ib[j] = 1                     \* SDA released while the target sends
                      /\ r.data = ValMSB(SubSeq(b.bb, 1, NB))             \* data_o = the eight bus levels, MSB first
                      /\ b.ib[NB + 1] = (IF r.ack THEN 0 ELSE 1)          \* the requested acknowledge is driven
\* (a reset may leave a half-clocked bit on the bus -- e.g. the target still stretching when the lines are
\*  released -- so the decoder's view is only compared up to the first reset; the step rules apply throughout)
DecodedMatchesRequested ==
    (op = "none" /\ nrst = 0) => /\ Len(busLog) = Len(reqLog)
                   /\ \A j \in 1..Len(reqLog) : Matches(reqLog[j], busLog[j])
                   /\ dbits = <<>>
\* while an operation runs the decoder is never ahead by more than that operation
DecoderInStep == nrst = 0 => Len(busLog) \in {Len(reqLog), Len(reqLog) + 1}
\* busy is low only between operations
BusyLowOnlyWhenIdle == [][~out'.busy => op' = "none" \/ Requested(in') # "none"]_vars
\* a stretched clock is not counted: no pulse while the target holds SCL low
NoPulseWhileStretched == [][in'.tscl = 0 => pulses' <= pulses]_vars
ResetAbandons == [][in'.rst => op' = "none"]_vars

=============================================================================
