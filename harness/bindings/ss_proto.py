"""Engine `ss_proto` — USB3 protocol / application layer (clock domain "ss").

  C45  TransactionPacketGenerator                       specs/ss_proto/TpGen.tla
  C46  SuperSpeedStreamInEndpoint + real TP generator   specs/ss_proto/SsInEp.tla
  C47  TimestampPacketReceiver (+ USB3ProtocolLayer)    specs/ss_proto/Itp.tla
  C48  SuperSpeedSetupDecoder, GetDescriptorHandler     specs/ss_proto/SsSetup.tla, SsDesc.tla
"""
import os
from concurrent.futures import ThreadPoolExecutor

from .. import tlc
from ..core import use_repo
from ..pipeline import validate_group

ENGINE = "ss_proto"
SPEC_DIR = "ss_proto"
WORKERS = 8

META = {
    "C46": {
        "text": "TLC explores every producer / host schedule of SsInEp.tla (event grain: stream words, host ACK TPs with "
                "seq/NumP/retry, data packets, NRDY/ERDY; packets cut at MaxPkt or at transfer ends with short/zero-length "
                "packets, sequence number advanced only by the acknowledging ACK, retry resends the packet in flight, "
                "NRDY only when no packet is held, ERDY exactly once per flow-control episode and only with data) against "
                "every allowed answer of an abstract endpoint and proves exactly-once-in-order delivery; the real "
                "SuperSpeedStreamInEndpoint wired to the real TransactionPacketGenerator is driven cycle by cycle by a "
                "host/link model (TLC-simulated and seeded-random schedules, header-queue and tx stalls, foreign-endpoint "
                "ACK noise), its events are recorded at the handshake interface and on the header queue / tx stream, and "
                "TLC validates both views of every execution against the specification, with end-of-trace obligations "
                "(every request answered, owed ERDY sent).",
        "note": "Env: the host sends one ACK at a time (a request is outstanding until DP/NRDY), legal seq/retry values; "
                "partial stream words only with `last`; packet parameters are sampled with the first beat (tx_zlp strobe). "
                "A request arriving < 2 cycles after the packet became complete may be answered NRDY. The code is "
                "experimental: ten genuine deviations are listed as findings, each with a witness schedule; clean "
                "schedules (saturating producer, no single-word / boundary-ending transfers, tx ready on the last beat, no "
                "racing events) avoid their triggers. ep_reset and the endpoint multiplexer are not covered.",
        "technique": "TLA+ event-grain spec, TLC exhaustive + batch trace validation (two observation views) of pysim traces",
        "design_ref": "DESIGN.md §5 C46",
    },
    "C48": {
        "text": "Two specifications. SsSetup.tla: a request is reported iff a good data packet with the Setup flag carried "
                "exactly eight bytes, fields per USB2.0 Table 9-2 (little endian), reports in order and held; TLC explores "
                "every packet shape (0..12 bytes, flag, good/bad/abort orderings) against every allowed report timing. "
                "SsDesc.tla: a GET_DESCRIPTOR request is answered with the first min(wLength, len) bytes of the descriptor "
                "selected by wValue on the 32-bit stream (first/last/valid-count per beat, tx_length with the first beat), "
                "unknown wValue is stalled; TLC explores all requests x ready schedules on a table with a sparse index. "
                "The real SuperSpeedSetupDecoder and GetDescriptorHandler (random descriptor collections with sparse "
                "indices and non word-multiple lengths) are driven with TLC-simulated, seeded-random and systematic "
                "offset-sweep stimuli (verdict / next packet / gap / abort positions; ready stall at every beat) and every "
                "recorded cycle is validated by TLC.",
        "note": "Setup decoder Env: words of a packet carry first/last, only the last word may be partial, exactly one "
                "good/bad verdict per packet after its last word (bad may abort early), Setup flag stable through a "
                "packet. Descriptor handler Env: start only when no response is in progress, wValue/wLength held during a "
                "response; wLength=0 asks for nothing (no beat, no stall). Report / first-beat latency free within bounds. "
                "Trusted base: TLC, amaranth.sim, the cycle drivers, usb_protocol's DeviceDescriptorCollection.",
        "technique": "TLA+ cycle-grain specs, TLC exhaustive + batch trace validation of pysim traces",
        "design_ref": "DESIGN.md §5 C48",
    },
    "C45": {
        "text": "TLC explores every request / field / header-queue-ready schedule of TpGen.tla (one job latched with the "
                "field values of the request cycle, handed to the header queue exactly once; TP layout of USB3 8.5 "
                "decoded bit-serially) against every allowed timing of an abstract generator and proves one-packet-per-"
                "request and packet-equals-request; the real TransactionPacketGenerator is driven with TLC-simulated and "
                "seeded-random schedules (all four request kinds, fields changing every cycle, requests while busy, "
                "long header-queue stalls) plus systematic offset sweeps (queue-ready edge / second request at every "
                "cycle offset 0..15 around a request) and every recorded cycle is validated by TLC against the specification.",
        "note": "Assumes at most one request strobe per cycle and endpoint numbers 0..15 (4-bit header field). Requests "
                "made while `ready` is low are not accepted (no packet may result). Direction, NumP and reserved bits "
                "are not constrained. Latencies (header offered <= 2 cycles after the request, ready <= 2 cycles after "
                "hand-over) are free within bounds. Trusted base: TLC, amaranth.sim, the cycle driver.",
        "technique": "TLA+ cycle-grain spec, TLC exhaustive + batch trace validation of pysim traces",
        "design_ref": "DESIGN.md §5 C45",
    },
    "C47": {
        "text": "TLC explores every header / ready / report schedule of Itp.tla (the ITP DW0 layout of USB3 8.7 decoded "
                "bit-serially: 14-bit bus interval counter, 13-bit delta; reports in order, exactly once, within a "
                "latency bound) and proves the report-log theorems; the real TimestampPacketReceiver and the real "
                "USB3ProtocolLayer (stub link layer) are driven with TLC-simulated and seeded-random header streams "
                "(all header types, corner and random 27-bit timestamps, back-to-back packets, a second header at every "
                "offset 1..16 after an ITP) and every recorded cycle "
                "is validated by TLC against the specification.",
        "note": "Latency between acceptance and report is free up to MaxLat=3 cycles. In the layer only bus_interval is "
                "public, so the report instant is recognised by the value (stimuli keep >= MaxLat+1 cycles between ITPs "
                "and change the counter every time). Trusted base: TLC, amaranth.sim, the cycle driver.",
        "technique": "TLA+ cycle-grain spec, TLC exhaustive + batch trace validation of pysim traces",
        "design_ref": "DESIGN.md §5 C47",
    },
}


def _cfg(name):
    with open(os.path.join(tlc.SPECS, SPEC_DIR, name)) as f:
        return f.read()


def _parallel(thunks):
    """Run independent TLC invocations (sub-processes) concurrently; results in order."""
    with ThreadPoolExecutor(max_workers=max(1, len(thunks))) as ex:
        futs = [ex.submit(t) for t in thunks]
        return [f.result() for f in futs]


def _env_guard(status, meta):
    if status.startswith("env_"):
        raise tlc.TLCError("stimulus left the Env assumptions (%s) in %s — harness bug, not a verdict" % (status, meta))


def _lim(v):
    return v & 0xFFFF, (v >> 16) & 0xFFFF


# =====================================================================================================
# C47 — isochronous timestamp packets
# =====================================================================================================
ITP_MAXLAT = 3
ITP_TYPES = (12, 4, 0, 8)


class _Bench:
    """One elaborated design, many runs: `run(fn)` resets the simulator and runs `async fn(ctx)`."""

    def __init__(self, dut, domain="ss"):
        import warnings
        from amaranth.sim import Simulator
        warnings.filterwarnings("ignore", category=RuntimeWarning)
        self.sim = Simulator(dut)
        self.sim.add_clock(1e-6, domain=domain)
        self.domain = domain
        self._fn = None
        self._first = True
        self.sim.add_testbench(self._bench)

    async def _bench(self, ctx):
        await self._fn(ctx)

    def run(self, fn):
        self._fn = fn
        if not self._first:
            self.sim.reset()
        self._first = False
        self.sim.run()


def _itp_rx_bench():
    use_repo()
    from luna.gateware.usb.usb3.protocol.timestamp import TimestampPacketReceiver
    dut = TimestampPacketReceiver()
    return _Bench(dut), dut


class _StubLink:
    """Just the ports USB3ProtocolLayer reads/drives on its link layer."""

    def __init__(self):
        from amaranth import Signal
        from luna.gateware.usb.usb3.link.header import HeaderQueue
        from luna.gateware.usb.usb3.link.data import DataHeaderPacket
        from luna.gateware.usb.stream import SuperSpeedStreamInterface
        self.header_source = HeaderQueue()
        self.header_sink = HeaderQueue()
        self.in_reset = Signal()
        self.ready = Signal()
        self.data_source = SuperSpeedStreamInterface()
        self.data_header_from_host = DataHeaderPacket()
        self.data_source_complete = Signal()
        self.data_source_invalid = Signal()
        self.data_sink = SuperSpeedStreamInterface()
        self.data_sink_send_zlp = Signal()
        self.data_sink_sequence_number = Signal(5)
        self.data_sink_endpoint_number = Signal(4)
        self.data_sink_length = Signal(range(1024 + 1))
        self.data_sink_direction = Signal()


def _itp_layer_bench():
    use_repo()
    from luna.gateware.usb.usb3.protocol.layer import USB3ProtocolLayer
    link = _StubLink()
    dut = USB3ProtocolLayer(link_layer=link)
    return _Bench(dut), dut, link


def _itp_run(bench, hq, outs, stim, layer):
    """stim: list of (valid, dw0, dw1); returns per-cycle records."""
    rec = []

    async def fn(ctx):
        for valid, dw0, dw1 in stim:
            # dw1 = the 96 bits after DW0: DW1 | DW2 << 32 | DW3 << 64 (DW3 = crc16, header sequence number, reserved,
            # hub depth, delayed, deferred, crc5) -- none of them is part of the timestamp
            ctx.set(hq.valid, int(valid))
            ctx.set(hq.header, (dw0 & 0xFFFFFFFF) | ((dw1 & ((1 << 96) - 1)) << 32))
            lo, hi = _lim(dw0)
            r = {"valid": bool(valid), "lo": lo, "hi": hi, "ready": bool(ctx.get(hq.ready)),
                 "other": [(dw1 >> (16 * k)) & 0xFFFF for k in range(6)]}
            if layer:
                r.update(upd=False, bic=int(ctx.get(outs[0])), delta=0)
            else:
                r.update(upd=bool(ctx.get(outs[0])), bic=int(ctx.get(outs[1])), delta=int(ctx.get(outs[2])))
            rec.append(r)
            await ctx.tick("ss")
    bench.run(fn)
    return rec


def _itp_dw0(ty, c, d):
    return (ty & 31) | ((c & 0x3FFF) << 5) | ((d & 0x1FFF) << 19)


def _itp_random_stim(rng, n, cmax, dmax, layer):
    """Header stream: ITPs (fields below cmax/dmax), other header types with random DW0, idle gaps,
    back-to-back packets (rx only; the layer stimuli keep the Env spacing and change the counter)."""
    stim = []
    last_c = None
    quiet = 0
    while len(stim) < n:
        k = rng.random()
        if layer and quiet > 0:
            quiet -= 1
            if k < 0.5:
                stim.append((0, rng.getrandbits(32), 0))
            else:
                ty = rng.choice([t for t in ITP_TYPES if t != 12])
                stim.append((1, (rng.getrandbits(27) << 5) | ty, rng.getrandbits(96)))
            continue
        if k < 0.45:
            c = rng.choice([0, 1, cmax - 1, rng.randrange(cmax), rng.randrange(cmax)])
            d = rng.choice([0, 1, dmax - 1, rng.randrange(dmax), rng.randrange(dmax)])
            if layer:
                while c == last_c:
                    c = rng.randrange(cmax)
                last_c = c
                quiet = ITP_MAXLAT + 1
            stim.append((1, _itp_dw0(12, c, d), rng.getrandbits(96)))
            if not layer and rng.random() < 0.4:       # back-to-back ITPs
                for _ in range(rng.randint(1, 3)):
                    stim.append((1, _itp_dw0(12, rng.randrange(cmax), rng.randrange(dmax)), rng.getrandbits(96)))
        elif k < 0.75:
            ty = rng.choice([t for t in ITP_TYPES if t != 12] + [13, 28, 14])
            stim.append((1, (rng.getrandbits(27) << 5) | ty, rng.getrandbits(96)))
        else:
            for _ in range(rng.randint(1, 4)):
                stim.append((0, rng.getrandbits(32), 0))
    return stim[:n]


def _itp_classify(trace, matched, status, meta):
    """Normalised cause: is the rejected report exactly bit 0 of the field of the packet it belongs to?"""
    _env_guard(status, meta)
    steps = trace["steps"]
    layer = trace["cfg"]["mode"] == "layer"
    rec = steps[matched - 1] if 0 < matched <= len(steps) else None
    value_clauses = ("bus_interval_counter", "delta", "held_bus_interval_counter", "held_delta")
    if rec is None or not (status in value_clauses or (layer and status == "update_missing")):
        return {"clause": status, "pattern": "other"}
    accepted = [r for r in steps[:matched] if r["valid"] and (r["lo"] & 31) == 12 and r["ready"]]
    if layer:
        src = accepted[-1] if accepted else None          # at most one packet pending there
    else:
        n_reports = sum(1 for r in steps[:matched - 1] if r["upd"])
        if status.startswith("held_"):
            n_reports -= 1                                # the value held is the previous report
        src = accepted[n_reports] if 0 <= n_reports < len(accepted) else None
    pattern = "other"
    field = "bus_interval_counter" if layer else status.replace("held_", "")
    if src is not None:
        dw0 = src["lo"] | (src["hi"] << 16)
        want = (dw0 >> 5) & 0x3FFF if field == "bus_interval_counter" else (dw0 >> 19) & 0x1FFF
        got = rec["bic"] if field == "bus_interval_counter" else rec["delta"]
        if want > 1 and got == (want & 1):
            pattern = "only_bit0_of_field_reported"
    return {"clause": "reported_value", "field": field, "pattern": pattern}


def check_C47(rep):
    quick = rep.tier == "quick"
    rng = rep.rng
    rep.rule = ("cycles of the real TimestampPacketReceiver / USB3ProtocolLayer validated against Itp.tla; non-trivial = "
                "a cycle in which an ITP is accepted or a report is made; distinct by (DUT, counter, delta, report)")
    rep.assume("every other header field (DW1, DW2, link control word incl. hub depth / delayed / deferred) is arbitrary "
               "and must not matter")
    rep.assume("a header is a timestamp packet iff DW0[4:0] = 01100b; headers are presented on the header queue for one "
               "or more cycles and count as received in each cycle with valid and ready")
    rep.assume("latency from acceptance to report is free up to %d cycles; reported values are held until the next report"
               % ITP_MAXLAT)
    rep.assume("layer traces: only bus_interval is public, ITPs are >= %d cycles apart and change the counter"
               % (ITP_MAXLAT + 1))

    # 1. exhaustive exploration of the specification (both observation modes), concurrently
    pairs = "PairsQuick" if quick else "PairsThorough"
    maxsent = 3 if quick else 4
    mc = []
    for mode in ("rx", "layer"):
        cfg = tlc.render_cfg(_cfg("MCItp.cfg.tmpl"), {"Mode": '"%s"' % mode, "MaxLat": 2, "Types": "{12, 4}",
                                                       "Pairs": pairs, "MaxSent": maxsent})
        mc.append((mode, cfg))
    sim_cfg = tlc.render_cfg(_cfg("MCItp_sim.cfg.tmpl"), {"Mode": '"rx"', "MaxLat": ITP_MAXLAT, "Types": "{12, 4, 0, 8}",
                                                           "Pairs": "PairsThorough"})
    res = _parallel([lambda c=c: tlc.model_check(SPEC_DIR, "MCItp", c, workers=WORKERS, timeout=1500) for _, c in mc] +
                    [lambda: tlc.simulate(SPEC_DIR, "MCItp", sim_cfg, num=20 if quick else 120, depth=40,
                                          seed=rep.seed * 11 + 47, timeout=1800)])
    for (mode, _), r in zip(mc, res[:2]):
        rep.add_mc("MCItp Mode=%s MaxLat=2 Pairs=%s MaxSent=%d" % (mode, pairs, maxsent), r,
                   {"Mode": mode, "MaxLat": 2, "Types": [12, 4], "Pairs": pairs, "MaxSent": maxsent})
    behs = res[2]

    # 2. stimuli.  `clean` keeps both fields below 2 (the trigger of the known width defect is a field value >= 2);
    #    `witness` uses the full 14/13-bit ranges.
    jobs = []      # (dut, stim, origin, klass)
    for b in behs:                                    # spec -> code: TLC-chosen header schedules (full-range values)
        stim = [(int(st["in"]["valid"]), st["in"]["lo"] | (st["in"]["hi"] << 16), rng.getrandbits(96)) for _, st in b[1:]]
        jobs.append(("rx", stim, "tlc-simulate", "witness"))
    n_rand, length = (10, 120) if quick else (80, 300)
    for k in range(n_rand):
        jobs.append(("rx", _itp_random_stim(rng, length, 2, 2, False), "random-1bit", "clean"))
        jobs.append(("rx", _itp_random_stim(rng, length, 1 << 14, 1 << 13, False), "random-full", "witness"))
    for k in range(max(3, n_rand // 2)):
        jobs.append(("layer", _itp_random_stim(rng, length, 2, 2, True), "random-1bit", "clean"))
        jobs.append(("layer", _itp_random_stim(rng, length, 1 << 14, 1 << 13, True), "random-full", "witness"))
    # structured: every single bit of the 27-bit timestamp, walking
    walk = []
    for bit in range(27):
        walk += [(1, (1 << (5 + bit)) | 12, 0), (0, 0, 0)]
    jobs.append(("rx", walk, "walking-one", "witness"))
    lwalk = []
    for bit in range(14):
        lwalk += [(1, (1 << (5 + bit)) | 12, 0)] + [(0, 0, 0)] * (ITP_MAXLAT + 1)
    jobs.append(("layer", lwalk, "walking-one", "witness"))

    # systematic alignments (integrator hint): a second header (ITP / other type) at every offset after an ITP,
    # headers held valid for 1..4 cycles; every trace ends with a drain so that a missing report is rejected
    for d in range(1, 17):
        for ty2 in (12, 4, 28):
            st = [(0, 0, 0), (1, _itp_dw0(12, 1, 0), 0)] + [(0, 0, 0)] * (d - 1) + [(1, _itp_dw0(ty2, 0, 1), 0)]
            jobs.append(("rx", st, "sweep-second-header", "clean"))
    for hold in range(1, 5):
        jobs.append(("rx", [(1, _itp_dw0(12, 1, 1), 0)] * hold + [(1, _itp_dw0(4, 1, 1), 0)] * hold +
                     [(1, _itp_dw0(12, 0, 0), 0)] * hold, "sweep-hold", "clean"))
    # every other header field must not matter: each of the 96 bits after DW0 set individually (DW1, DW2, and in DW3
    # crc16, header sequence number, reserved, hub depth, delayed, deferred, crc5), hub depth 0..7 x delayed x deferred;
    # the counter/delta alternate so that every packet must produce a visible report
    def _dw3(hub, dl, df, seq=0):
        return ((seq & 7) << 16 | (hub & 7) << 22 | (dl & 1) << 25 | (df & 1) << 26) << 64
    extras = [1 << b for b in range(96)] + [_dw3(h, dl, df, h) for h in range(8) for dl in (0, 1) for df in (0, 1)] + \
        [(1 << 96) - 1]
    for dut, gap in (("rx", 1), ("layer", ITP_MAXLAT + 1)):
        st = []
        for k, x in enumerate(extras):
            st += [(1, _itp_dw0(12, k & 1, (k & 1) ^ (1 if dut == "rx" else 0)), x)] + [(0, 0, x)] * gap
        jobs.append((dut, st, "sweep-other-header-fields", "clean"))
    for _, stim, _, _ in jobs:
        stim.extend([(0, 0, 0)] * (ITP_MAXLAT + 2))

    # 3. run on the real modules
    rx_bench, rx = _itp_rx_bench()
    ly_bench, layer, link = _itp_layer_bench()
    items = []
    for dut, stim, origin, klass in jobs:
        if dut == "rx":
            steps = _itp_run(rx_bench, rx.header_sink, (rx.update_received, rx.bus_interval_counter, rx.delta), stim, False)
        else:
            steps = _itp_run(ly_bench, link.header_source, (layer.bus_interval,), stim, True)
        rep.add_eval(len(steps))
        for r in steps:
            if r["upd"] or (r["valid"] and r["ready"] and (r["lo"] & 31) == 12):
                rep.nontriv((dut, r["lo"], r["hi"], r["upd"], r["bic"], r["delta"]))
        items.append(({"cfg": {"mode": dut}, "steps": steps}, {"dut": dut, "origin": origin, "class": klass}))
    rep.sample({"dut": items[0][1], "first_cycles": items[0][0]["steps"][:6]})

    # 4. TLC validates every recorded trace
    cfg = tlc.render_cfg(_cfg("ItpTrace.cfg.tmpl"), {"MaxLat": ITP_MAXLAT})
    validate_group(rep, SPEC_DIR, "ItpTrace", cfg, items, classify=_itp_classify,
                   steps_of=lambda t: len(t["steps"]))
    rep.notes.append("output widths as elaborated: bus_interval_counter=%d delta=%d bits (DRIFT info; the verdict comes "
                     "from the traces)" % (len(rx.bus_interval_counter), len(rx.delta)))
    if len(rx.bus_interval_counter) != 14 or len(rx.delta) != 13:
        rep.drift.append("TimestampPacketReceiver outputs are %d/%d bits wide, the fields are 14/13 bits"
                         % (len(rx.bus_interval_counter), len(rx.delta)))


# =====================================================================================================
# C45 — transaction packet generator
# =====================================================================================================
TP_LAT = 2
TP_KINDS = ("ack", "stall", "nrdy", "erdy")
TP_SUB = {"ack": 1, "nrdy": 2, "erdy": 3, "stall": 5}


def _tp_bench():
    use_repo()
    from luna.gateware.usb.usb3.protocol.transaction import TransactionPacketGenerator
    dut = TransactionPacketGenerator()
    return _Bench(dut), dut


def _tp_run(bench, dut, stim):
    """stim: list of dicts {req: kind|None|tuple-of-kinds, ep, rty, seq, addr, hqr}; returns per-cycle records."""
    rec = []
    itf, hq = dut.interface, dut.header_source
    strobes = {"ack": itf.send_ack, "stall": itf.send_stall, "nrdy": itf.send_nrdy, "erdy": itf.send_erdy}

    async def fn(ctx):
        for st in stim:
            for k, sig in strobes.items():
                ctx.set(sig, int(st["req"] == k))
            ctx.set(itf.endpoint_number, st["ep"])
            ctx.set(itf.retry_required, st["rty"])
            ctx.set(itf.next_sequence, st["seq"])
            ctx.set(dut.address, st["addr"])
            ctx.set(hq.ready, int(st["hqr"]))
            d0, d1 = ctx.get(hq.header.dw0), ctx.get(hq.header.dw1)
            r = {k: st["req"] == k for k in TP_KINDS}
            r.update(ep=st["ep"], rty=st["rty"], seq=st["seq"], addr=st["addr"], hqr=bool(st["hqr"]),
                     ready=bool(ctx.get(itf.ready)), done=bool(ctx.get(itf.done)), hv=bool(ctx.get(hq.valid)),
                     dw0lo=d0 & 0xFFFF, dw0hi=d0 >> 16, dw1lo=d1 & 0xFFFF, dw1hi=d1 >> 16)
            rec.append(r)
            await ctx.tick("ss")
    bench.run(fn)
    return rec


def _tp_random_stim(rng, n, kinds):
    """Requests of the given kinds at random instants (also while busy), interface fields changing every cycle
    (so a field read live instead of latched is visible), header-queue ready in moods."""
    stim = []
    mood, left = "fast", 0
    hold = None
    for _ in range(n):
        if left == 0:
            mood = rng.choice(["fast", "slow", "stuck", "random", "random"])
            left = rng.randint(2, 14)
            hold = None if rng.random() < 0.7 else {"ep": rng.randrange(16), "rty": rng.randrange(2),
                                                    "seq": rng.randrange(32), "addr": rng.randrange(128)}
        left -= 1
        hqr = {"fast": True, "slow": rng.random() < 0.25, "stuck": False, "random": rng.random() < 0.5}[mood]
        req = rng.choice(kinds) if rng.random() < 0.35 else None
        f = hold or {"ep": rng.choice([0, 15, rng.randrange(16)]), "rty": rng.randrange(2),
                     "seq": rng.choice([0, 31, rng.randrange(32)]), "addr": rng.choice([0, 127, rng.randrange(128)])}
        stim.append(dict(f, req=req, hqr=hqr))
    return stim


def _tp_classify(trace, matched, status, meta):
    _env_guard(status, meta)
    pattern = "other"
    rec = trace[matched - 1] if 0 < matched <= len(trace) else None
    if rec is not None and status == "tp_subtype":
        job = None
        for r in reversed(trace[:matched - 1]):
            if r["ready"] and any(r[k] for k in TP_KINDS):
                job = [k for k in TP_KINDS if r[k]][0]
                break
        sub = rec["dw1lo"] & 15
        if job == "erdy" and sub == TP_SUB["nrdy"]:
            pattern = "erdy_request_sent_as_nrdy"
        elif job is not None:
            pattern = "%s_request_sent_as_subtype_%d" % (job, sub)
    return {"clause": status, "pattern": pattern}


def check_C45(rep):
    quick = rep.tier == "quick"
    rng = rep.rng
    rep.rule = ("cycles of the real TransactionPacketGenerator validated against TpGen.tla; non-trivial = a cycle in which "
                "a request is accepted or a header is handed to the queue; distinct by (kind/subtype, fields, stall length)")
    rep.assume("at most one of send_ack/send_stall/send_nrdy/send_erdy is asserted per cycle; endpoint_number <= 15")
    rep.assume("a request counts only if made in a cycle where `ready` is observed high; it carries the field values "
               "and device address of that cycle")
    rep.assume("Direction, NumP, reserved bits and DW2 are not constrained; header offered within %d cycles of the "
               "request and ready back within %d cycles of the hand-over" % (TP_LAT, TP_LAT))

    fields = "FieldsQuick" if quick else "FieldsThorough"
    maxreq = 2 if quick else 3
    mc_cfg = tlc.render_cfg(_cfg("MCTpGen.cfg.tmpl"), {"ValidLat": 1, "ReadyLat": 1, "MaxReq": maxreq, "Fields": fields})
    sim_cfg = tlc.render_cfg(_cfg("MCTpGen_sim.cfg.tmpl"), {"ValidLat": TP_LAT, "ReadyLat": TP_LAT,
                                                             "Fields": "FieldsThorough"})
    res, behs = _parallel([lambda: tlc.model_check(SPEC_DIR, "MCTpGen", mc_cfg, workers=WORKERS, timeout=1500),
                           lambda: tlc.simulate(SPEC_DIR, "MCTpGen", sim_cfg, num=30 if quick else 200, depth=50,
                                                seed=rep.seed * 13 + 45, timeout=1800)])
    rep.add_mc("MCTpGen ValidLat=1 ReadyLat=1 Fields=%s MaxReq=%d" % (fields, maxreq), res,
               {"ValidLat": 1, "ReadyLat": 1, "Fields": fields, "MaxReq": maxreq})

    # stimuli: clean = no ERDY request (trigger of the known dispatch defect); witness = with ERDY requests
    jobs = []
    for b in behs:
        stim = []
        for _, st in b[1:]:
            i = st["in"]
            kind = next((k for k in TP_KINDS if i[k]), None)
            stim.append({"req": kind, "ep": i["ep"], "rty": i["rty"], "seq": i["seq"], "addr": i["addr"], "hqr": i["hqr"]})
        if any(s["req"] == "erdy" for s in stim):
            jobs.append((stim, "tlc-simulate", "witness"))
        jobs.append(([dict(s, req=None if s["req"] == "erdy" else s["req"]) for s in stim],
                     "tlc-simulate-no-erdy", "clean"))
    n_rand, length = (24, 150) if quick else (200, 400)
    for _ in range(n_rand):
        jobs.append((_tp_random_stim(rng, length, ["ack", "stall", "nrdy"]), "random", "clean"))
    for _ in range(max(4, n_rand // 4)):
        jobs.append((_tp_random_stim(rng, length, list(TP_KINDS)), "random", "witness"))
    # structured: every kind x every endpoint / every sequence number / every address bit
    sweep = []
    for kind in ("ack", "stall", "nrdy"):
        for v in range(32):
            f = {"ep": v % 16, "rty": (v >> 2) & 1, "seq": v, "addr": (1 << (v % 7)) | (v >> 3)}
            sweep.append(dict(f, req=kind, hqr=False))
            g = {"ep": 15 - f["ep"], "rty": 1 - f["rty"], "seq": 31 - v, "addr": 127 - f["addr"]}
            sweep += [dict(g, req=None, hqr=False), dict(g, req=None, hqr=True), dict(g, req=None, hqr=False)]
    jobs.append((sweep, "field-sweep", "clean"))
    jobs.append(([dict(s, req="erdy" if s["req"] == "nrdy" else s["req"]) for s in sweep], "field-sweep", "witness"))

    # systematic one-cycle alignments (integrator hint): header-queue ready edge at every offset around the request
    # strobe; fields changing right after the request; a second request at every offset around the hand-over
    for kind in ("ack", "stall", "nrdy"):
        for d in range(16):
            f1 = {"ep": 9, "rty": 1, "seq": 19, "addr": 0x53}
            f2 = {"ep": 6, "rty": 0, "seq": 12, "addr": 0x2C}
            st = [dict(f2, req=None, hqr=False)] * 2 + [dict(f1, req=kind, hqr=(d == 0))]
            st += [dict(f2, req=None, hqr=(k == d)) for k in range(1, 18)]
            st += [dict(f2, req=None, hqr=True)] * 6                                 # drain
            jobs.append((st, "sweep-hq-ready-edge", "clean"))
            k2 = {"ack": "nrdy", "stall": "ack", "nrdy": "stall"}[kind]
            st = [dict(f1, req=kind, hqr=False)] + [dict(f2, req=None, hqr=False)] * 3
            st += [dict(f2 if k != d else f1, req=(k2 if k == d else None), hqr=(k >= 4)) for k in range(0, 16)]
            st += [dict(f2, req=None, hqr=True)] * 6
            jobs.append((st, "sweep-second-request", "clean"))
    for stim, _, _ in jobs:
        stim.extend([dict(stim[-1], req=None, hqr=True)] * (TP_LAT + 3))              # end-of-trace drain

    bench, dut = _tp_bench()
    items = []
    for stim, origin, klass in jobs:
        tr = _tp_run(bench, dut, stim)
        rep.add_eval(len(tr))
        stall = 0
        for r in tr:
            stall = stall + 1 if (r["hv"] and not r["hqr"]) else 0
            if r["ready"] and any(r[k] for k in TP_KINDS):
                rep.nontriv(("req",) + tuple(r[k] for k in TP_KINDS) + (r["ep"], r["rty"], r["seq"], r["addr"]))
            if r["hv"] and r["hqr"]:
                rep.nontriv(("tp", r["dw0hi"], r["dw1lo"], r["dw1hi"], min(stall, 8)))
        items.append((tr, {"origin": origin, "class": klass}))
    rep.sample({"meta": items[0][1], "first_cycles": items[0][0][:5]})
    cfg = tlc.render_cfg(_cfg("TpGenTrace.cfg.tmpl"), {"ValidLat": TP_LAT, "ReadyLat": TP_LAT})
    validate_group(rep, SPEC_DIR, "TpGenTrace", cfg, items, classify=_tp_classify)


# =====================================================================================================
# C48 — SuperSpeed setup decoder and GET_DESCRIPTOR handler
# =====================================================================================================
SETUP_MAXLAT = 3
DESC_MAXLAT = 4
_MASK = {0: 0, 1: 1, 2: 3, 3: 7, 4: 15}
_NOF = {0: 0, 1: 1, 3: 2, 7: 3, 15: 4}


def _setup_bench():
    use_repo()
    from luna.gateware.usb.usb3.application.request import SuperSpeedSetupDecoder
    dut = SuperSpeedSetupDecoder()
    return _Bench(dut), dut


def _setup_run(bench, dut, stim):
    """stim: list of dicts {n, first, last, data, setup, good, bad}; returns per-cycle records."""
    rec = []
    pk = dut.packet

    async def fn(ctx):
        for st in stim:
            ctx.set(dut.sink.valid, _MASK[st["n"]])
            ctx.set(dut.sink.first, int(st["first"]))
            ctx.set(dut.sink.last, int(st["last"]))
            ctx.set(dut.sink.payload, st["data"])
            if "hdr" in st:                       # every other field of the data packet header: arbitrary
                ctx.set(dut.header_in, st["hdr"])
            ctx.set(dut.sink.ready, (st.get("hdr", 0) >> 3) & 1)      # the sink's ready is documented as read-only/ignored
            ctx.set(dut.header_in.setup, int(st["setup"]))
            ctx.set(dut.rx_good, int(st["good"]))
            ctx.set(dut.rx_bad, int(st["bad"]))
            lo, hi = _lim(st["data"])
            rec.append({"n": st["n"], "first": bool(st["first"]), "last": bool(st["last"]), "lo": lo, "hi": hi,
                        "setup": bool(st["setup"]), "good": bool(st["good"]), "bad": bool(st["bad"]),
                        "rcv": bool(ctx.get(pk.received)), "dir": int(ctx.get(pk.is_in_request)),
                        "type": int(ctx.get(pk.type)), "rcp": int(ctx.get(pk.recipient)), "req": int(ctx.get(pk.request)),
                        "val": int(ctx.get(pk.value)), "idx": int(ctx.get(pk.index)), "len": int(ctx.get(pk.length))})
            await ctx.tick("ss")
    bench.run(fn)
    return rec


def _setup_headers(stim, rng):
    """Give every cycle a full 128-bit data packet header: random but stable from one verdict to the next (as the
    link layer's header register), type DATA, data_length = the bytes the coming packet really carries; the Setup
    flag is driven separately from the stimulus.  Fields the property does not mention must not matter."""
    out = []
    k = 0
    while k < len(stim):
        j = k
        nbytes = 0
        while j < len(stim):
            nbytes += stim[j]["n"]
            if stim[j]["good"] or stim[j]["bad"]:
                break
            j += 1
        h = rng.getrandbits(128)
        h = (h & ~0x1F) | 8                                   # type = DATA
        h = (h & ~(0xFFFF << 48)) | ((nbytes & 0xFFFF) << 48)  # DW1[31:16] data length
        for c in stim[k:j + 1]:
            out.append(dict(c, hdr=h))
        k = j + 1
    return out


def _setup_packet_cycles(rng, payload, setup, verdict, gap_prob=0.25, noise=True):
    """Cycles of one data packet: payload bytes, Setup flag, verdict 'good' | 'bad' | ('abort', k words)."""
    cyc = []
    words = [payload[i:i + 4] for i in range(0, len(payload), 4)]
    abort_at = verdict[1] if isinstance(verdict, tuple) else None

    def idle(before_last):
        # the link receiver shows first until the first word passed, and last whenever <= 4 bytes remain
        f = rng.random() < 0.5 if noise else False
        la = (before_last or rng.random() < 0.3) if noise else False
        return {"n": 0, "first": f, "last": la, "data": rng.getrandbits(32) if noise else 0, "setup": setup,
                "good": False, "bad": False}
    for _ in range(rng.randint(0, 2)):
        cyc.append(idle(len(words) <= 1))
    for k, w in enumerate(words):
        while rng.random() < gap_prob:
            cyc.append(idle(k == len(words) - 1))
        data = int.from_bytes(bytes(w) + bytes(rng.getrandbits(8) for _ in range(4 - len(w))), "little")
        c = {"n": len(w), "first": k == 0, "last": k == len(words) - 1, "data": data, "setup": setup,
             "good": False, "bad": False}
        if abort_at is not None and k == abort_at:
            c["bad"] = True
            cyc.append(c)
            return cyc
        cyc.append(c)
    while rng.random() < gap_prob:
        cyc.append(idle(False))
    v = idle(False)
    v["good"], v["bad"] = (verdict == "good"), (verdict != "good")
    cyc.append(v)
    return cyc


def _setup_random_stim(rng, npk, clean):
    """A sequence of data packets.  `clean` avoids the trigger of the known runt-SETUP defect
    (a *good* flagged packet of 4..7 bytes); witness stimuli contain such packets."""
    cyc = []
    for _ in range(npk):
        kind = rng.random()
        setup = rng.random() < 0.65
        if kind < 0.45:
            ln = 8
        elif kind < 0.6:
            ln = rng.choice([0, 1, 2, 3, 9, 10, 11, 12, 16, 20])
        elif kind < 0.8:
            ln = rng.choice([4, 5, 6, 7])
        else:
            ln = rng.randint(0, 24)
        verdict = "good" if rng.random() < 0.7 else "bad"
        nwords = (ln + 3) // 4
        if verdict == "bad" and nwords >= 2 and rng.random() < 0.4:
            verdict = ("abort", rng.randrange(1, nwords))
        if clean and setup and verdict == "good" and 4 <= ln <= 7:
            if rng.random() < 0.5:
                verdict = "bad"
            else:
                setup = False
        payload = [rng.choice([0, 255, 0x80, rng.getrandbits(8), rng.getrandbits(8)]) for _ in range(ln)]
        cyc += _setup_packet_cycles(rng, payload, setup, verdict)
        for _ in range(rng.randint(0, 3)):
            cyc.append({"n": 0, "first": rng.random() < 0.3, "last": rng.random() < 0.3, "data": rng.getrandbits(32),
                        "setup": rng.random() < 0.5, "good": False, "bad": False})
    cyc += [{"n": 0, "first": False, "last": False, "data": 0, "setup": False, "good": False, "bad": False}] * (SETUP_MAXLAT + 1)
    return cyc


def _setup_packets(cycles):
    """Packets of a stimulus / trace prefix: list of dicts {end, bytes, flagged, good, full_word}."""
    out = []
    n, flagged, full, nwords = 0, False, False, 0
    for k, c in enumerate(cycles):
        if c["n"] > 0:
            if c["first"]:
                n, flagged, full, nwords = 0, c["setup"], False, 0
            n += c["n"]
            nwords += 1
            full = full or c["n"] == 4
        if c["good"] or c["bad"]:
            out.append({"end": k, "bytes": n, "flagged": flagged, "good": c["good"], "full_word": full,
                        "abort_first": bool(c["bad"] and c["n"] == 4 and nwords == 1)})
            n, flagged, full, nwords = 0, False, False, 0
    return out


def _is_runt(p):
    return p["good"] and p["flagged"] and 4 <= p["bytes"] <= 7


def _is_abort_first(p):
    return p["flagged"] and p["abort_first"]


def _setup_has_trigger(stim):
    """Does the stimulus contain a trigger of a known decoder defect: a good flagged packet of 4..7 bytes, or a
    flagged packet aborted (bad) in the cycle of its first full word?"""
    return any(_is_runt(p) or _is_abort_first(p) for p in _setup_packets(stim))


def _setup_classify(trace, matched, status, meta):
    """Known cause: a good flagged 4..7-byte packet left the decoder mid-parse; the damage is confined to the
    first later packet that carries a full word (it is reported though it should not be, or a SETUP is dropped)."""
    _env_guard(status, meta)
    pattern = "other"
    if status in ("spurious_received", "received_missing"):
        pk = _setup_packets(trace[:matched])
        fail = matched - 1                                    # 0-based index of the failing record
        for k in range(len(pk) - 1, -1, -1):
            if not (_is_runt(pk[k]) or _is_abort_first(pk[k])):
                continue
            victim = next((p for p in pk[k + 1:] if p["full_word"]), None)     # first later packet with a full word
            if victim is None:
                continue
            if status == "received_missing":
                hit = victim["good"] and victim["flagged"] and victim["bytes"] == 8 and \
                    0 <= fail - victim["end"] <= SETUP_MAXLAT + 1
            else:
                hit = 0 <= fail - victim["end"] <= 2
            if hit:
                pattern = "next_full_word_packet_after_good_flagged_packet_of_4_to_7_bytes" if _is_runt(pk[k]) \
                    else "next_full_word_packet_after_flagged_packet_aborted_with_its_first_word"
                break
    if status in ("spurious_received", "received_missing"):
        return {"clause": "received", "detail": status, "pattern": pattern}
    return {"clause": status, "pattern": pattern}


def _desc_tables(rng, n):
    """Random descriptor collections: sparse indices, non-standard types, lengths 1..40 (every length mod 4)."""
    tables = []
    for k in range(n):
        keys = set()
        tbl = []
        for _ in range(rng.randint(2, 6)):
            ty = rng.choice([1, 2, 3, 3, 3, 6, 15, 0x21, 0x30])
            idx = rng.choice([0, 0, 1, 2, 3, 5, 9, 255]) if ty in (3, 0x21) else rng.choice([0, 0, 1])
            if (ty, idx) in keys:
                continue
            keys.add((ty, idx))
            ln = rng.choice([1, 2, 3, 4, 5, 7, 8, 9, 12, 18, rng.randint(1, 40)])
            tbl.append((ty, idx, [rng.getrandbits(8) for _ in range(ln)]))
        tables.append(tbl)
    return tables


def _desc_bench(tbl):
    use_repo()
    from usb_protocol.emitters.descriptors.standard import DeviceDescriptorCollection
    from luna.gateware.usb.usb3.application.descriptor import GetDescriptorHandler
    coll = DeviceDescriptorCollection(automatic_language_descriptor=False)
    for ty, idx, data in tbl:
        coll.add_descriptor(bytes(data), index=idx, descriptor_type=ty)
    dut = GetDescriptorHandler(coll)
    return _Bench(dut), dut


def _desc_run(bench, dut, reqs, rng, stall=None, ready=None):
    """reqs: list of (value, length, idle cycles before start).  The driver keeps the Env: it starts a request only
    when the previous response is over (stall seen / last beat transferred / nothing for DESC_MAXLAT+2 cycles)."""
    rec = []

    async def fn(ctx):
        async def cycle(start, value, length, rdy):
            ctx.set(dut.start, int(start))
            ctx.set(dut.value, value)
            ctx.set(dut.length, length)
            ctx.set(dut.tx.ready, int(rdy))
            v = int(ctx.get(dut.tx.valid))
            d = int(ctx.get(dut.tx.payload))
            r = {"start": bool(start), "value": value, "length": length, "rdy": bool(rdy),
                 "n": _NOF.get(v, 9), "first": bool(ctx.get(dut.tx.first)), "last": bool(ctx.get(dut.tx.last)),
                 "lo": d & 0xFFFF, "hi": d >> 16, "txlen": int(ctx.get(dut.tx_length)), "stall": bool(ctx.get(dut.stall))}
            rec.append(r)
            await ctx.tick("ss")
            return r
        for value, length, pre in reqs:
            for _ in range(pre):
                await cycle(False, value, length, rng.random() < 0.5)
            mood = rng.choice(["fast", "slow", "random", "random"])
            quiet = 0
            first = True
            beats, budget = 0, (stall[1] if stall else 0)
            for _ in range(400):
                rdy = {"fast": True, "slow": rng.random() < 0.2, "random": rng.random() < 0.5}[mood]
                if ready is not None:
                    rdy = ready
                if stall is not None:                      # tx.ready low exactly at beat `stall[0]` for stall[1] cycles
                    rdy = True
                    if ctx.get(dut.tx.valid) and beats == stall[0] and budget > 0:
                        rdy = False
                        budget -= 1
                r = await cycle(first, value, length, rdy)
                first = False
                if r["n"] > 0 and r["rdy"]:
                    beats += 1
                if r["stall"] or (r["n"] > 0 and r["rdy"] and r["last"]):
                    break
                quiet = quiet + 1 if r["n"] == 0 else 0
                if quiet > DESC_MAXLAT + 2:
                    break
        for _ in range(DESC_MAXLAT + 2):
            await cycle(False, 0, 0, True)
    bench.run(fn)
    return rec


def _desc_requests(rng, tbl, n):
    keys = [(ty << 8) | idx for ty, idx, _ in tbl]
    lens = {(ty << 8) | idx: len(d) for ty, idx, d in tbl}
    reqs = []
    for _ in range(n):
        k = rng.random()
        if k < 0.7:
            v = rng.choice(keys)
            ln = lens[v]
            length = rng.choice([0, 1, 2, 3, 4, 5, max(ln - 1, 0), ln, ln + 1, ln + 3, 64, 255, 256, 65535, rng.randint(0, ln + 4)])
        else:
            base = rng.choice(keys)
            v = rng.choice([base ^ (1 << rng.randrange(16)), base ^ (1 << rng.randrange(16)), (base + 1) & 0xFFFF,
                            (base + 0x100) & 0xFFFF, rng.getrandbits(16)])
            length = rng.choice([0, 1, 8, 64, 65535])
        reqs.append((v, length, rng.randint(0, 3)))
    return reqs


def _desc_classify(trace, matched, status, meta):
    _env_guard(status, meta)
    return {"clause": status, "pattern": "other"}


def check_C48(rep):
    quick = rep.tier == "quick"
    rng = rep.rng
    rep.rule = ("cycles of the real SuperSpeedSetupDecoder / GetDescriptorHandler validated against SsSetup.tla / "
                "SsDesc.tla; non-trivial = a packet verdict or report cycle (decoder; distinct by length, flag, verdict, "
                "fields) or a request / beat / stall cycle (handler; distinct by table, wValue, wLength, beat)")
    rep.assume("setup decoder: words of a packet carry first/last, only the last word is partial, exactly one good/bad "
               "strobe per packet after its last word (bad may abort a packet early), Setup flag stable through a packet")
    rep.assume("descriptor handler: start only while no response is in progress; wValue/wLength held during a response; "
               "wLength = 0 requires nothing; a beat counts when tx.valid and tx.ready coincide")
    rep.assume("latency free within bounds: report <= %d cycles after good; first beat / stall <= %d cycles after start"
               % (SETUP_MAXLAT, DESC_MAXLAT))

    # 1. exhaustive exploration + simulation of both specifications, concurrently
    words = "WordsQuick" if quick else "WordsThorough"
    mcs = tlc.render_cfg(_cfg("MCSsSetup.cfg.tmpl"), {"Words": words, "MaxLat": 1, "MaxPkts": 2, "MaxBytes": 12,
                                                       "Ns": "{2, 4}" if quick else "{1, 3, 4}"})
    vals, lens, maxreqs = ("{256, 512, 770, 769}", "{0, 1, 4, 5, 8, 9}", 2) if quick else \
        ("{256, 512, 770, 769, 257, 1024}", "{0, 1, 2, 3, 4, 5, 7, 8, 9, 64}", 3)
    mcd = tlc.render_cfg(_cfg("MCSsDesc.cfg.tmpl"), {"MaxLat": 2, "Values": vals, "Lengths": lens, "MaxReqs": maxreqs})
    sims = tlc.render_cfg(_cfg("MCSsSetup_sim.cfg.tmpl"), {"Words": "WordsThorough", "MaxLat": SETUP_MAXLAT})
    simd = tlc.render_cfg(_cfg("MCSsDesc_sim.cfg.tmpl"), {"MaxLat": DESC_MAXLAT})
    nsim = 30 if quick else 200
    r_s, r_d, b_s, b_d = _parallel([
        lambda: tlc.model_check(SPEC_DIR, "MCSsSetup", mcs, workers=WORKERS, timeout=1500),
        lambda: tlc.model_check(SPEC_DIR, "MCSsDesc", mcd, workers=4, timeout=1500, allow_uncovered=("Action",)),
        lambda: tlc.simulate(SPEC_DIR, "MCSsSetup", sims, num=nsim, depth=60, seed=rep.seed * 17 + 48, timeout=1800),
        lambda: tlc.simulate(SPEC_DIR, "MCSsDesc", simd, num=nsim, depth=40, seed=rep.seed * 19 + 48, timeout=1800)])
    rep.add_mc("MCSsSetup Words=%s MaxLat=1 MaxPkts=2 MaxBytes=12" % words, r_s,
               {"Words": words, "MaxLat": 1, "MaxPkts": 2, "MaxBytes": 12})
    rep.add_mc("MCSsDesc 3-descriptor table (sparse index) Values=%s Lengths=%s MaxReqs=%d" % (vals, lens, maxreqs), r_d,
               {"Values": vals, "Lengths": lens, "MaxReqs": maxreqs, "MaxLat": 2})

    # 2. setup decoder: stimuli (clean = no good flagged 4..7-byte packet; witness = with)
    sjobs = []
    for b in b_s:
        stim = [{"n": st["in"]["n"], "first": st["in"]["first"], "last": st["in"]["last"],
                 "data": st["in"]["lo"] | (st["in"]["hi"] << 16), "setup": st["in"]["setup"],
                 "good": st["in"]["good"], "bad": st["in"]["bad"]} for _, st in b[1:]]
        stim += [{"n": 0, "first": False, "last": False, "data": 0, "setup": stim[-1]["setup"], "good": False,
                  "bad": False}] * 4
        sjobs.append((stim, "tlc-simulate", "witness" if _setup_has_trigger(stim) else "clean"))
    n_rand, npk = (30, 14) if quick else (300, 30)
    for _ in range(n_rand):
        sjobs.append((_setup_random_stim(rng, npk, True), "random", "clean"))
    for _ in range(max(8, n_rand // 4)):
        st = _setup_random_stim(rng, 5, False)
        sjobs.append((st, "random", "witness" if _setup_has_trigger(st) else "clean"))
    # the repository's directed scenario (tests/test_usb3_request.py), re-driven
    directed = [{"n": 4, "first": True, "last": False, "data": 0x2211AAC1, "setup": True, "good": False, "bad": False},
                {"n": 4, "first": False, "last": True, "data": 0x00043344, "setup": True, "good": False, "bad": False},
                {"n": 0, "first": False, "last": True, "data": 0x00043344, "setup": True, "good": True, "bad": False}]
    directed += [{"n": 0, "first": False, "last": False, "data": 0, "setup": True, "good": False, "bad": False}] * 4
    sjobs.append((directed, "repo-directed", "clean"))
    # systematic alignments (integrator hint): verdict strobe at every offset after the last word; idle gaps at every
    # position of an 8-byte SETUP; the next packet at every offset after the verdict; bad exactly with each word
    Z = {"n": 0, "first": False, "last": False, "data": 0, "setup": True, "good": False, "bad": False}
    w1 = dict(Z, n=4, first=True, data=0x03020180)
    w2 = dict(Z, n=4, last=True, data=0x00400000)
    for d in range(1, 17):
        for verdict in ("good", "bad"):
            sjobs.append(([dict(w1), dict(w2)] + [dict(Z, last=True)] * (d - 1) + [dict(Z, **{verdict: True})] + [dict(Z)] * 5,
                          "sweep-verdict-offset", "clean"))
        sjobs.append(([dict(w1), dict(w2), dict(Z, good=True)] + [dict(Z)] * (d - 1) +
                      [dict(w1, data=0x06050480), dict(w2, data=0x00120000), dict(Z, good=True)] + [dict(Z)] * 5,
                      "sweep-next-packet-offset", "clean"))
    for g0 in range(3):
        for g1 in range(4):
            sjobs.append(([dict(Z, first=True)] * g0 + [dict(w1)] + [dict(Z, last=True)] * g1 + [dict(w2), dict(Z, good=True)] +
                          [dict(Z)] * 5, "sweep-gaps", "clean"))
    for k, wk in enumerate((w1, w2)):
        sjobs.append(([dict(w1), dict(w2)][:k] + [dict(wk, bad=True)] + [dict(Z)] * 2 +
                      [dict(w1, data=0x0A090880), dict(w2, data=0x00080000), dict(Z, good=True)] + [dict(Z)] * 5,
                      "sweep-bad-with-word", "witness" if k == 0 else "clean"))     # k = 0: known trigger
    for n_last in (1, 2, 3, 4):                                        # second word with 1..4 valid bytes
        for verdict in ("good", "bad"):
            if verdict == "good" and n_last < 4:
                continue                                               # (good flagged 5..7-byte packet: known trigger)
            sjobs.append(([dict(w1), dict(w2, n=n_last), dict(Z, **{verdict: True})] + [dict(Z)] * 2 +
                          [dict(w1), dict(w2), dict(Z, good=True)] + [dict(Z)] * 5, "sweep-last-word-size", "clean"))
    sbench, sdut = _setup_bench()
    sitems = []
    for stim, origin, klass in sjobs:
        tr = _setup_run(sbench, sdut, _setup_headers(stim, rng))
        rep.add_eval(len(tr))
        ln, fl = 0, False
        for r in tr:
            if r["n"] > 0:
                if r["first"]:
                    ln, fl = 0, r["setup"]
                ln += r["n"]
            if r["good"] or r["bad"]:
                rep.nontriv(("pkt", ln, fl, r["good"]))
                ln, fl = 0, False
            if r["rcv"]:
                rep.nontriv(("rcv", r["dir"], r["type"], r["rcp"], r["req"], r["val"], r["idx"], r["len"]))
        sitems.append((tr, {"dut": "SuperSpeedSetupDecoder", "origin": origin, "class": klass}))
    rep.sample({"meta": sitems[-1][1], "cycles": sitems[-1][0][:4]})

    # 3. descriptor handler: TLC-simulated requests on the model's table, random requests on random tables
    ditems = []
    mctable = [(1, 0, [18, 1, 32, 3, 0, 0, 0, 9]), (2, 0, [9, 2, 5, 0, 1]), (3, 2, [4, 3, 76])]
    bench, dut = _desc_bench(mctable)
    jtab = [{"key": (ty << 8) | idx, "bytes": d} for ty, idx, d in mctable]
    for b in b_d:
        reqs = [(st["in"]["value"], st["in"]["length"], 0) for _, st in b[1:] if st["in"]["start"]]
        if not reqs:
            continue
        tr = _desc_run(bench, dut, reqs, rng)
        rep.add_eval(len(tr))
        ditems.append(({"cfg": {"table": jtab}, "steps": tr}, {"dut": "GetDescriptorHandler", "origin": "tlc-simulate",
                                                                "table": "model"}))
    # systematic alignments on the model's table: tx.ready low for 1..2 cycles at every beat of every response
    # length; the next request at every offset after the previous response
    bench, dut = _desc_bench(mctable)
    for length in (1, 4, 5, 8, 64):
        for beat in range(3):
            for ln in (1, 2):
                tr = _desc_run(bench, dut, [(0x0100, length, 1), (0x0200, length, 0)], rng, stall=(beat, ln))
                rep.add_eval(len(tr))
                ditems.append(({"cfg": {"table": jtab}, "steps": tr}, {"dut": "GetDescriptorHandler", "origin": "sweep-stall",
                                                                        "table": "model"}))
    for d in range(0, 16):
        tr = _desc_run(bench, dut, [(0x0200, 64, 1), (0x0302, 2, d), (0x0301, 2, d), (0x0100, 7, d)], rng, ready=True)
        rep.add_eval(len(tr))
        ditems.append(({"cfg": {"table": jtab}, "steps": tr}, {"dut": "GetDescriptorHandler", "origin": "sweep-next-request",
                                                                "table": "model"}))
    n_tab, n_req = (5, 14) if quick else (30, 40)
    for k, tbl in enumerate(_desc_tables(rng, n_tab)):
        bench, dut = _desc_bench(tbl)
        jtab = [{"key": (ty << 8) | idx, "bytes": d} for ty, idx, d in tbl]
        for rep_k in range(3 if quick else 5):
            if rep_k == 0:      # every single-bit neighbour of every known wValue (the selection must be exact)
                reqs = [(key ^ (1 << bit), 8, 0) for key in [(ty << 8) | idx for ty, idx, _ in tbl] for bit in range(16)]
            else:
                reqs = _desc_requests(rng, tbl, n_req)
            tr = _desc_run(bench, dut, reqs, rng)
            rep.add_eval(len(tr))
            ditems.append(({"cfg": {"table": jtab}, "steps": tr},
                           {"dut": "GetDescriptorHandler", "origin": "random", "table": [(t, i, len(d)) for t, i, d in tbl]}))
    for t, meta in ditems:
        for r in t["steps"]:
            if r["start"]:
                rep.nontriv(("req", str(meta["table"]), r["value"], min(r["length"], 70)))
            if r["stall"] or (r["n"] > 0 and r["rdy"]):
                rep.nontriv(("out", str(meta["table"]), r["value"], r["stall"], r["n"], r["lo"], r["hi"], r["first"], r["last"]))
    rep.sample({"meta": ditems[-1][1], "cycles": ditems[-1][0]["steps"][:5]})

    # 4. TLC validates all recorded traces (two batches, concurrently)
    cfs = tlc.render_cfg(_cfg("SsSetupTrace.cfg.tmpl"), {"MaxLat": SETUP_MAXLAT})
    cfd = tlc.render_cfg(_cfg("SsDescTrace.cfg.tmpl"), {"MaxLat": DESC_MAXLAT})
    _parallel([lambda: validate_group(rep, SPEC_DIR, "SsSetupTrace", cfs, sitems, classify=_setup_classify),
               lambda: validate_group(rep, SPEC_DIR, "SsDescTrace", cfd, ditems, classify=_desc_classify,
                                      steps_of=lambda t: len(t["steps"]))])


# =====================================================================================================
# C46 — SuperSpeed stream IN endpoint (+ real TransactionPacketGenerator)
# =====================================================================================================
INEP_GRACE = 2
INEP_ADDR = 0x2A
INEP_QUIET = 24           # quiet cycles (all ready signals high) before the `end` event


class _InEpRig:
    """SuperSpeedStreamInEndpoint wired to a real TransactionPacketGenerator the way USB3ProtocolLayer does."""

    def __init__(self, epn, mps):
        use_repo()
        from amaranth import Elaboratable, Module
        from luna.gateware.usb.usb3.endpoints.stream import SuperSpeedStreamInEndpoint
        from luna.gateware.usb.usb3.protocol.transaction import TransactionPacketGenerator
        ep = SuperSpeedStreamInEndpoint(endpoint_number=epn, max_packet_size=mps)
        gen = TransactionPacketGenerator()

        class Top(Elaboratable):
            def elaborate(self, platform):
                m = Module()
                m.submodules.ep = ep
                m.submodules.gen = gen
                m.d.comb += gen.interface.connect(ep.interface.handshakes_out)
                return m
        self.ep, self.gen, self.epn, self.mps = ep, gen, epn, mps
        self.bench = _Bench(Top())


def _inep_run(rig, script):
    """Drive one execution.  script = {words: [{bytes,last,gap}], host: [{k,d,nump}], avoid: set, seed, hq, txr,
    other: p} (see _inep_random_script).  Returns (events, info): events carry the cycle number `t`;
    `tp` events come in two flavours marked by `view`: "req" (request accepted by the generator) and "wire"."""
    import random
    rng = random.Random(script.get("seed", 0))
    ep, gen, mps, epn = rig.ep, rig.gen, rig.mps, rig.epn
    itf, hin, ho = ep.interface, ep.interface.handshakes_in, ep.interface.handshakes_out
    avoid = set(script.get("avoid", ()))
    words = list(script["words"])
    host = list(script["host"])
    events = []
    info = {"cycles": 0, "quiet_end": False}

    async def fn(ctx):
        t = 0
        wi, wgap = 0, (words[0]["gap"] if words else 0)
        cur_len = 0                   # bytes accepted into the packet being assembled
        ready_pk = 0                  # complete packets accepted and not yet sent for the first time
        # host model state
        hstate = "idle"               # idle | wait (request outstanding) | got_dp
        hexp = 0                      # next sequence number the host expects
        timer = None                  # cycles until the pending host decision fires
        decision = None
        flow_nrdy = False             # host saw NRDY for us and no ERDY / data since
        erdy_seen = False
        want_kind = None              # kind of the request the generator is currently sending
        dp = None                     # data packet in progress on tx
        lost_last = False
        last_what = None
        prev_erdy = False
        n_accepts = 0
        quiet = 0
        ctx.set(gen.address, INEP_ADDR)
        maxc = script.get("max_cycles", 3000)
        while t < maxc:
            draining = quiet > 3              # nothing is happening: stop stalling, give the device every chance
            # ---- header queue / tx ready patterns
            hq_ready = True if draining else _pattern(rng, script.get("hq", "fast"), t)
            tx_ready = True if draining else _pattern(rng, script.get("txr", "fast"), t)
            if isinstance(script.get("txr"), dict) and "stall_beat" in script["txr"] and not draining:
                sb = script["txr"]
                nbeats = len(dp["beats"]) if dp is not None else 0
                if ctx.get(itf.tx.valid) and nbeats == sb["stall_beat"] and sb.setdefault("left", sb["len"]) > 0:
                    tx_ready = False
                    sb["left"] -= 1
            tx_valid = ctx.get(itf.tx.valid)
            if script.get("txr") == "stall_last" and not draining:
                tx_ready = not (tx_valid and ctx.get(itf.tx.last))
            if "txstall_last" in avoid and tx_valid and ctx.get(itf.tx.last):
                tx_ready = True
            ctx.set(gen.header_source.ready, int(hq_ready))
            ctx.set(itf.tx.ready, int(tx_ready))
            gen_busy = not ctx.get(gen.interface.ready)

            # ---- host: pick / time the next decision
            if decision is None and host:
                cand = host[0]
                fits = (hstate == "idle" and cand["k"] in ("poll", "poll_after_erdy")) or \
                       (hstate == "got_dp" and cand["k"] in ("accept", "retry"))
                if fits:
                    decision = host.pop(0)
                    timer = max(1, decision.get("d", 1))
                    if "at" in decision:                    # absolute cycle (offset sweeps)
                        timer = max(1, decision["at"] - t + 1)
                elif hstate != "wait":
                    host.pop(0)                      # does not apply in this situation: skip it
            ack = None
            if decision is not None and hstate in ("idle", "got_dp"):
                fire = False
                if decision["k"] == "poll_after_erdy" and flow_nrdy and not erdy_seen and \
                        (decision.get("timeout", 60) is None or decision.get("timeout", 60) > 0):
                    if decision.get("timeout", 60) is not None:            # None: a host that only resumes on ERDY
                        decision["timeout"] = decision.get("timeout", 60) - 1
                else:
                    timer -= 1
                    fire = timer <= 0
                if fire:
                    k = decision["k"]
                    if k == "poll" and decision.get("with") == "erdy" and not ctx.get(ho.send_erdy):
                        ack = None                               # directed: poll exactly while the ERDY is requested
                        timer = 1
                        if decision.setdefault("patience", 200) <= 0:
                            decision["with"] = None
                        decision["patience"] -= 1
                    elif k in ("poll", "poll_after_erdy"):
                        if "poll_during_erdy" in avoid and (ctx.get(ho.send_erdy) or (gen_busy and want_kind == "erdy")):
                            ack = None                           # not while the ERDY is being sent
                        else:
                            ack = {"seq": hexp, "nump": 1, "rty": 0, "what": "poll"}
                    elif k == "retry":
                        ack = {"seq": hexp, "nump": 1, "rty": 1, "what": "retry"}
                    else:
                        nump = decision.get("nump", 1)
                        nxt_ready = ready_pk > 0
                        if "ack_without_next" in avoid and not nxt_ready:
                            if wi < len(words):
                                ack = None                       # wait until the next packet is complete
                            else:
                                nump = 0                          # final packet: acknowledge only
                                ack = {"seq": (hexp + 1) % 32, "nump": 0, "rty": 0, "what": "accept"}
                        else:
                            ack = {"seq": (hexp + 1) % 32, "nump": nump, "rty": 0, "what": "accept"}
            # ---- producer: present the next word?
            present = False
            if wi < len(words):
                if wgap > 0:
                    wgap -= 1
                else:
                    w = words[wi]
                    n = len(w["bytes"])
                    completes = (cur_len + n >= mps) or w["last"]
                    veto = False
                    if "complete_during_tp" in avoid and completes and \
                            (gen_busy or (ack is not None and ack["what"] == "poll" and ready_pk == 0)
                             or ctx.get(ho.send_nrdy) or ctx.get(ho.send_erdy)):
                        veto = True
                    if "last_in_ack_cycle" in avoid and w["last"] and ack is not None and ack["what"] == "accept":
                        veto = True
                    if t < w.get("at", 0):
                        veto = True                       # absolute cycle (offset sweeps)
                    if n_accepts < w.get("after_accepts", 0):
                        veto = True                       # directed: the buffer is still empty when that ACK arrives
                    if w.get("with") == "accept" and not (ack is not None and ack["what"] == "accept"):
                        veto = True                       # directed: hold the word until the accepting ACK's cycle
                    if w.get("with") == "poll" and not (ack is not None and ack["what"] == "poll"):
                        veto = True
                    present = not veto
            if present:
                w = words[wi]
                n = len(w["bytes"])
                ctx.set(ep.stream.valid, _MASK[n])
                ctx.set(ep.stream.payload, int.from_bytes(bytes(w["bytes"]) + bytes(4 - n), "little"))
                ctx.set(ep.stream.last, int(w["last"]))
                ctx.set(ep.stream.first, 0)
            else:
                ctx.set(ep.stream.valid, 0)
                ctx.set(ep.stream.last, 0)
            # ---- host ACK strobe (ours, or noise for another endpoint)
            if ack is not None:
                ctx.set(hin.ack_received, 1)
                ctx.set(hin.endpoint_number, epn)
                ctx.set(hin.next_sequence, ack["seq"])
                ctx.set(hin.number_of_packets, ack["nump"])
                ctx.set(hin.retry_required, ack["rty"])
                # fields the property does not mention must not matter
                ctx.set(hin.packets_pending, rng.getrandbits(1))
                ctx.set(hin.host_error, ack["rty"] & rng.getrandbits(1))
                ctx.set(hin.direction, 1)
                ctx.set(hin.status_received, 0)
            elif rng.random() < script.get("other", 0.0):
                oep = (epn + rng.randint(1, 15)) % 16
                oa = {"ep": oep, "seq": rng.randrange(32), "nump": rng.randrange(3), "rty": rng.randrange(2)}
                ctx.set(hin.ack_received, 1)
                ctx.set(hin.endpoint_number, oep)
                ctx.set(hin.next_sequence, oa["seq"])
                ctx.set(hin.number_of_packets, oa["nump"])
                ctx.set(hin.retry_required, oa["rty"])
                ctx.set(hin.packets_pending, rng.getrandbits(1))
                ctx.set(hin.host_error, rng.getrandbits(1))
                ctx.set(hin.direction, rng.getrandbits(1))
                events.append(dict(oa, e="ack", t=t))
            else:
                ctx.set(hin.ack_received, 0)
                # a STATUS TP (for a control endpoint) is not an ACK: strobe it now and then with arbitrary fields
                st_noise = rng.random() < script.get("other", 0.0)
                ctx.set(hin.status_received, int(st_noise))
                if st_noise:
                    ctx.set(hin.endpoint_number, rng.choice([epn, 0, rng.randrange(16)]))
                    ctx.set(hin.next_sequence, rng.randrange(32))
                    ctx.set(hin.number_of_packets, rng.randrange(4))
                    ctx.set(hin.retry_required, rng.getrandbits(1))

            # ---- observe this cycle (inputs settled, before the edge)
            n_ev = len(events)
            if present and ctx.get(ep.stream.ready):
                w = words[wi]
                n = len(w["bytes"])
                ev = {"e": "w", "t": t, "bytes": list(w["bytes"]), "last": bool(w["last"]),
                      "completes": bool(cur_len + n >= mps or w["last"]),
                      "while_tp": bool(gen_busy or ctx.get(ho.send_nrdy) or ctx.get(ho.send_erdy)),
                      "with_accept": bool(ack is not None and ack["what"] == "accept")}
                events.append(ev)
                cur_len += n
                if cur_len >= mps or w["last"]:
                    ready_pk += 1 + (1 if (cur_len >= mps and w["last"]) else 0)
                    cur_len = 0
                wi += 1
                wgap = words[wi]["gap"] if wi < len(words) else 0
            if ack is not None:
                events.append({"e": "ack", "t": t, "ep": epn, "seq": ack["seq"], "nump": ack["nump"], "rty": ack["rty"],
                               "what": ack["what"], "next_ready": ready_pk > 0,
                               "during_erdy": bool(ctx.get(ho.send_erdy) or (gen_busy and want_kind == "erdy"))})
                if ack["what"] == "accept":
                    hexp = (hexp + 1) % 32
                    n_accepts += 1
                last_what = ack["what"]
                hstate = "wait" if ack["nump"] >= 1 else "idle"
                decision = None
            # the endpoint's request strobes as such (send_nrdy is a one-cycle pulse per token, send_erdy a level)
            if ctx.get(ho.send_nrdy):
                events.append({"e": "tp", "view": "strobe", "t": t, "kind": "nrdy", "want": "nrdy",
                               "epn": int(ctx.get(ho.endpoint_number)) & 15, "addr": INEP_ADDR})
            erdy_level = bool(ctx.get(ho.send_erdy))
            if erdy_level and not prev_erdy:
                events.append({"e": "tp", "view": "strobe", "t": t, "kind": "erdy", "want": "erdy",
                               "epn": int(ctx.get(ho.endpoint_number)) & 15, "addr": INEP_ADDR})
            prev_erdy = erdy_level
            # requests accepted by the generator
            if not gen_busy:
                for kind, sig in (("nrdy", ho.send_nrdy), ("erdy", ho.send_erdy)):
                    if ctx.get(sig):
                        want_kind = kind
                        events.append({"e": "tp", "view": "req", "t": t, "kind": kind, "want": kind,
                                       "epn": int(ctx.get(ho.endpoint_number)) & 15, "addr": INEP_ADDR})
            # transaction packets on the wire
            if ctx.get(gen.header_source.valid) and hq_ready:
                d0, d1 = ctx.get(gen.header_source.header.dw0), ctx.get(gen.header_source.header.dw1)
                sub = d1 & 15
                kind = {2: "nrdy", 3: "erdy"}.get(sub, "sub%d" % sub)
                events.append({"e": "tp", "view": "wire", "t": t, "kind": kind, "want": want_kind or "none",
                               "epn": (d1 >> 8) & 15, "addr": (d0 >> 25) & 127})
                if kind == "nrdy" and want_kind == "nrdy":
                    flow_nrdy, erdy_seen = True, False
                    if hstate == "wait":
                        hstate = "idle"
                if want_kind == "erdy":
                    erdy_seen = True
            # data packets
            if ctx.get(itf.tx_zlp):
                events.append({"e": "dp", "t": t, "seq": int(ctx.get(itf.tx_sequence_number)), "len": 0,
                               "epn": int(ctx.get(itf.tx_endpoint_number)), "bytes": [], "zlp": True, "beats": [],
                               "lost_last": False})
                if hstate == "wait":
                    hstate = "got_dp"
                flow_nrdy = False
                if last_what != "retry":
                    ready_pk = max(0, ready_pk - 1)
            if tx_valid:
                if dp is None:
                    dp = {"e": "dp", "seq": int(ctx.get(itf.tx_sequence_number)), "len": int(ctx.get(itf.tx_length)),
                          "epn": int(ctx.get(itf.tx_endpoint_number)), "bytes": [], "zlp": False, "beats": [],
                          "lost_last": False, "t0": t}
                if tx_ready:
                    nb = _NOF.get(tx_valid, 0)
                    data = int(ctx.get(itf.tx.payload))
                    dp["bytes"] += list(data.to_bytes(4, "little"))[:nb]
                    dp["beats"].append({"n": nb if tx_valid in _NOF else 9, "first": bool(ctx.get(itf.tx.first)),
                                        "last": bool(ctx.get(itf.tx.last))})
                    if ctx.get(itf.tx.last):
                        dp["t"] = t
                        events.append(dp)
                        dp = None
                        if hstate == "wait":
                            hstate = "got_dp"
                        flow_nrdy = False
                        if last_what != "retry":
                            ready_pk = max(0, ready_pk - 1)
                elif ctx.get(itf.tx.last):
                    lost_last = True              # a last beat is on offer while the transmitter is not ready
            elif dp is not None:                  # valid fell without a transferred last beat: the packet was cut
                dp["t"] = t
                dp["lost_last"] = lost_last
                events.append(dp)
                dp = None
                if hstate == "wait":
                    hstate = "got_dp"
            if not tx_valid:
                lost_last = False
            host_active = decision is not None or (bool(host) and hstate != "wait")
            if decision is not None and decision["k"] == "poll_after_erdy" and decision.get("timeout", 60) is None \
                    and flow_nrdy and not erdy_seen:
                host_active = False                                    # waiting for an ERDY that may never come
            producer_waiting = wi < len(words) and (wgap > 0 or t < words[wi].get("at", 0))   # a timer is running
            if wi < len(words) and n_accepts < words[wi].get("after_accepts", 0) and (host_active or hstate == "wait"):
                producer_waiting = True
            quiet = 0 if (len(events) > n_ev or tx_valid or gen_busy or host_active or producer_waiting) else quiet + 1
            await ctx.tick("ss")
            t += 1
            if quiet >= INEP_QUIET:
                events.append({"e": "end", "t": t})
                info["quiet_end"] = True
                break
        info["cycles"] = t
    rig.bench.run(fn)
    return events, info


def _pattern(rng, mode, t=0):
    if isinstance(mode, dict):
        if "until" in mode:                       # not ready before cycle `until`
            return t >= mode["until"]
        if "low" in mode:                         # not ready in the listed cycles
            return t not in mode["low"]
        return True
    if mode in ("fast", "stall_last"):
        return True
    if mode == "slow":
        return rng.random() < 0.3
    return rng.random() < 0.6          # "random"


INEP_AVOID_ALL = ("txstall_last", "ack_without_next", "complete_during_tp", "last_in_ack_cycle", "poll_during_erdy")


def _inep_clean_words(rng, mps, npk, tail):
    """A saturating transfer: npk full packets, then `tail` bytes with `last` (tail = 0: no transfer end).
    Clean stimuli keep tail out of 1..4 (single-word packet) and never end a transfer on a packet boundary."""
    data = [rng.getrandbits(8) for _ in range(npk * mps + tail)]
    words = []
    for i in range(0, len(data), 4):
        chunk = data[i:i + 4]
        words.append({"bytes": chunk, "last": bool(tail) and i + 4 >= len(data), "gap": 0})
    return words


def _inep_random_script(rng, mps, clean=True):
    npk = rng.randint(1, 5)
    tail = rng.choice([0] + list(range(5, mps))) if mps > 5 else 0
    words = _inep_clean_words(rng, mps, npk, tail)
    for w in words:                                  # producer mostly at full rate, sometimes hesitating
        w["gap"] = 0 if rng.random() < 0.8 else rng.randint(1, 3)
    start_gap = rng.choice([0, 0, 3, 12, 25])
    if words:
        words[0]["gap"] = start_gap
    host = []
    for _ in range(rng.choice([0, 0, 1, 2]) if start_gap else 0):         # early polls -> NRDY episodes
        host.append({"k": rng.choice(["poll", "poll_after_erdy"]), "d": rng.randint(1, 8), "timeout": rng.randint(5, 50)})
    host.append({"k": rng.choice(["poll", "poll_after_erdy"]), "d": rng.randint(1, 30),
                 "timeout": rng.choice([None, rng.randint(20, 60)])})
    total = npk + (1 if tail else 0)
    for _ in range(total + 3):
        while rng.random() < 0.25:
            host.append({"k": "retry", "d": rng.randint(1, 6)})
        nump = 1 if rng.random() < 0.75 else 0
        host.append({"k": "accept", "d": rng.randint(1, 8), "nump": nump})
        if nump == 0:
            host.append({"k": "poll", "d": rng.randint(1, 10)})
    return {"words": words, "host": host, "seed": rng.getrandbits(30), "avoid": INEP_AVOID_ALL if clean else (),
            "hq": rng.choice(["fast", "slow", "random"]), "txr": rng.choice(["fast", "fast", "random", "slow"]),
            "other": rng.choice([0.0, 0.05, 0.2])}


def _inep_views(events, rig, klass_hint=None):
    """The traces (observation views) of one execution: requests accepted by the generator / wire."""
    base = [e for e in events if e["e"] != "tp"]
    out = {}
    for view in ("req", "wire"):
        steps = sorted([e for e in events if e["e"] != "tp" or e["view"] == view], key=lambda e: e["t"])
        out[view] = steps
    return out


def _inep_steps(events, view):
    """The trace of one observation view.  strobe / req: request and emission of a TP are one event (phase "both");
    wire: the ERDY requests the generator accepted (phase "request") followed by what left the header queue
    (NRDY: "both", ERDY: "emit")."""
    steps = []
    for e in events:
        if e["e"] != "tp":
            steps.append(e)
        elif e["view"] == view:
            ph = "emit" if (view == "wire" and e["kind"] == "erdy") else "both"
            steps.append(dict(((k, v) for k, v in e.items() if k != "view"), phase=ph))
        elif view == "wire" and e["view"] == "req" and e["kind"] == "erdy":
            steps.append(dict(((k, v) for k, v in e.items() if k != "view"), phase="request"))
    return steps


def _inep_sanitize(words, mps):
    """Keep a producer script inside the clean class: saturating (no gaps after the start), `last` only on the
    final word, final packet neither single-word (1..4 bytes) nor ending on a packet boundary."""
    data = [b for w in words for b in w["bytes"]]
    had_last = any(w["last"] for w in words)
    tail = len(data) % mps
    if had_last:
        if tail == 0:
            data = data[:-3] if len(data) > mps else data + [1, 2, 3, 4, 5]
        elif tail <= 4:
            data += [7] * (5 - tail)
    else:
        data = data[:len(data) - tail] if len(data) >= mps else data + [9] * (mps - len(data))
    out = []
    for i in range(0, len(data), 4):
        out.append({"bytes": data[i:i + 4], "last": had_last and i + 4 >= len(data), "gap": 0})
    if out and words:
        out[0]["gap"] = words[0].get("gap", 0)
    return out


def _inep_script_from_behaviour(beh, mps, rng):
    """spec -> code: the Env part of a TLC-simulated behaviour of MCSsInEp as a driver script."""
    words, host = [], []
    prev = beh[0][1]
    for _, st in beh[1:]:
        ev = st["last_ev"]
        if ev["e"] == "w":
            words.append({"bytes": [(len(words) * 4 + k * 7 + 3) % 251 for k in range(len(ev["bytes"]))],
                          "last": ev["last"], "gap": 0})
        elif ev["e"] == "ack" and ev["ep"] == prev["cfg"]["ep"]:
            d = rng.randint(1, 6)
            if ev["rty"] == 1:
                host.append({"k": "retry", "d": d})
            elif prev["infl"]["seq"] != 99:
                host.append({"k": "accept", "d": d, "nump": min(ev["nump"], 1)})
            else:
                host.append({"k": "poll", "d": d})
        prev = st
    return words, host


def _inep_witnesses(mps=8):
    """Directed schedules, one per known deviation (each leaves exactly one avoid rule off).  (name, script, view,
    chkep, epn)"""
    A = set(INEP_AVOID_ALL)

    def W(data, last=False, gap=0, **kw):
        ws = [dict({"bytes": data[i:i + 4], "last": last and i + 4 >= len(data), "gap": 0}, **kw) for i in range(0, len(data), 4)]
        ws[0]["gap"] = gap
        return ws
    full = [(1 + j) % 251 for j in range(mps)]
    full2 = [(101 + j) % 251 for j in range(mps)]
    out = []
    base = {"seed": 1, "hq": "fast", "txr": "fast", "other": 0.0}
    # K1: NRDY for endpoint 3 carries endpoint number 0 (early poll, then data)
    out.append(("handshake_endpoint_number", dict(base, words=W(full, gap=12), avoid=A,
                host=[{"k": "poll", "d": 3}, {"k": "poll_after_erdy", "d": 2, "timeout": 40}, {"k": "accept", "d": 3, "nump": 0}]),
                "req", True, 3))
    # K2: the ERDY request leaves the generator as NRDY (wire view)
    out.append(("erdy_on_the_wire", dict(base, words=W(full, gap=12), avoid=A,
                host=[{"k": "poll", "d": 3}, {"k": "poll_after_erdy", "d": 2, "timeout": 40}, {"k": "accept", "d": 3, "nump": 0}]),
                "wire", True, 0))
    # K3: erdy_required is never cleared: a later packet completing while idle triggers another ERDY
    out.append(("stale_erdy_flag", dict(base, words=W(full, gap=12) + W(full2, gap=40), avoid=A - {"ack_without_next"},
                host=[{"k": "poll", "d": 3}, {"k": "poll_after_erdy", "d": 2, "timeout": 40}, {"k": "accept", "d": 3, "nump": 0}]),
                "req", True, 0))
    # K4: acknowledging ACK with no further packet buffered does not advance the sequence number
    out.append(("sequence_after_idle_ack", dict(base, words=W(full) + W(full2, gap=40), avoid=A - {"ack_without_next"},
                host=[{"k": "poll", "d": 12}, {"k": "accept", "d": 3, "nump": 0}, {"k": "poll", "d": 60},
                      {"k": "accept", "d": 3, "nump": 0}]), "req", True, 0))
    # K10: the IN request carried by that ACK (NumP = 1) is answered neither with data nor with NRDY
    out.append(("request_in_idle_ack_dropped", dict(base, words=W(full), avoid=A - {"ack_without_next"},
                host=[{"k": "poll", "d": 12}, {"k": "accept", "d": 3, "nump": 1}]), "req", True, 0))
    # K5: single-word packet: length / sequence / endpoint are not driven when the only beat appears
    out.append(("single_word_packet", dict(base, words=W([9, 8, 7], last=True), avoid=A,
                host=[{"k": "poll", "d": 12}, {"k": "accept", "d": 3, "nump": 0}]), "req", True, 0))
    # K6: the last beat is withdrawn after one cycle even if the transmitter was not ready
    out.append(("tx_stall_on_last_beat", dict(base, words=W(full), avoid=A - {"txstall_last"}, txr="stall_last",
                host=[{"k": "poll", "d": 12}, {"k": "accept", "d": 3, "nump": 0}]), "req", True, 0))
    # K7: transfer ending on a packet boundary: the zero-length packet carries no valid sequence number
    out.append(("zlp_after_full_packet", dict(base, words=W(full, last=True), avoid=A,
                host=[{"k": "poll", "d": 12}, {"k": "accept", "d": 3, "nump": 1}, {"k": "accept", "d": 3, "nump": 0}]),
                "req", True, 0))
    out.append(("zlp_after_full_packet_deferred", dict(base, words=W(full, last=True), avoid=A,
                host=[{"k": "poll", "d": 12}, {"k": "accept", "d": 3, "nump": 0}, {"k": "poll", "d": 5},
                      {"k": "accept", "d": 3, "nump": 0}]), "req", True, 3))
    out.append(("zlp_retried", dict(base, words=W(full, last=True) + W(full2, gap=2), avoid=A,
                host=[{"k": "poll", "d": 12}, {"k": "accept", "d": 3, "nump": 1}, {"k": "retry", "d": 3}, {"k": "retry", "d": 2},
                      {"k": "accept", "d": 3, "nump": 1}, {"k": "retry", "d": 2}, {"k": "accept", "d": 3, "nump": 0}]),
                "req", True, 3))
    out.append(("zlp_deferred_then_data", dict(base, words=W(full, last=True) + W(full2, gap=2) + W(full[:6], last=True), avoid=A,
                host=[{"k": "poll", "d": 12}, {"k": "accept", "d": 3, "nump": 0}, {"k": "poll", "d": 7}, {"k": "retry", "d": 2},
                      {"k": "accept", "d": 3, "nump": 0}, {"k": "poll", "d": 4}, {"k": "retry", "d": 3},
                      {"k": "accept", "d": 3, "nump": 1}, {"k": "accept", "d": 3, "nump": 0}]),
                "req", True, 3))
    # K8: a short last word accepted in the very cycle of the acknowledging ACK is never offered to the host
    out.append(("last_word_in_ack_cycle", dict(base, words=W(full) + W([5, 6], last=True, **{"with": "accept"}),
                avoid=A - {"last_in_ack_cycle", "ack_without_next"},
                host=[{"k": "poll", "d": 12}, {"k": "accept", "d": 4, "nump": 0}, {"k": "poll", "d": 6}]), "req", True, 0))
    # K9: a packet completing while the NRDY is still being sent loses the ERDY
    ws = W(full)
    ws[-1]["with"] = "poll"
    out.append(("packet_completes_during_nrdy", dict(base, words=ws, avoid=A - {"complete_during_tp"},
                host=[{"k": "poll", "d": 8}]), "req", True, 0))
    # K11: a poll arriving while the ERDY is being requested is dropped
    out.append(("poll_during_erdy", dict(base, words=W(full, gap=12), avoid=A - {"poll_during_erdy"},
                host=[{"k": "poll", "d": 3}, {"k": "poll", "d": 1, "with": "erdy"}]), "req", True, 0))
    return out


def _inep_sweeps(mps=8):
    """Systematic one-cycle alignment sweeps (integrator hint): the stream-side event is scheduled at every cycle
    offset d = 0..15 around the protocol-side event; every trace ends with the drain / `end` obligations.  Some
    offsets are exactly the triggers of listed findings (then the known signature is expected), all others must be
    accepted.  (name, script, epn)"""
    A = set(INEP_AVOID_ALL)
    out = []
    base = {"seed": 5, "txr": "fast", "other": 0.0}

    def W(data, last=False, at=0):
        ws = [{"bytes": data[i:i + 4], "last": last and i + 4 >= len(data), "gap": 0} for i in range(0, len(data), 4)]
        ws[-1]["at"] = at                  # the completing word is presented at cycle `at` (earlier words before)
        return ws
    full = [(1 + j) % 251 for j in range(mps)]
    nxt = [(61 + j) % 251 for j in range(mps)]
    T = 24
    for d in range(16):
        at = T - 8 + d
        # S1: the first packet completes at offset d around a poll that finds the endpoint empty (NRDY / ERDY exchange),
        #     header queue fast / ready only every third cycle (NRDY in flight for longer)
        for hq_name, hq in (("fast", "fast"), ("slow3", {"low": [c for c in range(200) if c % 3]})):
            out.append(("data_at_%+d_around_poll_hq_%s" % (d - 8, hq_name),
                        dict(base, hq=hq, words=W(full, at=at), avoid=A - {"complete_during_tp"},
                             host=[{"k": "poll", "at": T}, {"k": "poll_after_erdy", "d": 3, "timeout": None},
                                   {"k": "accept", "d": 3, "nump": 0}]), 0))
        # S2: the acknowledging ACK (NumP=1 / 0) at offset d around the completion of the next packet
        #     (next packet full-size, or a 6-byte transfer end)
        for shape, data, last in (("full", nxt, False), ("short5", nxt[:5], True), ("short6", nxt[:6], True),
                                  ("short7", nxt[:7], True)):
            for nump in (1, 0):
                out.append(("ack_numP%d_at_%+d_around_next_%s" % (nump, d - 8, shape),
                            dict(base, hq="fast", words=W(full) + W(data, last=last, at=T + 20),
                                 avoid=A - {"ack_without_next", "last_in_ack_cycle"},
                                 host=[{"k": "poll", "at": 6}, {"k": "accept", "at": T + 20 - 8 + d, "nump": nump},
                                       {"k": "poll", "d": 9}, {"k": "accept", "d": 3, "nump": 0}]), 3))
        # S3: a second poll at offset d around the ERDY request
        out.append(("repoll_at_%+d_around_erdy" % (d - 8),
                    dict(base, hq="fast", words=W(full, at=T), avoid=A - {"poll_during_erdy", "complete_during_tp"},
                         host=[{"k": "poll", "at": 4}, {"k": "poll", "at": T + 1 - 8 + d},
                               {"k": "poll_after_erdy", "d": 2, "timeout": 30}, {"k": "accept", "d": 3, "nump": 0}]), 0))
        # S4: header queue becomes ready at offset d after the NRDY request while the packet completes 5 cycles after it
        out.append(("hq_ready_at_+%d_after_nrdy_request" % d,
                    dict(base, hq={"until": T + d}, words=W(full, at=T + 5), avoid=A - {"complete_during_tp"},
                         host=[{"k": "poll", "at": T}, {"k": "poll_after_erdy", "d": 3, "timeout": None},
                               {"k": "accept", "d": 3, "nump": 0}]), 0))
    # S6: the FIRST IN request at every cycle from well before to well after the cycle in which the first buffer
    #     completes (no NRDY outstanding), producer at 1 word/cycle and slower, with and without `last`;
    # S7: the same for a later IN request, after an acknowledged packet (NumP=0) while the next buffer is filling.
    nwords = mps // 4
    for rate in (0, 2):
        for shape, data, last in (("nolast", full, False), ("last", full[:mps - 2], True)):
            nw = (len(data) + 3) // 4
            ws0 = [{"bytes": data[i:i + 4], "last": last and i + 4 >= len(data), "gap": rate} for i in range(0, len(data), 4)]
            start = 6
            done_at = start + (nw - 1) * (rate + 1) + rate            # cycle in which the completing word is accepted
            for d in range(-6, 8):
                ws = [dict(w) for w in ws0]
                ws[0]["gap"] = 0
                ws[0]["at"] = start + rate
                out.append(("first_request_at_%+d_of_completion_rate%d_%s" % (d, rate, shape),
                            dict(base, hq="fast", words=ws, avoid=A - {"complete_during_tp"},
                                 host=[{"k": "poll", "at": done_at + d}, {"k": "poll_after_erdy", "d": 3, "timeout": None},
                                       {"k": "accept", "d": 3, "nump": 0}]), 3))
                ws2 = [dict(w) for w in ws0]
                ws2[0]["gap"] = 0
                ws2[0]["at"] = 40 + rate
                done2 = 40 + (nw - 1) * (rate + 1) + rate
                out.append(("later_request_at_%+d_of_completion_rate%d_%s" % (d, rate, shape),
                            dict(base, hq="fast", words=W(nxt) + ws2, avoid=A - {"complete_during_tp", "ack_without_next"},
                                 host=[{"k": "poll", "at": 12}, {"k": "accept", "at": 24, "nump": 0},
                                       {"k": "poll", "at": done2 + d}, {"k": "poll_after_erdy", "d": 3, "timeout": None},
                                       {"k": "accept", "d": 3, "nump": 0}]), 3))
    # S5: tx.ready low for 1 / 2 cycles exactly at every beat of a 2- and 3-beat packet (mps 8 / 12 handled by caller)
    for shape, data, last in (("full", full, False), ("short", full[:mps - 2], True)):
        for nb in range((len(data) + 3) // 4):
            for ln in (1, 2):
                out.append(("tx_stall_%d_at_beat_%d_%s" % (ln, nb, shape),
                            dict(base, hq="fast", txr={"stall_beat": nb, "len": ln}, words=W(data, last=last),
                                 avoid=A - {"txstall_last"},
                                 host=[{"k": "poll", "at": 12}, {"k": "retry", "d": 3}, {"k": "accept", "d": 3, "nump": 0}]), 0))
    return out


def _inep_histories(mps=8):
    """History family (integrator hint C46-2): a retry is requested for the data packet that follows every kind of
    predecessor -- zero-length / short / full packet -- whose acknowledgement was either combined with the next
    request (NumP=1) or separate (NumP=0, then a poll), with the next packet already buffered or arriving only after
    that ACK.  The ZLP histories run on endpoint 0 with the ZLP at sequence number 0 (32 packets earlier), where the
    known undriven-parameter deviation of ZLPs is invisible, and acknowledge the boundary packet with NumP=1 and never
    retry the ZLP itself (the two other known ZLP deviations).  (name, script, epn)"""
    A = set(INEP_AVOID_ALL)
    out = []

    def words_of(data, last, **kw):
        return [dict({"bytes": data[i:i + 4], "last": last and i + 4 >= len(data), "gap": 0}, **kw)
                for i in range(0, len(data), 4)]
    for pred in ("zlp", "short", "full"):
        for combined in (True, False):
            for buffered in (True, False):
                nprefix = 31 if pred == "zlp" else 2
                words, host = [], [{"k": "poll", "d": 10}]
                for k in range(nprefix):
                    words += words_of([(k * 8 + j) % 251 for j in range(mps)], False)
                    host.append({"k": "accept", "d": 2, "nump": 1})
                if pred == "short":
                    words += words_of([(200 + j) % 251 for j in range(mps - 2)], True)
                else:
                    words += words_of([(150 + j) % 251 for j in range(mps)], pred == "zlp")
                n_before = nprefix + 1                           # packets acknowledged before the predecessor's ACK
                if pred == "zlp":
                    host.append({"k": "accept", "d": 2, "nump": 1})      # boundary packet: combined -> immediate ZLP
                    n_before += 1
                nxt = words_of([(90 + j) % 251 for j in range(mps)], False) + words_of([(30 + j) % 251 for j in range(mps)], False)
                if not buffered:
                    for w in nxt:
                        w["after_accepts"] = n_before
                    nxt[0]["gap"] = 3
                words += nxt
                # the predecessor's acknowledgement, then the retry of the following data packet
                if combined:
                    host.append({"k": "accept", "d": 3, "nump": 1})
                    if not buffered:
                        host.append({"k": "poll_after_erdy", "d": 2, "timeout": None})
                else:
                    host.append({"k": "accept", "d": 3, "nump": 0})
                    host.append({"k": "poll_after_erdy" if not buffered else "poll", "d": 4, "timeout": None})
                host += [{"k": "retry", "d": 3}, {"k": "retry", "d": 2}, {"k": "accept", "d": 3, "nump": 1},
                         {"k": "retry", "d": 2}, {"k": "accept", "d": 3, "nump": 0}]
                out.append(("retry_after_%s_%s_%s" % (pred, "combined" if combined else "separate",
                                                       "buffered" if buffered else "late"),
                            {"words": words, "host": host, "seed": 7, "hq": "fast", "txr": "fast", "other": 0.0,
                             "avoid": A - {"ack_without_next"}, "max_cycles": 4000}, 0))
    return out


def _inep_classify(trace, matched, status, meta):
    """Normalised cause of a rejection (for the known deviations of the experimental endpoint)."""
    _env_guard(status, meta)
    steps = trace["steps"]
    rec = steps[matched - 1] if 0 < matched <= len(steps) else {}
    before = steps[:matched - 1]
    ours = [e for e in before if e["e"] != "ack" or e.get("what")]        # without foreign-endpoint noise
    last_ack = next((e for e in reversed(ours) if e["e"] == "ack"), None)
    dps = [e for e in ours if e["e"] == "dp"]
    sig = {"clause": status, "pattern": "other"}
    if status == "tp_endpoint" and rec.get("epn") == 0 and trace["cfg"]["ep"] != 0:
        return {"clause": status, "pattern": "handshake_endpoint_number_not_driven"}
    if status == "tp_subtype_differs_from_request" and rec.get("want") == "erdy" and rec.get("kind") == "nrdy":
        return {"clause": status, "pattern": "erdy_request_sent_as_nrdy"}
    # Known ZLP deviations (finding zero_length_packet_sequencing), recognised by their own manifestations only:
    #  (i)   a zero-length packet whose sequence / endpoint parameters are the undriven zeros,
    #  (ii)  anything after the host asked for a retry of a zero-length packet (the resend advances the sequence),
    #  (iii) anything after a boundary-ending packet was acknowledged with NumP = 0 (the deferred ZLP path does not
    #        advance the sequence number).
    # A data packet answered / retried wrongly in any other history is NOT covered (e.g. a ZLP sent where a data
    # packet had to be resent).
    if rec.get("e") == "dp":
        mps_ = trace["cfg"]["maxpkt"]
        n_acc = sum(1 for e in ours if e["e"] == "ack" and e.get("what") == "accept")
        zlp_params = rec.get("zlp") and status in ("dp_sequence", "dp_endpoint", "retry_sequence") \
            and ((rec["seq"] == 0 and rec["epn"] == 0) or rec["seq"] == (n_acc - 1) % 32)    # undriven / not yet advanced
        zlp_retry = any(e["e"] == "ack" and e.get("what") == "retry" and
                        next((d["zlp"] for d in reversed(ours[:k]) if d["e"] == "dp"), False)
                        for k, e in enumerate(ours))
        acc_bytes, boundary_end = 0, set()
        for e in ours:
            if e["e"] == "w":
                acc_bytes += len(e["bytes"])
                if e["last"] and acc_bytes % mps_ == 0:
                    boundary_end.add(acc_bytes)
        sent, deferred = 0, False
        for k, e in enumerate(ours):
            if e["e"] == "dp" and not e["zlp"]:
                prev_ack = next((x for x in reversed(ours[:k]) if x["e"] == "ack"), None)
                if not (prev_ack and prev_ack.get("what") == "retry"):
                    sent += len(e["bytes"])
            if e["e"] == "ack" and e.get("what") == "accept" and e["nump"] == 0 and sent in boundary_end:
                lastdp = next((d for d in reversed(ours[:k]) if d["e"] == "dp"), None)
                if lastdp is not None and not lastdp["zlp"]:
                    deferred = True
        if zlp_params or zlp_retry or deferred:
            return {"clause": "dp", "detail": status, "pattern": "zero_length_packet_sequencing"}
        if rec.get("zlp") and status in ("retry_payload", "dp_payload", "dp_without_request"):
            return {"clause": status, "pattern": "zero_length_packet_sent_instead_of_data"}
    if rec.get("e") == "dp" and status in ("dp_length", "dp_sequence", "dp_endpoint") and len(rec["beats"]) == 1 \
            and rec["len"] == 0 and rec["seq"] == 0 and rec["epn"] == 0:
        return {"clause": "dp_parameters", "detail": status, "pattern": "single_beat_packet_parameters_not_driven"}
    if rec.get("e") == "dp" and status in ("dp_payload", "dp_framing", "retry_payload") and rec.get("lost_last"):
        return {"clause": "dp_truncated", "detail": status, "pattern": "last_beat_withdrawn_while_tx_not_ready"}
    if status == "dp_sequence":
        accepts = [e for e in ours if e["e"] == "ack" and e.get("what") == "accept"]
        if accepts and not accepts[-1]["next_ready"] and rec["seq"] == (len(accepts) - 1) % 32:
            return {"clause": status, "pattern": "sequence_not_advanced_by_ack_without_buffered_packet"}
    # the stuck word must be recent: at most a handful of our events (the polls answered NRDY) since it was accepted
    racing = [e for e in ours[-8:] if e["e"] == "w" and e["last"] and e.get("with_accept")]
    if status in ("nrdy_while_holding_data", "request_unanswered", "erdy_missing") and racing:
        return {"clause": "packet_stuck", "detail": status, "pattern": "last_word_accepted_in_cycle_of_acknowledging_ack"}
    if status == "erdy_without_nrdy":
        erdys = [k for k, e in enumerate(ours) if e["e"] == "tp" and e["kind"] == "erdy"]
        if erdys:
            since = ours[erdys[-1] + 1:]
            if not any(e["e"] == "tp" and e["kind"] == "nrdy" for e in since) and any(e["e"] == "dp" for e in since) \
                    and since and since[-1]["e"] == "w" and since[-1]["completes"]:
                return {"clause": status, "pattern": "erdy_required_flag_never_cleared"}
    if status == "request_unanswered" and last_ack is not None:
        after = ours[ours.index(last_ack) + 1:]
        if not any(e["e"] in ("dp", "tp") and e.get("kind") != "erdy" for e in after):
            if last_ack.get("what") == "accept" and last_ack["nump"] >= 1 and not last_ack["next_ready"]:
                return {"clause": status, "pattern": "request_in_acknowledging_ack_without_buffered_packet_dropped"}
            if last_ack.get("what") == "poll" and last_ack.get("during_erdy"):
                return {"clause": status, "pattern": "poll_while_erdy_is_being_sent_dropped"}
    if status == "erdy_missing" and meta.get("view") == "strobe":
        return {"clause": status, "pattern": "endpoint_never_requested_the_erdy"}
    if status == "erdy_missing":
        nrdys = [e for e in ours if e["e"] == "tp" and e["kind"] == "nrdy"]
        if nrdys and any(e["e"] == "w" and e["completes"] and e.get("while_tp") and e["t"] >= nrdys[-1]["t"] for e in ours):
            return {"clause": status, "pattern": "packet_completed_while_nrdy_was_being_sent"}
    return sig


def check_C46(rep):
    quick = rep.tier == "quick"
    rng = rep.rng
    rep.rule = ("protocol events of real SuperSpeedStreamInEndpoint + TransactionPacketGenerator executions validated "
                "against SsInEp.tla; non-trivial = a data packet, NRDY/ERDY or host ACK event; distinct by (max packet "
                "size, endpoint, event kind, seq, length, NumP/retry, flow state proxy)")
    rep.assume("the host has at most one ACK outstanding (request answered by DP or NRDY before the next ACK), ACK values "
               "legal: acknowledge = seq+1/rty 0, retry = same seq/rty 1/NumP>=1, poll = expected seq/NumP>=1")
    rep.assume("stream words are 4 bytes except a last word; packet parameters are sampled with the first beat / the "
               "tx_zlp strobe (when the link layer latches them); a beat counts when tx.valid and tx.ready coincide")
    rep.assume("a request arriving < %d cycles after the packet became complete may be answered NRDY; liveness is checked "
               "after %d quiet cycles with all ready signals high" % (INEP_GRACE, INEP_QUIET))
    rep.assume("clean schedules avoid the triggers of the listed findings (non-saturating producer at an acknowledging ACK, "
               "1..4-byte packets, transfers ending on a packet boundary, tx not ready on the last beat, a packet "
               "completing while a TP is in flight, last word / poll racing with ACK / ERDY); each trigger has a witness")

    # 1. exhaustive model + TLC-simulated behaviours
    mb, ma, dts = (9, 3, "{0, 2}") if quick else (12, 4, "{0, 1, 2}")
    mc_cfg = tlc.render_cfg(_cfg("MCSsInEp.cfg.tmpl"), {"Grace": 2, "Dts": dts, "MaxPkt": 8, "Ns": "{1, 4}",
                                                         "MaxBytes": mb, "MaxAcks": ma})
    sim_cfg = tlc.render_cfg(_cfg("MCSsInEp_sim.cfg.tmpl"), {"Grace": 2, "Dts": "{0, 1, 2}", "MaxPkt": 8, "Ns": "{1, 2, 3, 4}"})
    res, behs = _parallel([
        lambda: tlc.model_check(SPEC_DIR, "MCSsInEp", mc_cfg, workers=WORKERS, timeout=2400, allow_uncovered=("Action",)),
        lambda: tlc.simulate(SPEC_DIR, "MCSsInEp", sim_cfg, num=16 if quick else 100, depth=60, seed=rep.seed * 23 + 46, timeout=1800)])
    rep.add_mc("MCSsInEp MaxPkt=8 MaxBytes=%d MaxAcks=%d Dts=%s" % (mb, ma, dts), res,
               {"MaxPkt": 8, "Ns": [1, 4], "MaxBytes": mb, "MaxAcks": ma, "Dts": dts, "Grace": 2})

    # 2. executions on the real modules
    rigs = {}

    def rig_for(epn, mps):
        if (epn, mps) not in rigs:
            rigs[(epn, mps)] = _InEpRig(epn, mps)
        return rigs[(epn, mps)]
    items = []

    def record(events, info, epn, mps, origin, klass, views=("req", "wire"), chkep=None, name=None):
        rep.add_eval(info["cycles"])
        for view in views:
            steps = _inep_steps(events, view)
            has_erdy = any(e["e"] == "tp" and e["want"] == "erdy" for e in steps)
            kl = klass
            if klass == "clean" and view == "wire" and has_erdy:
                kl = "witness"                    # the ERDY request is known to leave the generator as NRDY
            ck = (epn == 0) if chkep is None else chkep
            items.append(({"cfg": {"maxpkt": mps, "ep": epn, "addr": INEP_ADDR, "chkep": ck}, "steps": steps},
                          {"origin": origin, "class": kl, "view": view, "ep": epn, "maxpkt": mps, "name": name}))
        flow = False
        for e in events:
            if e["e"] == "dp":
                rep.nontriv((mps, epn, "dp", e["seq"], len(e["bytes"]), flow))
            elif e["e"] == "tp" and e["view"] == "req":
                flow = e["kind"] == "nrdy"
                rep.nontriv((mps, epn, "tp", e["kind"]))
            elif e["e"] == "ack" and e.get("what"):
                rep.nontriv((mps, epn, "ack", e["what"], e["seq"], e["nump"], e["next_ready"]))

    for b in behs:                                       # spec -> code (kept inside the clean class)
        words, host = _inep_script_from_behaviour(b, 8, rng)
        if not words and not host:
            continue
        sc = {"words": _inep_sanitize(words, 8), "host": host + [{"k": "accept", "d": 2, "nump": 0}],
              "seed": rng.getrandbits(30), "avoid": INEP_AVOID_ALL, "hq": rng.choice(["fast", "random"]),
              "txr": rng.choice(["fast", "random"]), "other": 0.05}
        epn = rng.choice([0, 3])
        ev, info = _inep_run(rig_for(epn, 8), sc)
        record(ev, info, epn, 8, "tlc-simulate", "clean")
    n_rand = 30 if quick else 300
    for k in range(n_rand):
        mps = rng.choice([8, 8, 12, 16] if quick else [8, 12, 16, 32, 64])
        epn = rng.choice([0, 3, 15])
        sc = _inep_random_script(rng, mps, True)
        ev, info = _inep_run(rig_for(epn, mps), sc)
        record(ev, info, epn, mps, "random", "clean", views=("req", "wire", "strobe"))
    if not quick:                                         # one long saturating run at the real default packet size
        sc = _inep_random_script(rng, 1024, True)
        ev, info = _inep_run(rig_for(1, 1024), dict(sc, max_cycles=12000))
        record(ev, info, 1, 1024, "random-1024", "clean")
    for mps in (8, 12, 16) if quick else (8, 12, 16, 1024):   # systematic offset sweeps (accepted, or a listed finding)
        for name, sc, epn in _inep_sweeps(mps):
            around_completion = name.startswith("first_request") or name.startswith("later_request")
            if mps == 12 and not (name.startswith("tx_stall") or name.startswith("ack_numP1") or around_completion):
                continue
            if mps >= 16 and not around_completion:
                continue
            ev, info = _inep_run(rig_for(epn, mps), dict(sc, max_cycles=6000))
            # "strobe" = the endpoint's own requests (also those the busy generator cannot take): the endpoint must
            # ask for the ERDY; "req" = what the generator accepted: the ERDY must actually go out
            record(ev, info, epn, mps, "offset-sweep", "sweep", views=("strobe", "req"), chkep=True, name=name)
    for mps in (8, 12):                                   # retry-after-every-predecessor history family
        for name, sc, epn in _inep_histories(mps):
            ev, info = _inep_run(rig_for(epn, mps), sc)
            record(ev, info, epn, mps, "history-family", "sweep", views=("strobe", "req"), chkep=True, name=name)
    for name, sc, view, chkep, epn in _inep_witnesses(8):
        ev, info = _inep_run(rig_for(epn, 8), sc)
        record(ev, info, epn, 8, "directed", "witness", views=(view,), chkep=chkep, name=name)
    rep.sample({"meta": items[0][1], "events": [dict((k, v) for k, v in e.items() if k != "beats")
                                                for e in items[0][0]["steps"][:8]]})

    # 3. TLC validates every view of every execution
    cfg = tlc.render_cfg(_cfg("SsInEpTrace.cfg.tmpl"), {"Grace": INEP_GRACE})
    validate_group(rep, SPEC_DIR, "SsInEpTrace", cfg, items, classify=_inep_classify,
                   steps_of=lambda t: len(t["steps"]))
    rep.notes.append("not covered: ep_reset; SuperSpeedEndpointMultiplexer (it forwards handshakes_out only for "
                     "send_ack/send_stall, so an IN endpoint's NRDY/ERDY never reach the generator in a full device)")


CHECKS = {"C45": check_C45, "C46": check_C46, "C47": check_C47, "C48": check_C48}
