----------------------------- MODULE MCScrambler -----------------------------
(***************************************************************************)
(* Bounded model: a scrambler and a descrambler (the same Ref, started from *)
(* equal LFSR states) joined by a channel.  Env interleaves scrambler       *)
(* cycles (any word of Words, any valid/ready/hold pattern) and             *)
(* descrambler cycles (stalled or not) arbitrarily, i.e. with every         *)
(* latency.  A held word is replaced by SKPs on the wire, which the         *)
(* receiver's CTC removes: it never reaches the descrambler.                *)
(***************************************************************************)
EXTENDS Scrambler, TLC

CONSTANTS Words,        \* word alphabet (set of 4-tuples of symbols)
          Starts,       \* common initial LFSR states
          MaxWords      \* bound on words sent (ghost logs)

VARIABLES ss, ds,       \* LFSR state of scrambler / descrambler
          en,           \* scrambling enabled (both ends, fixed per behaviour)
          chan,         \* scrambled words in flight
          sent, rcvd,   \* ghost: words sent (transferred, not held) / words delivered
          pos,          \* ghost: symbols scrambled since the last restart, -1 = unknown (start # Seed)
          in            \* Env input of the last scrambler cycle

vars == <<ss, ds, en, chan, sent, rcvd, pos, in>>

NoIn == [valid |-> FALSE, ready |-> FALSE, hold |-> FALSE, en |-> FALSE, clr |-> FALSE,
         w |-> <<0, 0, 0, 0>>]

Init == /\ ss \in Starts /\ ds = ss
        /\ en \in BOOLEAN
        /\ chan = <<>> /\ sent = <<>> /\ rcvd = <<>>
        /\ pos = IF ss = Seed THEN 0 ELSE 0 - 1
        /\ in = NoIn

\* <<valid, ready, hold>> patterns: nothing offered; stalled; stalled while held; transferred; transferred held
Modes == { <<FALSE, TRUE, FALSE>>, <<TRUE, FALSE, FALSE>>, <<TRUE, FALSE, TRUE>>,
           <<TRUE, TRUE, FALSE>>, <<TRUE, TRUE, TRUE>> }

TxCycle == \E md \in Modes, w \in Words :
    LET v == md[1]  r == md[2]  h == md[3]
        i == [valid |-> v, ready |-> r, hold |-> h, en |-> en, clr |-> FALSE, w |-> w] IN
    /\ (~v => w = <<0, 0, 0, 0>>)
    /\ HoldLegal(i)
    /\ Len(sent) < MaxWords
    /\ in' = i
    /\ ss' = LfsrNext(ss, i)
    /\ IF Transferred(i) /\ ~h
         THEN /\ chan' = Append(chan, ScrWord(ss, en, w))
              /\ sent' = Append(sent, w)
         ELSE UNCHANGED <<chan, sent>>
    /\ pos' = IF Transferred(i) /\ w[1] = COM THEN 0
              ELSE IF Transferred(i) /\ ~h /\ pos >= 0 THEN pos + 4
              ELSE pos
    /\ UNCHANGED <<ds, en, rcvd>>

RxCycle == \E r \in BOOLEAN :
    /\ chan # <<>>
    /\ LET i == [valid |-> TRUE, ready |-> r, hold |-> FALSE, en |-> en, clr |-> FALSE, w |-> Head(chan)] IN
         /\ ds' = LfsrNext(ds, i)
         /\ IF r THEN /\ rcvd' = Append(rcvd, ScrWord(ds, en, Head(chan)))
                      /\ chan' = Tail(chan)
                 ELSE UNCHANGED <<rcvd, chan>>
    /\ UNCHANGED <<ss, en, sent, pos, in>>

Next == TxCycle \/ RxCycle
Spec == Init /\ [][Next]_vars

-----------------------------------------------------------------------------
(* Prop *)
\* Descramble(Scramble(s)) = s : what was delivered is a prefix of what was sent ...
RoundTrip == /\ Len(rcvd) <= Len(sent)
             /\ rcvd = SubSeq(sent, 1, Len(rcvd))
             /\ Len(rcvd) + Len(chan) = Len(sent)
\* ... and whenever nothing is in flight the two LFSRs are in step.
InStep == (chan = <<>>) => (ss = ds)

\* The keystream is the LFSR sequence, one byte per symbol: after pos symbols since the last
\* restart the LFSR is in the state reached by pos*8 serial shifts from Seed.
KeystreamIsLfsr == (pos >= 0) => (ss = AfterWords(Seed, pos \div 4))

\* Control symbols pass unchanged; data symbols are XORed with the key bytes iff enabled;
\* no data symbol becomes a control symbol or vice versa.
SymbolsOK ==
    [][Len(chan') > Len(chan) =>
         LET o == chan'[Len(chan')]  w == in'.w IN
         \A k \in 1..4 :
            /\ IsCtrl(w[k]) => o[k] = w[k]
            /\ ~IsCtrl(w[k]) => /\ ~IsCtrl(o[k])
                                /\ o[k] = IF en THEN XorByte(w[k], WStep(ss).key[k]) ELSE w[k]]_vars

\* The LFSR moves only on a transferred, un-held word (or restarts on COM).
AdvanceOnlyOnTransfer ==
    [][ss' # ss => (Transferred(in') /\ (~in'.hold \/ in'.w[1] = COM))]_<<ss, in>>

Bounded == Len(sent) <= MaxWords

-----------------------------------------------------------------------------
(* TLC re-interprets the 32 serial shifts of SsLfsr!WordStep on every evaluation; the model    *)
(* therefore tabulates WordStep once over the LFSR states reachable within the bound           *)
(* (cfg: WStep <- TabStep).  TabIsSerial re-states, symbol by symbol, that the table is the     *)
(* serial definition: key byte k of a word is the key byte of the state k-1 symbols on.        *)
RECURSIVE Closure(_, _)
Closure(S, n) == IF n = 0 THEN S ELSE Closure(S \cup {WordStep(s).next : s \in S}, n - 1)
ReachLfsr == Closure(Starts \cup {Seed}, MaxWords + 1)
Tab == [s \in ReachLfsr |-> WordStep(s)]
TabStep(s) == Tab[s]
TabIsSerial == \A s \in ReachLfsr :
                 /\ \A k \in 1..4 : Tab[s].key[k] = KeyByte(AfterSyms(s, k - 1))
                 /\ Tab[s].next = AfterSyms(s, 4)
ASSUME TabIsSerial
ASSUME SpecVectorOK

-----------------------------------------------------------------------------
(* Word alphabets (cfg: Words <- WordsQuick).  Chosen so that every branch of Ref is hit:   *)
(* idle filler, COM x4, COM first + data, COM not first + a data byte equal to COM's code,   *)
(* a data byte BCh first (must NOT restart) + a SKP, framing K-symbols, FFh data.            *)
WordsQuick == { <<0, 0, 0, 0>>, <<444, 444, 444, 444>>, <<444, 23, 0, 255>>,
                <<170, 444, 85, 188>>, <<188, 1, 316, 2>>, <<510, 510, 510, 503>> }
WordsMore  == WordsQuick \cup { <<255, 255, 255, 255>>, <<444, 316, 316, 7>>, <<1, 2, 3, 444>> }
=============================================================================
