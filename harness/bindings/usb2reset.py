"""Engine `usb2reset` — C19: USBResetSequencer (and its wiring in USBDevice) vs specs/usb2reset/Usb2Reset.tla.

Layout of this file
  1. constants (USB 2.0 times at 60 MHz; scaled constants of the exhaustive model)
  2. DUT wrappers + event-compressed recorder (runs in worker processes)
  3. stimuli: TLC-simulated host scripts (symbolic durations -> scaled and real constants),
     structured real-time scenarios, known-finding witnesses
  4. check_C19: exhaustive TLC runs, replay, TLC trace validation, classification
"""
import json
import os
import random
import time
from concurrent.futures import ProcessPoolExecutor, ThreadPoolExecutor

from .. import tlc
from ..core import use_repo
from ..pipeline import validate_group

ENGINE = "usb2reset"
SPEC_DIR = "usb2reset"

META = {
    "C19": {
        "text": "Usb2Reset.tla holds (Ref) the reset/chirp/suspend sequencer as designed, with both timers and the "
                "seven USB 2.0 thresholds as named constants, and (Prop) independent monitors over the public "
                "inputs/outputs only, with their own run-length ghosts (SE0 run, idle run, HS-idle run, device chirp "
                "K, host K-J pair recogniser with the 2.5 us filter, reversion window): (a) HS operation only after a "
                "reset-started handshake with device chirp K >= 1 ms and >= 3 valid host K-J pairs, or by resume from "
                "a suspend entered at HS; (b) handshake never started while restricted to FS/LS; (c) HS left within 2 "
                "cycles of a restriction; (d) fallback within 2.5 ms of the end of the device chirp; (e) bus_reset only "
                "without VBUS or after SE0 >= 2.5 us (suspended) / 5 us (FS/LS) / 3 ms HS idle + 200 us and a non-J "
                "line; (f) suspend only after 3 ms idle.  TLC proves for scaled thresholds (2,3,4,5,8,26,28 cycles) "
                "that the designed sequencer satisfies every clause for every input history, that every FSM edge is "
                "exercised, and that the explicit-time leaps equal cycle-by-cycle iteration.  TLC-simulated host "
                "scripts are replayed into a subclass of the real USBResetSequencer carrying the scaled constants, "
                "into USBDevice around it (wiring), and -- durations re-evaluated at the real constants, T-1/T/T+1 "
                "exact -- into the unmodified USBResetSequencer with event-compressed recording; further real-time "
                "scenarios (glitched / short / late chirps, suspend and reset boundaries) are added; every recorded "
                "trace is validated by TLC against the monitors.",
        "note": "Verdicts rest on public outputs only; the reference FSM runs in lock-step for DRIFT information. "
                "Real-time thresholds are the USB 2.0 times at 60 MHz, fixed here (not read from the code). Latency "
                "slack of 3 cycles (2 in the scaled model) for registered outputs. Exhaustive only for the scaled "
                "model; real traces are sampled. Trusted base: TLC, amaranth.sim, the recorder below.",
        "technique": "explicit-time TLA+ (Ref + independent monitors), TLC exhaustive at scaled constants, "
                     "model-based replay at scaled and real constants, batch trace validation with leaps",
        "design_ref": "DESIGN.md §5 C19",
    }
}

# ---------------------------------------------------------------------------------------------
# 1. constants
# ---------------------------------------------------------------------------------------------
NAMES = ["T2P5US", "T5US", "T200US", "T1MS", "T2MS", "T2P5MS", "T3MS"]
ATTRS = {"T2P5US": "_CYCLES_2P5_MICROSECONDS", "T5US": "_CYCLES_5_MICROSECONDS",
         "T200US": "_CYCLES_200_MICROSECONDS", "T1MS": "_CYCLES_1_MILLISECONDS",
         "T2MS": "_CYCLES_2_MILLISECONDS", "T2P5MS": "_CYCLES_2P5_MILLISECONDS",
         "T3MS": "_CYCLES_3_MILLISECONDS"}
# USB 2.0 times in 60 MHz cycles -- from the standard, *not* from the code under test.
REAL = {"T2P5US": 150, "T5US": 300, "T200US": 12000, "T1MS": 60000, "T2MS": 120000,
        "T2P5MS": 150000, "T3MS": 180000}
# Scaled thresholds of the exhaustive model: same order; 2.5 ms still leaves room for three K-J pairs
# of (2.5 us + 2 cycles) each, so the whole handshake is reachable.
SCALED = {"T2P5US": 2, "T5US": 3, "T200US": 4, "T1MS": 5, "T2MS": 8, "T2P5MS": 26, "T3MS": 28}
# Smaller still (handshake cannot complete): used for the leap-equals-iteration check only.
SCALED_SMALL = {"T2P5US": 3, "T5US": 5, "T200US": 6, "T1MS": 7, "T2MS": 8, "T2P5MS": 10, "T3MS": 12}
# Further constant sets a caller may give the class (configuration coverage): timer widths at and just past a
# power of two (the timers are Signal(range(T3MS + 1))), and the 48 MHz values the source comments mention.
SCALED_ROTATION = [
    ("t3ms31", {"T2P5US": 2, "T5US": 3, "T200US": 4, "T1MS": 5, "T2MS": 8, "T2P5MS": 26, "T3MS": 31}),   # 5-bit, max
    ("t3ms32", {"T2P5US": 2, "T5US": 3, "T200US": 4, "T1MS": 5, "T2MS": 8, "T2P5MS": 27, "T3MS": 32}),   # 6-bit, 2^k
    ("t3ms33", {"T2P5US": 2, "T5US": 3, "T200US": 4, "T1MS": 5, "T2MS": 8, "T2P5MS": 27, "T3MS": 33}),  # 2^k + 1
]
MHZ48 = {"T2P5US": 120, "T5US": 240, "T200US": 9600, "T1MS": 48000, "T2MS": 96000, "T2P5MS": 120000,
         "T3MS": 144000}
SLACK_REAL = 3
SLACK_SCALED = 2


def spec_constants(consts, slack):
    d = dict(consts)
    d["TimerMod"] = 1 << consts["T3MS"].bit_length()
    d["Slack"] = slack
    return d


def _cfg(name):
    with open(os.path.join(tlc.SPECS, SPEC_DIR, name)) as f:
        return f.read()


# ---------------------------------------------------------------------------------------------
# 2. DUT wrappers and recorder (executed inside worker processes)
# ---------------------------------------------------------------------------------------------
IN_NAMES = ["ls", "vbus", "disc", "fso", "lso", "busy", "rst"]      # rst = reset of the usb clock domain
OUT_FIELDS = [("br", 1), ("susp", 1), ("spd", 2), ("op", 2), ("term", 1), ("txv", 1), ("txd", 8)]
BOOL_FIELDS = {"vbus", "disc", "fso", "lso", "busy", "rst", "br", "susp", "txv"}
PERIOD = 1e-6          # simulated clock period (the design only counts cycles)


def _find_fsm_state(frag):
    found = []

    def walk(f):
        for _dom, stmts in f.statements.items():
            for st in stmts:
                for sig in st._lhs_signals():
                    if sig.name == "fsm_state" and all(sig is not x for x in found):
                        found.append(sig)
        for sub, _name, _src in f.subfragments:
            walk(sub)
    try:
        walk(frag)
    except Exception:       # internal API; the FSM state is DRIFT information only
        return None
    return found[0] if len(found) == 1 else None


class _IgnoreVbusPlatform:
    """What USBResetSequencer.elaborate looks at in a platform: `ignore_phy_vbus` and `device`."""
    ignore_phy_vbus = True
    device = "LFE5U-45F"


def build_top(kind, consts):
    """kind: 'seq'        = USBResetSequencer alone (platform None),
             'seq-novbus' = the same, elaborated for a platform with ignore_phy_vbus (vbus_connected := 1),
             'dev'        = USBDevice around it, UTMI PHY able to do high speed (always_fs = False, 60 MHz),
             'dev-fs'     = USBDevice(bus=UTMIInterface()) exactly as constructed (always_fs: FS only, 12 MHz).
    consts: None = the class as it is in the tree; dict = subclass overriding the _CYCLES_* attributes.
    The recorded inputs are the *effective* ones the property speaks of: vbus = TRUE under ignore_phy_vbus;
    full_speed_only = TRUE, low_speed_only = FALSE for the always-FS device (device.py wiring)."""
    use_repo()
    from amaranth import Elaboratable, Module, Signal, Cat, ClockDomain
    from amaranth.hdl import Fragment
    from luna.gateware.usb.usb2.reset import USBResetSequencer

    if consts is None:
        seq_cls = USBResetSequencer
    else:
        seq_cls = type("ScaledResetSequencer", (USBResetSequencer,), {ATTRS[k]: v for k, v in consts.items()})

    class Top(Elaboratable):
        def __init__(self):
            self.cyc = Signal(32, reset_less=True)       # the recorder's own registers survive a domain reset
            self.evt = Signal(16, reset_less=True)
            self.fsm = None
            self.domain = ClockDomain("usb")
            self.forced = {}                             # effective value of inputs the configuration overrides
            if kind.startswith("seq"):
                d = self.dut = seq_cls()
                self.ins = {"ls": d.line_state, "vbus": d.vbus_connected, "disc": d.disconnect,
                            "fso": d.full_speed_only, "lso": d.low_speed_only, "busy": d.bus_busy}
                self.inv = set()
                self.outs = {"br": d.bus_reset, "susp": d.suspended, "spd": d.current_speed,
                             "op": d.operating_mode, "term": d.termination_select, "txv": d.tx.valid,
                             "txd": d.tx.data}
            else:
                import luna.gateware.usb.usb2.device as devmod
                from luna.gateware.interface.utmi import UTMIInterface
                self._devmod = devmod
                utmi = UTMIInterface()
                d = self.dut = devmod.USBDevice(bus=utmi)
                if kind == "dev":
                    d.always_fs = False          # a 60 MHz UTMI PHY that can do high speed
                    d.data_clock = 60e6
                else:
                    self.forced = {"fso": 1, "lso": 0}
                d.bus_busy = Signal()
                self.ins = {"ls": utmi.line_state, "vbus": utmi.session_end, "disc": d.connect,
                            "fso": d.full_speed_only, "lso": d.low_speed_only, "busy": d.bus_busy}
                self.inv = {"vbus", "disc"}      # vbus_connected = ~session_end, disconnect = ~connect
                self.outs = {"br": d.reset_detected, "susp": d.suspended, "spd": d.speed,
                             "op": utmi.op_mode, "term": utmi.term_select, "txv": utmi.tx_valid,
                             "txd": utmi.tx_data}
                self.tx_ready = utmi.tx_ready
            if kind == "seq-novbus":
                self.forced = {"vbus": 1}
            self.ins["rst"] = self.domain.rst

        def elaborate(self, platform):
            m = Module()
            m.domains.usb = self.domain
            if kind.startswith("seq"):
                frag = Fragment.get(self.dut, _IgnoreVbusPlatform() if kind == "seq-novbus" else platform)
                self.fsm = _find_fsm_state(frag)
                m.submodules.dut = frag
            else:
                orig = self._devmod.USBResetSequencer
                self._devmod.USBResetSequencer = seq_cls
                try:
                    m.submodules.dut = Fragment.get(self.dut, platform)
                finally:
                    self._devmod.USBResetSequencer = orig
            parts = [self.outs[n] for n, _w in OUT_FIELDS]
            if self.fsm is not None:
                parts.append(self.fsm)
            self.obs = Cat(*parts)
            self.prev = Signal(len(self.obs), reset_less=True)
            m.d.usb += [self.cyc.eq(self.cyc + 1), self.prev.eq(self.obs)]
            with m.If(self.obs != self.prev):
                m.d.usb += self.evt.eq(self.evt + 1)
            return m

    return Top()


class Recorder:
    """Plays segments [(inputs, n_cycles), ...] into the DUT and records an event-compressed trace:
    a full record for every cycle in which an input or an observed signal differs from the cycle before,
    {"dt": n} for n cycles in between (a registered change counter inside the wrapper wakes the testbench,
    so no change can be missed)."""

    def __init__(self, kind, consts):
        from amaranth.sim import Simulator
        self.kind = kind
        self.top = build_top(kind, consts)
        self.sim = Simulator(self.top)
        self.sim.add_clock(PERIOD, domain="usb")
        self.sim.add_testbench(self._bench)
        self._first = True
        self.cycles = 0
        self._segs = None
        self._trace = None

    def _decode(self, word):
        r = {}
        pos = 0
        for n, w in OUT_FIELDS:
            v = (word >> pos) & ((1 << w) - 1)
            pos += w
            r[n] = bool(v) if n in BOOL_FIELDS else v
        fsm = self.top.fsm
        if fsm is not None:
            v = word >> pos
            r["st"] = fsm.decoder(v).split("/")[0] if fsm.decoder else str(v)
        else:
            r["st"] = ""
        if self.kind.startswith("dev"):
            r["dev"] = True
        return r

    async def _bench(self, ctx):
        top = self.top
        trace = []
        upto = -1                   # last cycle covered by the records emitted so far
        last_outs = None
        last_evt = 0
        cur_in = {n: (1 if n == "ls" else 0) for n in IN_NAMES}
        if self.kind.startswith("dev"):
            ctx.set(top.tx_ready, 1)

        def emit_full(c, ins, outs):
            nonlocal upto, last_outs
            gap = c - 1 - upto
            if gap > 0:
                trace.append({"dt": gap})
            rec = {n: (bool(ins[n]) if n in BOOL_FIELDS else int(ins[n])) for n in IN_NAMES}
            for n, v in top.forced.items():
                rec[n] = bool(v)
            rec.update(outs)
            trace.append(rec)
            upto = c
            last_outs = outs

        def look_back(c):
            """Just after the edge into cycle c: did the observed word change in cycle c-1?"""
            nonlocal last_evt
            ev = ctx.get(top.evt)
            if ev != last_evt and c - 1 > upto:
                emit_full(c - 1, cur_in, self._decode(ctx.get(top.prev)))
            last_evt = ev

        c = 0
        tnow = 0.0                  # in clock periods; the edge into cycle k is at k - 0.5
        for ins, n in self._segs:
            look_back(c)
            for k, v in ins.items():
                cur_in[k] = int(v)
                ctx.set(top.ins[k], (0 if v else 1) if k in top.inv else int(v))
            emit_full(c, cur_in, self._decode(ctx.get(top.obs)))
            target = c + n
            if cur_in["rst"]:                           # domain held in reset: every cycle is logged
                for j in range(n):
                    if j:
                        emit_full(c, cur_in, self._decode(ctx.get(top.obs)))
                    await ctx.tick("usb")
                    c += 1
                    tnow = c - 0.5
                last_evt = ctx.get(top.evt)
                continue
            while c < target:
                wake = float(target - 1) if target >= 2 else 0.25     # inside cycle target-1
                if wake > tnow:
                    fired, _ = await ctx.delay((wake - tnow) * PERIOD).changed(top.evt)
                else:
                    fired = True
                if fired:
                    tnow = wake
                    await ctx.tick("usb")
                    c = target
                    tnow = c - 0.5
                else:
                    c = ctx.get(top.cyc)
                    tnow = c - 0.5
                    look_back(c)
                    outs = self._decode(ctx.get(top.obs))
                    if outs != last_outs:
                        emit_full(c, cur_in, outs)
        look_back(c)
        if c - 1 > upto:
            trace.append({"dt": c - 1 - upto})
        self.cycles += c
        self._trace = trace

    def run(self, segments):
        self._segs = segments
        self._trace = None
        if not self._first:
            self.sim.reset()
        self._first = False
        self.sim.run()
        return self._trace


_RECORDERS = {}


def _worker(job):
    """job = (kind, consts or None, [segments, ...]) -> ([trace, ...], cycles, wall)"""
    kind, consts, scenarios = job
    key = (kind, json.dumps(consts, sort_keys=True))
    t0 = time.time()
    rec = _RECORDERS.get(key)
    if rec is None:
        rec = _RECORDERS[key] = Recorder(kind, consts)
    c0 = rec.cycles
    traces = [rec.run(s) for s in scenarios]
    return traces, rec.cycles - c0, time.time() - t0


# ---------------------------------------------------------------------------------------------
# 3. stimuli
# ---------------------------------------------------------------------------------------------
# A scenario is a list of *symbolic* segments {"i": inputs, "k": [threshold names], "d": offset}: the inputs
# are held for max(1, sum(k) + d) cycles.  The same scenario is played at the scaled and at the real constants
# (this is parameter substitution -- the durations T-1, T, T+1 stay exact).  TLC's ScriptSpec emits exactly
# this shape (variable `seg`); the structured scenarios below use it too.
SE0, J, K, SE1 = 0, 1, 2, 3
CTL0 = {"vbus": True, "disc": False, "fso": False, "lso": False, "busy": False, "rst": False}


def S(ls, k=(), d=0, **ctl):
    i = dict(CTL0)
    i.update(ctl)
    i["ls"] = ls
    if isinstance(k, str):
        k = [k]
    return {"i": i, "k": list(k), "d": int(d)}


def seg_cycles(seg, consts):
    return max(1, sum(consts[n] for n in seg["k"]) + seg["d"])


def concretise(scn, consts, budget=None):
    out = []
    total = 0
    for sg in scn:
        n = seg_cycles(sg, consts)
        if budget is not None and total + n > budget and out:
            break
        out.append((dict(sg["i"]), n))
        total += n
    return out, total


def chirps(n_pairs, k_extra=2, j_extra=2, **ctl):
    out = []
    for _ in range(n_pairs):
        out += [S(K, "T2P5US", k_extra, **ctl), S(J, "T2P5US", j_extra, **ctl)]
    return out


RESET_TO_CHIRP_END = ("T5US", "T2MS")      # + 3 cycles: first cycle in which the device awaits the host chirp


def to_high_speed(**ctl):
    """Shortest good handshake: reset, device chirp, three minimal K-J pairs, then HS idle."""
    return [S(J, (), 4, **ctl), S(SE0, RESET_TO_CHIRP_END, 4, **ctl)] + chirps(3, **ctl) + [S(SE0, (), 6, **ctl)]


# After to_high_speed() (whose last 6 SE0 cycles cover IS_HIGH_SPEED and the first 5 cycles of HS operation) the
# device reverts to full speed when SE0 has lasted T3MS+1 cycles in HS operation, and samples the line T200US+1
# cycles later: HS_IDLE_TO_REVERT ends exactly at the reversion, the following segment is the settling window.
HS_IDLE_TO_REVERT = ("T3MS", -4)


def hs_revert(settle_ls, **ctl):
    return [S(SE0, HS_IDLE_TO_REVERT[0], HS_IDLE_TO_REVERT[1], **ctl), S(settle_ls, "T200US", 3, **ctl)]


def structured_scenarios(rng, tier):
    """Real-time / scaled scenarios written by hand around each clause's boundary (code -> spec direction).
    Every duration is symbolic; offsets are drawn from rng so different seeds probe different points."""
    r = rng.randint
    sc = {}
    # (e) reset debounce at FS: too short, interrupted, just long enough; FS-only device keeps running
    sc["fs_reset_boundaries"] = [
        S(J, (), 30), S(SE0, "T2P5US", -1), S(J, (), 3), S(SE0, "T5US", -2), S(J, (), 2),
        S(SE0, "T5US", -r(2, 3)), S(K, (), 1), S(SE0, "T5US", -1), S(J, (), 5),
        S(SE0, "T5US", 1, fso=True), S(SE0, (), 20, fso=True), S(J, (), 10, fso=True),
        S(SE0, "T5US", 2, lso=True), S(K, (), 10, lso=True)]
    # (f) suspend: idle just short of 3 ms broken by a glitch, then 3 ms; (e) reset from suspend at 2.5 us
    sc["fs_suspend_boundaries"] = [
        S(J, "T3MS", -r(2, 9)), S(K, (), 1), S(J, "T2MS", r(1, 50)), S(SE0, (), 2), S(J, "T3MS", 3), S(J, (), 20),
        S(SE0, "T2P5US", -2), S(J, (), 5), S(SE0, "T2P5US", -1), S(SE1, (), 1), S(SE0, "T2P5US", -1), S(SE1, (), 2),
        S(J, (), 3), S(SE0, "T2P5US", 2, fso=True), S(SE0, "T5US", 3, fso=True),
        S(J, (), 9, fso=True)]
    # (a)(d) handshake with only two pairs, then silence until the deadline; then a good one with long chirps
    sc["two_pairs_then_timeout"] = [
        S(J, (), 10), S(SE0, RESET_TO_CHIRP_END, 10)] + chirps(2, 3, 3) + [
        S(SE0, "T2P5MS", 0), S(J, (), 12)]
    # (a) glitched chirps: no state ever lasts 2.5 us although K/J alternate for a long time
    gl = []
    for _ in range(3):
        gl += [S(K, "T2P5US", -1), S(SE0, (), 1), S(K, "T2P5US", 0 - r(1, 2)), S(SE1, (), 1), S(J, "T2P5US", 2)]
    sc["glitched_chirps"] = [S(J, (), 6), S(SE0, RESET_TO_CHIRP_END, 3)] + gl + [S(SE0, "T2P5MS", 5), S(J, (), 8)]
    # (a) chirps that are each one cycle too short for the 2.5 us filter, and exactly long enough
    sc["short_chirps"] = [S(J, (), 6), S(SE0, RESET_TO_CHIRP_END, 5)] + chirps(4, -1, -1) + chirps(1, 0, 0) + [
        S(SE0, "T2P5MS", 5), S(J, (), 8)]
    # HS suspend -> resume K -> HS again -> restriction appears
    sc["hs_suspend_resume"] = to_high_speed() + hs_revert(J) + [
        S(J, (), 30), S(K, (), 4), S(SE0, (), 8), S(SE0, (), 4, fso=True), S(J, (), 5, fso=True)]
    # HS reset (3 ms SE0 + 200 us, line still SE0), device chirps again, nobody answers -> fallback to FS
    sc["hs_reset_no_answer"] = to_high_speed() + hs_revert(SE0) + [
        S(SE0, ("T2MS", "T2P5MS"), 8), S(J, (), 9)]
    # the suspend entered from HS ends by a *bus reset* that does not lead back to HS (restricted at that moment);
    # later 3 ms of FS idle -> suspend entered at FS -> resume K must not enter HS
    sc["hs_suspend_reset_restricted_fs_suspend_resume"] = to_high_speed() + hs_revert(J) + [
        S(J, (), 9), S(SE0, "T2P5US", 3, fso=True), S(J, (), 4, fso=True), S(J, "T3MS", 4), S(J, (), 9),
        S(K, (), 4), S(J, (), 6)]
    # same, the reset's handshake fails because the host does not chirp within 2.5 ms
    sc["hs_suspend_reset_failed_fs_suspend_resume"] = to_high_speed() + hs_revert(J) + [
        S(J, (), 9), S(SE0, ("T2P5US", "T2MS", "T2P5MS"), 8), S(J, "T3MS", 6), S(J, (), 9), S(K, (), 4), S(J, (), 6)]
    # sibling: the reset from the HS suspend succeeds -> HS -> HS suspend again -> resume K enters HS (legitimately)
    sc["hs_suspend_reset_ok_suspend_resume"] = to_high_speed() + hs_revert(J) + [
        S(J, (), 9), S(SE0, ("T2P5US", "T2MS"), 4)] + chirps(3) + [S(SE0, (), 6)] + hs_revert(J) + [
        S(J, (), 9), S(K, (), 4), S(SE0, (), 6)]
    # sibling: plain FS life: failed handshake, FS suspend, resume, FS suspend, reset from suspend (restricted)
    sc["fs_suspend_resume"] = [
        S(J, (), 6), S(SE0, RESET_TO_CHIRP_END + ("T2P5MS",), 9), S(J, "T3MS", 5), S(K, (), 3), S(J, "T3MS", 5),
        S(SE0, "T2P5US", 3, fso=True), S(J, (), 6, fso=True)]
    # (c) restriction appears in HS; (b) restricted devices never chirp; low-speed idle polarity
    sc["restrictions"] = to_high_speed() + [
        S(SE0, (), 5, fso=True), S(SE0, "T5US", 4, fso=True), S(J, (), 6, fso=True), S(J, (), 4),
        S(SE0, RESET_TO_CHIRP_END, 4)] + chirps(3) + [S(SE0, (), 4), S(SE0, (), 3, lso=True), S(K, (), 8, lso=True),
        S(SE0, "T5US", 3, lso=True), S(K, "T3MS", 3, lso=True), S(SE0, "T2P5US", 3, lso=True), S(K, (), 5, lso=True),
        S(K, "T3MS", 3, lso=True), S(J, (), 3, lso=True), S(K, (), 5, lso=True)]
    # (d) a host K that begins just before the 2.5 ms deadline and lasts across it; PHY briefly busy
    sc["late_chirp_busy_phy"] = [
        S(J, (), 5), S(SE0, "T5US", 2), S(SE0, (), 1, busy=True), S(SE0, ("T2MS", "T2P5MS"), -1), S(K, "T5US", 4),
        S(J, "T2P5US", 3), S(SE0, "T5US", 5), S(J, (), 6)]
    # vbus loss (in FS and in HS) and soft disconnect
    sc["vbus_and_disconnect"] = [
        S(J, (), 5, vbus=False), S(J, (), 5), S(SE0, (), 3, vbus=False), S(J, (), 4),
        S(J, "T2P5US", 3, disc=True), S(J, (), 6), S(SE0, "T5US", 2, fso=True), S(J, (), 3)] + to_high_speed() + [
        S(SE0, (), 3, vbus=False), S(J, (), 5), S(SE0, RESET_TO_CHIRP_END, 4)] + chirps(3) + [
        S(K, (), 2, disc=True), S(K, "T2P5US", 2, disc=True), S(J, (), 6)]
    # resume from HS suspend while restricted; HS reset with a K at the sample point
    sc["hs_suspend_resume_restricted"] = to_high_speed() + hs_revert(J) + [
        S(J, (), 6, fso=True), S(K, (), 3, fso=True), S(J, (), 5)]
    sc["hs_reset_confused_line"] = to_high_speed() + hs_revert(K) + [S(SE0, "T2MS", 9), S(J, (), 4)]
    # run-time change of the speed restriction with no bus reset afterwards: the idle polarity stays that of the
    # speed the device operates at (3 ms of FS K is not idle although low_speed_only is now set; FS J still is)
    sc["runtime_restriction_change"] = [
        S(J, (), 9), S(K, "T3MS", 5, lso=True), S(J, (), 3, lso=True), S(J, "T3MS", 4, lso=True),
        S(J, (), 6, lso=True), S(J, (), 4), S(K, (), 3), S(J, (), 5, fso=True, lso=True),
        S(SE0, "T5US", 3, fso=True, lso=True), S(K, (), 6, fso=True, lso=True)]
    # the usb clock domain is reset in mid-operation: in HS, while suspended, while chirping
    sc["domain_reset"] = to_high_speed() + [
        S(SE0, (), 2, rst=True), S(SE0, "T5US", 4), S(SE0, "T2MS", 2), S(SE0, (), 2, rst=True), S(J, (), 5),
        S(J, "T3MS", 4), S(J, (), 1, rst=True), S(J, (), 6), S(K, (), 3), S(SE0, "T2P5US", 3), S(J, (), 4)]
    if tier != "quick":
        for t in range(24):
            n = r(2, 5)
            bad = r(0, 2 * n)
            ch = []
            for idx in range(1, 2 * n + 1):
                ls = K if idx % 2 else J
                if idx == bad:
                    kind = r(0, 2)
                    if kind == 0:
                        ch.append(S(ls, "T2P5US", r(-3, 1)))
                    elif kind == 1:
                        ch += [S(ls, "T2P5US", -r(1, 2)), S(r(0, 3), (), r(1, 2)), S(ls, "T2P5US", r(1, 3))]
                    else:
                        ch += [S(ls, "T2P5US", 1), S(SE0, (), 1), S(ls, "T2P5US", 3)]
                else:
                    ch.append(S(ls, "T2P5US", r(2, 3)) if r(0, 3) else S(ls, ("T2P5US", "T5US", "T5US"), r(0, 9)))
            sc["rand_handshake_%02d" % t] = [S(J, (), r(2, 9)), S(SE0, RESET_TO_CHIRP_END, r(3, 9))] + ch + [
                S(SE0, (), 6), S(SE0, "T3MS", r(-6, -2)), S(r(0, 2), "T200US", r(1, 5)),
                S(r(0, 2), (), r(1, 9)), S(SE0, "T5US", r(-1, 3))]
    return sc


def witness_scenarios():
    """One stimulus per open finding, hitting exactly its trigger (see the KF_ predicates in Usb2Reset.tla)."""
    w = {}
    # restriction raised during the HS->FS reversion window: the handshake is started although restricted
    w["kf_revert_restricted"] = to_high_speed() + [
        S(SE0, HS_IDLE_TO_REVERT[0], HS_IDLE_TO_REVERT[1]), S(SE0, "T200US", 6, fso=True), S(SE0, (), 12, fso=True)]
    # the awaited chirp state shows up exactly in the deadline cycle: the 2.5 ms time-out is skipped
    w["kf_chirp_at_deadline"] = [
        S(J, (), 4), S(SE0, RESET_TO_CHIRP_END + ("T2P5MS",), 3), S(K, (), 1), S(SE0, "T2P5US", 8), S(SE0, "T5US", 9)]
    # a J that ends exactly when it qualifies is counted, and counted again when J returns without a K
    w["kf_j_recounted"] = [
        S(J, (), 4), S(SE0, RESET_TO_CHIRP_END, 4), S(K, "T2P5US", 2), S(J, "T2P5US", 1), S(SE0, (), 1),
        S(J, "T2P5US", 2), S(K, "T2P5US", 2), S(J, "T2P5US", 2), S(SE0, (), 8)]
    return w


def random_scaled_scenario(rng, consts, length):
    """Seeded random input walk beyond the script templates (any line state, any toggle, durations 1..T3MS+3)."""
    out = []
    ctl = dict(CTL0)
    total = 0
    tmax = consts["T3MS"] + 3
    busy_max = consts["T2MS"] - 1 - consts["T1MS"]
    last_busy = -1000
    while total < length:
        mood = rng.random()
        if mood < 0.15:
            k = rng.choice(["vbus", "disc", "fso", "lso"])
            ctl[k] = not ctl[k] if rng.random() < 0.5 else CTL0[k]
        if mood > 0.9:
            ctl = dict(CTL0)
        ls = rng.choice([SE0, SE0, J, J, K, K, SE1])
        n = rng.choice([1, 1, 2, 3, rng.randint(1, 8), rng.randint(1, tmax)])
        busy = False
        if total - last_busy > 60 and rng.random() < 0.1:      # Env assumption: PHY busy only briefly (<= BusyMax)
            busy = True
            n = rng.randint(1, busy_max)
            last_busy = total
        out.append({"i": dict(ctl, ls=ls, busy=busy), "k": [], "d": n})
        total += n
    return out


# ---------------------------------------------------------------------------------------------
# 4. the check
# ---------------------------------------------------------------------------------------------
TOGGLES = ["vbus", "disc", "fso", "lso", "busy"]
# Many JVMs run side by side here: keep each one's GC / JIT thread pools small (the shared runner passes `env` on).
JVM_LONG = {"JAVA_TOOL_OPTIONS": "-XX:ParallelGCThreads=2 -XX:CICompilerCount=2"}
JVM_SHORT = {"JAVA_TOOL_OPTIONS": "-XX:ParallelGCThreads=2 -XX:CICompilerCount=2 -XX:TieredStopAtLevel=1"}
# FSM edges of the reference that need a toggling input to be reachable
EDGE_NEEDS = {
    "LsFs_Stay_Reset": ("vbus", "fso", "lso"), "LsFs_Suspend_Reset": ("vbus",), "LsFs_Disconnect": ("disc",),
    "LsFs_Disconnect_Reset": ("disc+vbus",), "Hs_Leave": ("fso", "lso"), "Hs_Leave_NoVbus": ("vbus",),
    "Hs_Revert_NoVbus": ("vbus",), "Hs_Disconnect": ("disc",), "Prep0_Wait": ("busy",), "Prep1_Wait": ("busy",),
    "Detect_Reset_Restricted": ("fso", "lso"), "Susp_Reset_LsFs": ("fso", "lso"), "Disc_Stay": ("disc",),
    "Disc_Reconnect": ("disc",),
}
CLAUSE_TAG = {"b_handshake_started_while_restricted": "kf_revert_restricted",
              "d_no_fallback_after_chirp_timeout": "kf_chirp_at_deadline",
              "a_high_speed_without_valid_handshake": "kf_j_recounted"}


def _mc_job(label, consts, slack, ls, toggles, leap=0, edges=False):
    """One TLC run.  edges=False: FreeSpec (Ref + monitors, invariants, optional leap equivalence);
    edges=True: EdgeSpec (reference FSM alone, one named action per edge, action coverage required)."""
    sub = dict(spec_constants(consts, slack))
    sub["LsVals"] = "{%s}" % ", ".join(str(x) for x in ls)
    for t, cname in zip(TOGGLES, ["VbusVals", "DiscVals", "FsoVals", "LsoVals", "BusyVals"]):
        rest = "TRUE" if t == "vbus" else "FALSE"
        sub[cname] = "{TRUE, FALSE}" if t in toggles else "{%s}" % rest
    sub["RstVals"] = "{TRUE, FALSE}" if "rst" in toggles else "{FALSE}"
    sub["NAdv"] = leap if leap else 1
    if edges:
        cfg = tlc.render_cfg(_cfg("MCUsb2Reset_edges.cfg.tmpl"), sub)
    else:
        sub["LEAPINV"] = "INVARIANT MonLeapOK\nINVARIANT RefLeapOK" if leap else ""
        cfg = tlc.render_cfg(_cfg("MCUsb2Reset.cfg.tmpl"), sub)
    allow = []
    for edge, needs in EDGE_NEEDS.items():
        ok = any(all(x in toggles for x in n.split("+")) for n in needs)
        if not ok:
            allow.append(edge)
    bounds = {"spec": "EdgeSpec (reference FSM, edge coverage)" if edges else "FreeSpec (Ref + monitors)",
              "thresholds": consts, "Slack": slack, "line_state": list(ls), "toggling_inputs": list(toggles),
              "leap_check_upto": leap}
    return label, cfg, tuple(allow), edges, bounds


def _run_mc(job):
    label, cfg, allow, edges, bounds = job
    res = tlc.model_check(SPEC_DIR, "MCUsb2Reset", cfg, workers=int(os.environ.get("VERIF_TLC_WORKERS", "4")),
                          timeout=5400, coverage=edges, allow_uncovered=allow, env=JVM_LONG)
    if edges:
        covered = {v["action"] for v in res["coverage"].values() if v["generated"] > 0}
        if len(covered) < 30:
            raise tlc.TLCError("edge coverage of %s implausibly small: %s" % (label, sorted(covered)))
    return label, res, bounds


def _simulate_part(args):
    seed, num, depth = args
    cfg = tlc.render_cfg(_cfg("MCUsb2Reset_sim.cfg.tmpl"), spec_constants(SCALED, SLACK_SCALED))
    return tlc.simulate(SPEC_DIR, "MCUsb2ResetSim", cfg, num=num, depth=depth, seed=seed, timeout=1800,
                        env=JVM_SHORT)


def _scripts_from_tlc(seed, num, depth, parts=4):
    """TLC -simulate, `parts` JVMs side by side (seeds derived from VERIF_SEED; results in a fixed order)."""
    per = (num + parts - 1) // parts
    with ThreadPoolExecutor(max_workers=parts) as ex:
        chunks = list(ex.map(_simulate_part, [(seed * 100 + k, per, depth) for k in range(parts)]))
    scripts = []
    for behs in chunks:
        for b in behs:
            if b[-1][1].get("bad") != "ok":
                raise tlc.TLCError("specification-only counterexample in ScriptSpec: %s" % b[-1][1].get("bad"))
            segs = [st["seg"] for act, st in b if act == "SLoad"][:-1]     # the last one may have been cut short
            if segs:
                scripts.append([{"i": dict({k: sg["i"][k] for k in IN_NAMES if k != "rst"}, rst=bool(sg.get("rst"))),
                                 "k": list(sg["k"]), "d": sg["d"]} for sg in segs])
    return scripts


def _pattern_of(status, info):
    tag = CLAUSE_TAG.get(status)
    return tag if tag and info and tag in info.get("kf", []) else "clean"


def check_C19(rep):
    quick = rep.tier == "quick"
    rng = rep.rng
    rep.rule = ("a recorded real-gateware trace counts once per distinct (monitor antecedent exercised | real FSM "
                "state visited | constants set | DUT kind); antecedents = reset by each of the 4 causes, suspend "
                "from FS/LS and from HS, handshake start, device chirp done, valid host pair, too-short host chirp, "
                "HS by handshake / by resume, HS reverted / left, fallback, restricted in HS")
    rep.assume("Env: line_state, vbus_connected, disconnect, full_speed_only, low_speed_only take any value in any "
               "cycle; bus_busy is asserted in at most (2 ms - 1 ms - 1 cycle) cycles while the device prepares its "
               "chirp (otherwise the design cannot drive the >= 1 ms chirp K the property speaks of)")
    rep.assume("HS operation = current_speed HIGH and operating_mode NORMAL; a registered output may lag its cause by "
               "at most Slack cycles (3 real, 2 scaled); 'within two cycles' of clause (c) is exact")
    rep.assume("clause (b) is read as in the property statement: the handshake is not *started* while restricted "
               "(a restriction appearing in mid-handshake is handled by clause (c))")
    rep.assume("HS reset discrimination: 3 ms SE0 in HS operation, then >= 200 us, then a non-J line when bus_reset "
               "is reported (single sample, as USB 2.0 7.1.7.6 allows)")
    rep.assume("real-time thresholds are the USB 2.0 values at 60 MHz (150, 300, 12000, 60000, 120000, 150000, "
               "180000 cycles), fixed in the binding")
    t_start = time.time()

    # ---- 1. exhaustive exploration of the specification (several TLC runs in parallel threads)
    if quick:
        mcs = [_mc_job("line", SCALED, SLACK_SCALED, (0, 1, 2), ()),
               _mc_job("edges line+fso", SCALED, SLACK_SCALED, (0, 1, 2), ("fso",), edges=True),
               _mc_job("leaps (small scale)", SCALED_SMALL, SLACK_SCALED, (0, 1, 2), (), leap=14)]
    else:
        mcs = [_mc_job("line4", SCALED, SLACK_SCALED, (0, 1, 2, 3), ()),
               _mc_job("restrictions", SCALED, SLACK_SCALED, (0, 1, 2), ("fso", "lso")),
               _mc_job("vbus", SCALED, SLACK_SCALED, (0, 1, 2), ("vbus",)),
               _mc_job("disconnect", SCALED, SLACK_SCALED, (0, 1, 2), ("disc",)),
               _mc_job("busy", SCALED, SLACK_SCALED, (0, 1, 2), ("busy",)),
               _mc_job("domain reset", SCALED, SLACK_SCALED, (0, 1, 2), ("rst",)),
               _mc_job("edges all inputs", SCALED, SLACK_SCALED, (0, 1, 2, 3), tuple(TOGGLES), edges=True),
               _mc_job("leaps (small scale)", SCALED_SMALL, SLACK_SCALED, (0, 1, 2, 3), ("fso", "vbus"), leap=15),
               _mc_job("leaps", SCALED, SLACK_SCALED, (0, 1, 2), (), leap=31)]
    pool = ThreadPoolExecutor(max_workers=3)

    # ---- 2./3. stimuli, played on the real gateware in worker processes.  The directed scenarios, witnesses and
    # random walks start at once; the TLC-simulated scripts join as soon as TLC has produced them.
    stamps = {}
    nproc = int(os.environ.get("VERIF_PROCS", "12"))
    structured = structured_scenarios(rng, rep.tier)
    witnesses = witness_scenarios()
    randoms = [random_scaled_scenario(rng, SCALED, 300) for _ in range(40 if quick else 400)]
    jobs = []          # (group, kind, consts, [(scenario, meta)], future)
    group_consts = {}  # group -> (constants of the trace specification, Slack)
    ex = ProcessPoolExecutor(max_workers=nproc)

    def add(group, kind, consts, items):
        use = REAL if consts is None else consts
        group_consts[group] = (use, SLACK_REAL if use["T3MS"] > 1000 else SLACK_SCALED)
        conc = [concretise(s, use, m.get("budget"))[0] for s, m in items]
        jobs.append((group, kind, consts, items, ex.submit(_worker, (kind, consts, conc))))

    def metas(prefix, scns):
        return [(s, {"origin": prefix, "n": i}) for i, s in enumerate(scns)]

    def chunks(items, n):
        size = max(1, (len(items) + n - 1) // n)
        return [items[i:i + size] for i in range(0, len(items), size)]

    named = [(s, {"origin": "structured", "name": n}) for n, s in sorted(structured.items())]
    wit = [(s, {"origin": "witness", "name": n}) for n, s in sorted(witnesses.items())]
    # real constants: one scenario per job (each takes seconds), longest first
    real_first = sorted(named + wit, key=lambda it: -concretise(it[0], REAL)[1])
    for it in real_first:
        add("real", "seq", None, [it])
    if not quick:
        add("real-dev", "dev", None, [it for it in named if it[1]["name"] in
                                      ("hs_suspend_resume", "hs_suspend_reset_failed_fs_suspend_resume")])
    add("scaled", "seq", SCALED, named + wit)
    add("scaled-dev", "dev", SCALED, named)
    # configuration coverage: platform.ignore_phy_vbus, the always-FS USBDevice, other constant sets
    pick = (lambda names: [it for it in named if it[1]["name"] in names]) if quick else (lambda names: named)
    add("scaled-novbus", "seq-novbus", SCALED,
        pick(("vbus_and_disconnect", "fs_reset_boundaries", "hs_suspend_resume", "domain_reset"))
        + metas("random", randoms[:8 if quick else 60]))
    add("scaled-devfs", "dev-fs", SCALED,
        pick(("fs_reset_boundaries", "fs_suspend_boundaries", "fs_suspend_resume", "restrictions",
              "vbus_and_disconnect", "runtime_restriction_change", "domain_reset")))
    rot = SCALED_ROTATION if not quick else [SCALED_ROTATION[rep.seed % len(SCALED_ROTATION)]]
    for tag, cset in rot:
        add("scaled-" + tag, "seq", cset, named + (wit if not quick else []))
    if not quick:
        for it in named:
            if it[1]["name"] in ("fs_reset_boundaries", "hs_suspend_reset_failed_fs_suspend_resume", "restrictions",
                                 "hs_reset_no_answer", "late_chirp_busy_phy", "domain_reset"):
                add("real48", "seq", MHZ48, [it])
    for part in chunks(metas("random", randoms), 2 if quick else 8):
        add("scaled", "seq", SCALED, part)

    scripts = _scripts_from_tlc(rep.seed, 32 if quick else 240, 240 if quick else 400, parts=4 if quick else 6)
    stamps["scripts_ready"] = round(time.time() - t_start, 1)
    # the exhaustive runs start now (TLC's simulator is on the critical path and was given the machine first);
    # they proceed in parallel with the replay and the trace validation
    mc_futs = [pool.submit(_run_mc, j) for j in mcs]
    budget = 450_000 if quick else 2_500_000          # TLC scripts are cut at a cycle budget at the real constants
    for s_, m_ in metas("tlc-script", scripts[:4] if quick else scripts[:110]):
        add("real", "seq", None, [(s_, dict(m_, budget=budget))])
    for part in chunks(metas("tlc-script", scripts), 4 if quick else 10):
        add("scaled", "seq", SCALED, part)
    add("scaled-dev", "dev", SCALED, metas("tlc-script", scripts[:12 if quick else 80]))

    groups = {}
    for group, kind, consts, items, fut in jobs:
        traces, cycles, _wall = fut.result()
        rep.add_eval(cycles)
        for (scn, meta), tr in zip(items, traces):
            m = dict(meta, dut={"seq": "USBResetSequencer", "seq-novbus": "USBResetSequencer(platform.ignore_phy_vbus)",
                                "dev": "USBDevice(HS-capable UTMI)", "dev-fs": "USBDevice(UTMI, always_fs)"}[kind],
                     constants="USB2.0@60MHz" if consts is None else
                     ",".join(str(consts[k]) for k in NAMES))
            groups.setdefault(group, []).append((tr, m))
    ex.shutdown()
    stamps["replayed"] = round(time.time() - t_start, 1)

    # ---- 4. TLC validates every recorded trace (one JVM per group, side by side; results applied in group order)
    drift_seen = {}

    class _Calls:                      # records what validate_group reports, to be replayed onto `rep` in order
        def __init__(self):
            self.calls = []

        def add_traces(self, n, steps):
            self.calls.append(("add_traces", (n, steps)))

        def violation(self, sig, what, replay):
            if str(sig.get("clause", "")).startswith(("env_", "malformed")):
                # the stimulus left the Env assumption / the record stream is ill-formed: a fault of this
                # harness, never a property violation
                raise tlc.TLCError("stimulus outside the environment assumption (%s): %s" % (sig, what[:300]))
            self.calls.append(("violation", (sig, what, replay)))

    with tlc.scratch("u2r-info-") as d:
        def validate(group):
            items = groups[group]
            cfg = tlc.render_cfg(_cfg("Usb2ResetTrace.cfg.tmpl"), spec_constants(*group_consts[group]))
            info_file = os.path.join(d, "info-%s.json" % group)
            for idx, (_t, m) in enumerate(items):
                m["idx"] = idx
            cache = {}

            def infos():
                if "v" not in cache:
                    with open(info_file) as fh:
                        cache["v"] = json.load(fh)
                return cache["v"]

            def classify(trace, matched, status, meta):
                return {"clause": status, "pattern": _pattern_of(status, infos()[meta["idx"]])}

            calls = _Calls()
            validate_group(calls, SPEC_DIR, "Usb2ResetTrace", cfg, items, classify=classify,
                           what_prefix="[%s] " % group, chunk=10 ** 9, timeout=3600,
                           env=dict(JVM_SHORT, INFO_FILE=info_file))
            return calls.calls, infos()

        names = sorted(groups)
        with ThreadPoolExecutor(max_workers=len(names)) as ex:
            outcomes = list(ex.map(validate, names))
        for group, (calls, infos_) in zip(names, outcomes):
            items = groups[group]
            for name, args in calls:
                getattr(rep, name)(*args)
            for (tr, m), inf in zip(items, infos_):
                for tag in inf.get("ev", []):
                    rep.nontriv((group, "ev", tag))
                for st in inf.get("st", []):
                    rep.nontriv((group, "fsm", st))
                if inf.get("drift"):
                    k = inf["drift"]
                    key = (group, m.get("origin"), m.get("name", ""))
                    if key not in drift_seen:
                        drift_seen[key] = True
                        rep.drift.append({"group": group, "scenario": m, "first_drift_record": k,
                                          "ref_state": inf.get("fsm"),
                                          "records": tr[max(0, k - 2):k + 1]})
            if items:
                tr, m = items[0]
                rep.sample({"group": group, "scenario": m, "first_records": tr[:5], "records": len(tr)})
    stamps["validated"] = round(time.time() - t_start, 1)

    # non-vacuity on real executions: every clause's antecedent must have been exercised by accepted traces
    need = {"reset_no_vbus", "reset_from_suspend", "reset_from_high_speed", "reset_at_full_low_speed",
            "suspend_from_high_speed", "suspend_at_full_low_speed", "handshake_start", "device_chirp_done",
            "host_pair_valid", "host_chirp_too_short", "high_speed_by_handshake", "high_speed_by_resume",
            "high_speed_reverted_idle", "high_speed_left", "handshake_fallback", "restricted_in_high_speed"}
    for cls in ("scaled", "real"):
        got = {k[2] for k in rep.nontrivial if isinstance(k, tuple) and k[0] == cls and k[1] == "ev"}
        if need - got and not rep.violations:       # (a rejected trace is not examined further: no vacuity claim then)
            raise tlc.TLCError("vacuous: antecedents never exercised on accepted %s traces: %s"
                               % (cls, sorted(need - got)))

    # ---- 5. collect the exhaustive runs
    for f in mc_futs:
        label, res, bounds = f.result()
        rep.add_mc("MCUsb2Reset %s" % label, res, bounds)
    pool.shutdown()
    rep.notes.append("clean vs witness: a rejected trace matches an open finding only if the trace hit that finding's "
                     "trigger predicate (KF_... in Usb2Reset.tla, evaluated by TLC on the real trace) and failed that "
                     "finding's clause; everything else is a VIOLATION")
    rep.extra["scenarios"] = {g: len(v) for g, v in groups.items()}
    stamps["model_checked"] = round(time.time() - t_start, 1)
    rep.extra["wall_breakdown_s"] = stamps


CHECKS = {"C19": check_C19}
