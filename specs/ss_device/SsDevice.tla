------------------------------ MODULE SsDevice ------------------------------
(***************************************************************************)
(* The USB3 device *above the physical layer* at transaction grain:        *)
(* USBSuperSpeedDevice = link layer + protocol layer + endpoint            *)
(* multiplexer + control endpoint (standard requests, descriptors) + one   *)
(* bulk IN stream endpoint, as one black box between a SuperSpeed host     *)
(* (through its link partner) and the stream producer.                     *)
(*                                                                         *)
(* Written from [USB3.2 8.4-8.12, 9.4] (transaction / data packet fields,  *)
(* control transfer stages, SET_ADDRESS / SET_CONFIGURATION semantics,     *)
(* reset), the statements of C36 C40 C45 C46 C47 C48 and the doc-strings   *)
(* of device.py / protocol/endpoint.py / endpoints/*.py.                   *)
(*                                                                         *)
(* Grain: one step = one protocol-level event.                             *)
(*  Env (host + link partner + stream producer)                            *)
(*    up / down            the link enters / leaves U0                     *)
(*    hot / warm           hot reset (echoed by the device) / warm reset   *)
(*    dp_rx(ep,setup,b,ok) a data packet was delivered (header CRCs good,  *)
(*                         in sequence); ok = its CRC-32 is good           *)
(*    tp(sub,ep,seq,nump,rty)   ACK / STATUS transaction packet delivered  *)
(*    itp(cnt,delta)       isochronous timestamp packet delivered          *)
(*    lmp                  link management packet delivered                *)
(*    w(b,last)            1..4 stream bytes accepted by the IN endpoint   *)
(*  Dev (observed)                                                         *)
(*    req(k,ep,seq,rty)    request strobe taken by the transaction packet  *)
(*                         generator (the protocol layer's handshake port) *)
(*    dhp(...)             a header packet of the device accepted by the   *)
(*                         partner (decoded; ok = CRC-5 and CRC-16 good)   *)
(*    ddp(b,ok,fr)         the data packet payload that followed a data    *)
(*                         header (ok = CRC-32 good, fr = framing good)    *)
(*    rxv(good)            verdict strobe for a received data packet       *)
(*    bi(v)                bus-interval output some cycles after an itp    *)
(*    quiet                nothing happened for a while: obligations due   *)
(*  Link-level retries, keep-alives, credits and link commands are not     *)
(*  events of this specification (stuttering): the composition with the    *)
(*  link layer is by abstraction -- only what the partner *accepted* and   *)
(*  what was *delivered* appears.                                          *)
(*                                                                         *)
(*  Ref: address / configuration, the request of the control transfer in   *)
(*  progress, per endpoint the queue `owed` of answers the device owes     *)
(*  (each with the set of device addresses it may legally carry), the      *)
(*  queue `reqq` of transaction packets requested but not yet on the wire, *)
(*  the IN endpoint's packets / sequence number / flow-control state, the  *)
(*  last timestamp, the verdicts owed for delivered data packets.          *)
(*  Freedom: latencies, the order of answers of *different* endpoints,     *)
(*  NumP / Direction / reserved bits of the device's packets, whether an   *)
(*  answer that was pending when the link left U0 is still sent after      *)
(*  re-entry (optional items) -- but never after a reset.                  *)
(*                                                                         *)
(*  Prop: see the end of the module.                                       *)
(***************************************************************************)
EXTENDS Naturals, Sequences, FiniteSets

CONSTANTS MaxPkt,      \* IN endpoint: maximum packet size in bytes
          WordLen,     \* bytes per stream word (4; the bounded model uses 1)
          EpIn,        \* IN endpoint number
          Desc,        \* descriptor table: sequence of [k |-> type * 256 + index, b |-> bytes]
          ViaWire      \* TRUE: a transaction packet is reported (tp) only after it was delivered on the wire (tpd), with the
                       \* same fields -- the trace check; FALSE: tp events stand alone -- the bounded model

VARIABLES up, rstPending, addr, cfg, req, owed, reqq, dpOpen, rxq, tpq,
          pk, cur, infl, seqn, fc,            \* IN endpoint
          lastItp,
          gAcc, gAcked, gAddrSet, nReq, nWire, nLost,   \* ghosts
          ev

vars == <<up, rstPending, addr, cfg, req, owed, reqq, dpOpen, rxq, tpq, pk, cur, infl, seqn, fc, lastItp,
          gAcc, gAcked, gAddrSet, nReq, nWire, nLost, ev>>

EPs == {0, EpIn}
NoReq == [bm |-> 999, br |-> 0, wv |-> 0, wl |-> 0]
NoDp == [open |-> FALSE, b |-> <<>>]
ANY == 99                                   \* a field the property does not fix

Min(a, b) == IF a < b THEN a ELSE b
Prefix(s, n) == SubSeq(s, 1, Min(n, Len(s)))
RECURSIVE Flat(_)
Flat(ss) == IF ss = <<>> THEN <<>> ELSE Head(ss) \o Flat(Tail(ss))

-----------------------------------------------------------------------------
(* Control requests [USB3.2 9.3, 9.4] *)
ParseSetup(b) == [bm |-> b[1], br |-> b[2], wv |-> b[3] + 256 * b[4], wl |-> b[7] + 256 * b[8]]
Standard(r) == (r.bm \div 32) % 4 = 0
DescIdx(wv) == IF \E i \in 1..Len(Desc) : Desc[i].k = wv
               THEN CHOOSE i \in 1..Len(Desc) : Desc[i].k = wv ELSE 0

\* requests this specification speaks about (the standard handler implements them; everything else must be STALLed)
GET_STATUS == 0  SET_ADDRESS == 5  GET_DESCRIPTOR == 6  SET_CONFIGURATION == 9  SET_ISOCH_DELAY == 49
NoDataStage(r) == Standard(r) /\ r.br \in {SET_ADDRESS, SET_CONFIGURATION, SET_ISOCH_DELAY}
Excluded(r) == Standard(r) /\ r.br \in {8, 48}       \* GET_CONFIGURATION, SET_SEL: stated by no listed property -> not judged (Env never sends them)

\* what an IN request in the data stage must be answered with: STALL or a data packet with these bytes
StallAns == [stall |-> TRUE, b |-> <<>>]
DataAns(b) == [stall |-> FALSE, b |-> b]
DataAnswer(r) ==
    IF ~Standard(r) THEN StallAns
    ELSE IF r.br = GET_DESCRIPTOR
         THEN IF DescIdx(r.wv) = 0 THEN StallAns ELSE DataAns(Prefix(Desc[DescIdx(r.wv)].b, r.wl))
    ELSE IF r.br = GET_STATUS THEN DataAns(<<0, 0>>)
    ELSE StallAns
StatusAnswer(r) ==
    IF ~Standard(r) THEN "stall"
    ELSE IF r.br \in {GET_STATUS, GET_DESCRIPTOR, SET_ADDRESS, SET_CONFIGURATION, SET_ISOCH_DELAY} THEN "ack"
    ELSE "stall"

-----------------------------------------------------------------------------
(* Owed answers *)
TpItem(k, seq, rty, a) == [k |-> k, seq |-> seq, rty |-> rty, b |-> <<>>, addrs |-> {a}, opt |-> FALSE]
DpItem(seq, b, a) == [k |-> "dp", seq |-> seq, rty |-> 0, b |-> b, addrs |-> {a}, opt |-> FALSE]
Owe(o, ep, item) == [o EXCEPT ![ep] = Append(@, item)]
MarkOpt(q) == [i \in 1..Len(q) |-> [q[i] EXCEPT !.opt = TRUE]]
AddAddr(q, a) == [i \in 1..Len(q) |-> [q[i] EXCEPT !.addrs = @ \cup {a}]]
Empty == [e \in EPs |-> <<>>]

\* index of the first item of q satisfying P, where only optional items may be skipped (0: none)
First(q, P(_)) == LET S == {i \in 1..Len(q) : P(q[i]) /\ \A j \in 1..(i - 1) : q[j].opt /\ ~P(q[j])}
                  IN IF S = {} THEN 0 ELSE CHOOSE i \in S : TRUE
DropTo(q, i) == SubSeq(q, i + 1, Len(q))           \* the matched item and the optional ones skipped before it
NonOpt(q) == \E i \in 1..Len(q) : ~q[i].opt

-----------------------------------------------------------------------------
(* IN endpoint [USB3.2 8.10.1, 8.12.1.2; C46] *)
Closed(c1, last) ==          \* packets closed by accepting a word that makes the open packet c1
    IF Len(c1) = MaxPkt THEN IF last THEN <<c1, <<>>>> ELSE <<c1>>
    ELSE IF last THEN <<c1>> ELSE <<>>

\* Same-cycle tolerance: a stream word accepted in the very cycle in which an IN request is reported to the endpoint may be
\* ordered before or after it -- the endpoint may answer "nothing held" (NRDY, then ERDY) or send the packet that word
\* completed.  Such a word (field `same`) turns the NRDY owed for that request into an item that admits both answers.
KindIs(x, k) == x.k = k \/ (x.k = "nrdy_or_dp" /\ k \in {"nrdy", "dp"})

\* an IN request (NumP > 0) for the IN endpoint in a state with packets p, sequence number s
PollOwes(p, s, a) == IF p # <<>> THEN DpItem(s, Head(p), a) ELSE TpItem("nrdy", ANY, ANY, a)

-----------------------------------------------------------------------------
(* Judge: the first violated clause for event e in the current state ("ok": none).  Clauses starting with   *)
(* env_ say that the *environment* left its assumptions (a defect of the stimulus, never of the device).    *)
TpKind(sub) == CASE sub = 1 -> "ack" [] sub = 2 -> "nrdy" [] sub = 3 -> "erdy" [] sub = 5 -> "stall" [] OTHER -> "other"

\* the fields of a host transaction packet this specification speaks about (STATUS: endpoint only)
TpFields(e) == IF e.sub = 1 THEN <<1, e.ep, e.seq, e.nump, e.rty>> ELSE <<e.sub, e.ep, 0, 0, 0>>

JudgeHostTp(e) ==
    IF ~up THEN "env_traffic_while_down"
    ELSE IF e.ep = 0 THEN
        IF e.sub = 4 THEN (IF req = NoReq \/ Excluded(req) THEN "env_status_without_request" ELSE "ok")
        ELSE IF e.nump = 0 THEN "ok"                              \* acknowledgement of the data stage packet
        ELSE IF req = NoReq \/ Excluded(req) \/ NoDataStage(req) THEN "env_in_request_without_data_stage"
        ELSE IF Standard(req) /\ req.br = GET_DESCRIPTOR /\ req.wl = 0 THEN "env_in_request_without_data_stage"
        ELSE "ok"
    ELSE IF e.ep = EpIn THEN
        IF e.sub # 1 THEN "env_status_to_bulk_endpoint"
        \* (the host waits for the answer -- NRDY or the packet -- of a request whose ordering against a stream word is open)
        ELSE IF \E i \in 1..Len(owed[EpIn]) : owed[EpIn][i].k = "nrdy_or_dp" THEN "env_request_while_answer_open"
        ELSE IF infl THEN
            IF e.rty = 1 \/ e.seq = seqn THEN (IF e.nump = 0 THEN "env_retry_without_request" ELSE "ok")
            ELSE IF e.seq = (seqn + 1) % 32 THEN "ok" ELSE "env_ack_sequence"
        ELSE IF e.seq # seqn \/ e.rty = 1 \/ e.nump = 0 THEN "env_poll_shape" ELSE "ok"
    ELSE "ok"

JudgeDevHeader(e) ==
    IF ~e.ok THEN "dev_header_crc"
    ELSE IF dpOpen.open THEN "dp_header_without_payload"
    ELSE IF e.type = 0 THEN "ok"                                  \* link management packets: not judged here
    ELSE IF e.type = 4 THEN
        LET k == TpKind(e.sub)
            q == IF e.ep \in EPs THEN owed[e.ep] ELSE <<>>
            SameReq(x) == x.k = k /\ x.ep = e.ep /\ (k = "ack" => x.seq = e.seq /\ x.rty = e.rty)
            Kind(x) == KindIs(x, k)
            Full(x) == /\ KindIs(x, k)
                       /\ (k = "ack" /\ x.seq # ANY => x.seq = e.seq)
                       /\ (k = "ack" /\ x.rty # ANY => x.rty = e.rty)
                       /\ e.addr \in x.addrs
        IN IF k = "other" THEN "tp_subtype_unknown"
           ELSE IF reqq = <<>> THEN "tp_without_request"
           ELSE IF First(reqq, SameReq) = 0 THEN "tp_differs_from_request"
           ELSE IF First(q, Full) # 0 THEN "ok"
           ELSE IF First(q, Kind) = 0 THEN (IF NonOpt(q) THEN "tp_subtype" ELSE "tp_not_owed")
           ELSE LET x == q[First(q, Kind)] IN
                IF e.addr \notin x.addrs THEN "tp_address"
                ELSE IF k = "ack" /\ x.seq # ANY /\ x.seq # e.seq THEN "tp_sequence"
                ELSE "tp_retry"
    ELSE IF e.type = 8 THEN
        LET q == IF e.ep \in EPs THEN owed[e.ep] ELSE <<>>
            Kind(x) == KindIs(x, "dp")
            Full(x) == KindIs(x, "dp") /\ x.seq = e.seq /\ Len(x.b) = e.len /\ e.addr \in x.addrs
        IN IF First(q, Full) # 0 THEN "ok"
           ELSE IF First(q, Kind) = 0 THEN "dp_not_owed"
           ELSE LET x == q[First(q, Kind)] IN
                IF e.addr \notin x.addrs THEN "dp_address"
                ELSE IF x.seq # e.seq THEN "dp_sequence"
                ELSE "dp_length"
    ELSE "dev_header_type"

Judge(e) ==
    CASE e.e = "up"    -> IF up THEN "env_up_twice" ELSE "ok"
      [] e.e = "down"  -> IF ~up THEN "env_down_twice" ELSE "ok"
      [] e.e \in {"hot", "warm"} ->
            IF pk # <<>> \/ cur # <<>> \/ infl \/ fc THEN "env_reset_with_in_endpoint_busy" ELSE "ok"
      [] e.e = "dp_rx" ->
            IF ~up THEN "env_traffic_while_down"
            ELSE IF e.ep # 0 THEN "env_data_packet_to_in_endpoint"
            ELSE IF ~(e.setup /\ e.len = 8) /\ req # NoReq THEN "env_junk_data_packet_during_request"
            ELSE IF NonOpt(owed[0]) THEN "env_setup_while_answer_pending"
            ELSE "ok"
      [] e.e = "tpd"   -> IF ~up THEN "env_traffic_while_down" ELSE "ok"
      [] e.e = "tp"    -> IF ViaWire /\ tpq = <<>> THEN "tp_report_not_owed"
                          ELSE IF ViaWire /\ Head(tpq) # TpFields(e) THEN "tp_report_differs"
                          ELSE JudgeHostTp(e)
      [] e.e = "itp"   -> IF ~up THEN "env_traffic_while_down" ELSE "ok"
      [] e.e = "lmp"   -> "ok"
      [] e.e = "w"     -> IF Len(e.b) \notin 1..WordLen \/ Len(cur) + Len(e.b) > MaxPkt THEN "env_word_shape"
                          ELSE IF Len(e.b) < WordLen /\ ~e.last THEN "env_word_shape"
                          ELSE IF e.same /\ ~ViaWire /\ ~(ev.e = "tp" /\ ev.ep = EpIn) THEN "env_same_cycle_flag" ELSE "ok"
      [] e.e = "req"   -> "ok"
      [] e.e = "dhp"   -> JudgeDevHeader(e)
      [] e.e = "ddp"   -> IF ~dpOpen.open THEN "dp_payload_without_header"
                          ELSE IF e.b # dpOpen.b THEN "dp_payload"
                          ELSE IF ~e.ok THEN "dp_crc32"
                          ELSE IF ~e.fr THEN "dp_framing" ELSE "ok"
      [] e.e = "rxv"   -> IF rxq = <<>> THEN "rx_verdict_not_owed"
                          ELSE IF Head(rxq) # e.good THEN (IF e.good THEN "rx_good_for_bad_packet" ELSE "rx_bad_for_good_packet")
                          ELSE "ok"
      [] e.e = "bi"    -> IF e.v # lastItp THEN "bus_interval" ELSE "ok"
      [] e.e = "quiet" -> IF dpOpen.open THEN "dp_payload_missing"
                          ELSE IF \E p \in EPs : NonOpt(owed[p]) THEN "response_missing"
                          ELSE IF NonOpt(reqq) THEN "tp_requested_not_sent"
                          ELSE IF rxq # <<>> THEN "rx_verdict_missing"
                          ELSE IF tpq # <<>> THEN "tp_report_missing" ELSE "ok"
      [] e.e = "dhp_down" -> "ok"           \* a unit committed when the link dropped may still leave (ss_linklayer)
      [] OTHER -> "dev_unexpected_event"

-----------------------------------------------------------------------------
(* Apply: the next state *)
Same(S) == UNCHANGED S

ApplyHostTp(e) ==
    IF e.ep = 0 THEN
        IF e.sub = 4 THEN
            LET ans == StatusAnswer(req)
                setA == ans = "ack" /\ req.br = SET_ADDRESS
                setC == ans = "ack" /\ req.br = SET_CONFIGURATION
                na   == req.wv % 128
                o1   == IF setA THEN [p \in EPs |-> AddAddr(owed[p], na)] ELSE owed
            IN /\ owed' = Owe(o1, 0, TpItem(ans, ANY, ANY, addr))          \* the answer still carries the old address
               /\ addr' = IF setA THEN na ELSE addr
               /\ gAddrSet' = (gAddrSet \/ setA)
               /\ cfg' = IF setC THEN req.wv % 256 ELSE cfg
               /\ seqn' = IF setC THEN 0 ELSE seqn
               /\ req' = NoReq
               /\ Same(<<pk, infl, fc, gAcked>>)
        ELSE IF e.nump = 0 THEN Same(<<owed, addr, gAddrSet, cfg, seqn, req, pk, infl, fc, gAcked>>)
        ELSE LET ans == DataAnswer(req) IN
             /\ owed' = Owe(owed, 0, IF ans.stall THEN TpItem("stall", ANY, ANY, addr) ELSE DpItem(0, ans.b, addr))
             /\ req' = IF ans.stall THEN NoReq ELSE req
             /\ Same(<<addr, gAddrSet, cfg, seqn, pk, infl, fc, gAcked>>)
    ELSE IF e.ep = EpIn THEN
        LET retry == infl /\ (e.rty = 1 \/ e.seq = seqn)
            adv   == infl /\ ~retry
            p1    == IF adv THEN Tail(pk) ELSE pk
            s1    == IF adv THEN (seqn + 1) % 32 ELSE seqn
            item  == IF retry THEN DpItem(seqn, Head(pk), addr) ELSE PollOwes(p1, s1, addr)
        IN /\ pk' = p1 /\ seqn' = s1
           /\ gAcked' = IF adv THEN gAcked \o Head(pk) ELSE gAcked
           /\ owed' = IF e.nump > 0 THEN Owe(owed, EpIn, item) ELSE owed
           /\ infl' = IF e.nump > 0 THEN item.k = "dp" ELSE FALSE
           /\ fc' = IF e.nump > 0 /\ item.k = "nrdy" THEN TRUE ELSE fc
           /\ Same(<<addr, gAddrSet, cfg, req>>)
    ELSE Same(<<owed, addr, gAddrSet, cfg, seqn, req, pk, infl, fc, gAcked>>)

ApplyDevHeader(e) ==
    IF e.type = 4 THEN
        LET k == TpKind(e.sub)
            SameReq(x) == x.k = k /\ x.ep = e.ep /\ (k = "ack" => x.seq = e.seq /\ x.rty = e.rty)
            Full(x) == /\ KindIs(x, k)
                       /\ (k = "ack" /\ x.seq # ANY => x.seq = e.seq)
                       /\ (k = "ack" /\ x.rty # ANY => x.rty = e.rty)
                       /\ e.addr \in x.addrs
            i == First(reqq, SameReq)
            j == First(owed[e.ep], Full)
            x == owed[e.ep][j]
        IN /\ reqq' = DropTo(reqq, i)
           /\ nLost' = nLost + (i - 1)
           /\ nWire' = nWire + 1
           \* (the either-item answered NRDY: the request was ordered first, so the packet's arrival now owes the ERDY)
           /\ owed' = [owed EXCEPT ![e.ep] = (IF x.k = "nrdy_or_dp" THEN <<[x EXCEPT !.k = "erdy", !.b = <<>>]>> ELSE <<>>)
                                             \o DropTo(@, j)]
           /\ Same(<<dpOpen, infl>>)
    ELSE IF e.type = 8 THEN
        LET Full(x) == KindIs(x, "dp") /\ x.seq = e.seq /\ Len(x.b) = e.len /\ e.addr \in x.addrs
            j == First(owed[e.ep], Full)
        IN /\ dpOpen' = [open |-> TRUE, b |-> owed[e.ep][j].b]
           /\ owed' = [owed EXCEPT ![e.ep] = DropTo(@, j)]
           \* (the either-item answered with the packet: the word was ordered first, the packet is now in flight)
           /\ infl' = IF owed[e.ep][j].k = "nrdy_or_dp" THEN TRUE ELSE infl
           /\ Same(<<reqq, nLost, nWire>>)
    ELSE Same(<<reqq, nLost, nWire, owed, dpOpen, infl>>)

ClearOpt(q) == SelectSeq(q, LAMBDA x : ~x.opt)

Apply(e) ==
    /\ ev' = e
    /\ tpq' = CASE e.e = "tpd" -> Append(tpq, TpFields(e))
                [] e.e = "tp" /\ ViaWire -> Tail(tpq)
                [] e.e \in {"down", "hot", "warm"} -> <<>>         \* (a packet delivered as the link drops may go unreported)
                [] OTHER -> tpq
    /\ CASE e.e = "up" ->
            /\ up' = TRUE
            /\ Same(<<rstPending, addr, cfg, req, owed, reqq, dpOpen, rxq, pk, cur, infl, seqn, fc, lastItp,
                      gAcc, gAcked, gAddrSet, nReq, nWire, nLost>>)
         [] e.e = "down" ->
            /\ up' = FALSE
            /\ rstPending' = FALSE
            /\ owed' = IF rstPending THEN Empty ELSE [p \in EPs |-> MarkOpt(owed[p])]
            /\ reqq' = IF rstPending THEN <<>> ELSE MarkOpt(reqq)
            /\ nLost' = IF rstPending THEN nLost + Len(reqq) ELSE nLost
            /\ dpOpen' = NoDp
            /\ Same(<<addr, cfg, req, rxq, pk, cur, infl, seqn, fc, lastItp, gAcc, gAcked, gAddrSet, nReq, nWire>>)
         [] e.e \in {"hot", "warm"} ->
            \* [USB3.2 9.1.1.6 / 7.5.x] reset: default state -- address 0, unconfigured, no transfer in progress.
            \* A warm reset is logged while the link is still up: what is on the wire in that very cycle may complete.
            /\ addr' = 0 /\ cfg' = 0 /\ req' = NoReq /\ gAddrSet' = FALSE
            /\ rstPending' = up
            /\ owed' = IF up THEN [p \in EPs |-> MarkOpt(owed[p])] ELSE Empty
            /\ reqq' = IF up THEN MarkOpt(reqq) ELSE <<>>
            /\ nLost' = IF up THEN nLost ELSE nLost + Len(reqq)
            /\ rxq' = <<>>
            /\ Same(<<up, dpOpen, pk, cur, infl, seqn, fc, lastItp, gAcc, gAcked, nReq, nWire>>)
         [] e.e = "dp_rx" ->
            LET su == e.setup /\ e.len = 8 /\ e.ok IN
            /\ rxq' = Append(rxq, e.ok)
            /\ req' = IF su THEN ParseSetup(e.b) ELSE req
            /\ owed' = IF su THEN Owe(owed, 0, TpItem("ack", 1, 0, addr)) ELSE owed
            /\ Same(<<up, rstPending, addr, cfg, reqq, dpOpen, pk, cur, infl, seqn, fc, lastItp,
                      gAcc, gAcked, gAddrSet, nReq, nWire, nLost>>)
         [] e.e = "tp" ->
            /\ ApplyHostTp(e)
            /\ Same(<<up, rstPending, reqq, dpOpen, rxq, cur, lastItp, gAcc, nReq, nWire, nLost>>)
         [] e.e = "itp" ->
            /\ lastItp' = e.cnt
            /\ Same(<<up, rstPending, addr, cfg, req, owed, reqq, dpOpen, rxq, pk, cur, infl, seqn, fc,
                      gAcc, gAcked, gAddrSet, nReq, nWire, nLost>>)
         [] e.e = "w" ->
            LET c1 == cur \o e.b
                cl == Closed(c1, e.last)
                erdy == fc /\ ~infl /\ pk = <<>> /\ cl # <<>>
                q    == owed[EpIn]
                \* the NRDY owed for the request reported in this very cycle (still the last item owed)
                either == erdy /\ e.same /\ q # <<>> /\ q[Len(q)].k = "nrdy" /\ ~q[Len(q)].opt IN
            /\ pk' = pk \o cl
            /\ cur' = IF cl = <<>> THEN c1 ELSE <<>>
            /\ gAcc' = gAcc \o e.b
            /\ owed' = IF either THEN [owed EXCEPT ![EpIn] = [@ EXCEPT ![Len(q)] =
                                          [@ EXCEPT !.k = "nrdy_or_dp", !.seq = seqn, !.b = Head(cl)]]]
                        ELSE IF erdy THEN Owe(owed, EpIn, TpItem("erdy", ANY, ANY, addr)) ELSE owed
            /\ fc' = IF erdy THEN FALSE ELSE fc
            /\ Same(<<up, rstPending, addr, cfg, req, reqq, dpOpen, rxq, infl, seqn, lastItp,
                      gAcked, gAddrSet, nReq, nWire, nLost>>)
         [] e.e = "req" ->
            /\ reqq' = Append(reqq, [k |-> e.k, ep |-> e.ep, seq |-> e.seq, rty |-> e.rty, opt |-> FALSE])
            /\ nReq' = nReq + 1
            /\ Same(<<up, rstPending, addr, cfg, req, owed, dpOpen, rxq, pk, cur, infl, seqn, fc, lastItp,
                      gAcc, gAcked, gAddrSet, nWire, nLost>>)
         [] e.e = "dhp" ->
            /\ ApplyDevHeader(e)
            /\ Same(<<up, rstPending, addr, cfg, req, rxq, pk, cur, seqn, fc, lastItp,
                      gAcc, gAcked, gAddrSet, nReq>>)
         [] e.e = "ddp" ->
            /\ dpOpen' = NoDp
            /\ Same(<<up, rstPending, addr, cfg, req, owed, reqq, rxq, pk, cur, infl, seqn, fc, lastItp,
                      gAcc, gAcked, gAddrSet, nReq, nWire, nLost>>)
         [] e.e = "rxv" ->
            /\ rxq' = Tail(rxq)
            /\ Same(<<up, rstPending, addr, cfg, req, owed, reqq, dpOpen, pk, cur, infl, seqn, fc, lastItp,
                      gAcc, gAcked, gAddrSet, nReq, nWire, nLost>>)
         [] e.e = "quiet" ->
            \* answers that became optional and did not come are given up
            /\ owed' = [p \in EPs |-> ClearOpt(owed[p])]
            /\ reqq' = ClearOpt(reqq)
            /\ nLost' = nLost + (Len(reqq) - Len(ClearOpt(reqq)))
            /\ Same(<<up, rstPending, addr, cfg, req, dpOpen, rxq, pk, cur, infl, seqn, fc, lastItp,
                      gAcc, gAcked, gAddrSet, nReq, nWire>>)
         [] OTHER -> UNCHANGED <<up, rstPending, addr, cfg, req, owed, reqq, dpOpen, rxq, pk, cur, infl, seqn, fc,
                                 lastItp, gAcc, gAcked, gAddrSet, nReq, nWire, nLost>>

Init == /\ up = FALSE /\ rstPending = FALSE /\ addr = 0 /\ cfg = 0 /\ req = NoReq
        /\ owed = Empty /\ reqq = <<>> /\ dpOpen = NoDp /\ rxq = <<>> /\ tpq = <<>>
        /\ pk = <<>> /\ cur = <<>> /\ infl = FALSE /\ seqn = 0 /\ fc = FALSE /\ lastItp = 0
        /\ gAcc = <<>> /\ gAcked = <<>> /\ gAddrSet = FALSE /\ nReq = 0 /\ nWire = 0 /\ nLost = 0
        /\ ev = [e |-> "init"]

-----------------------------------------------------------------------------
(* Prop: theorems over Ref + ghosts (model-checked, and evaluated on every observed state) *)
\* (4)/(5) the address is 0 unless a SET_ADDRESS completed its status stage since the last reset; every answer owed
\* may carry the current address or -- only if it was owed before the address changed -- an earlier one
AddressOnlyBySetAddress == addr # 0 => gAddrSet
OwedAddressesKnown == \A p \in EPs : \A i \in 1..Len(owed[p]) : owed[p][i].addrs # {} /\ Cardinality(owed[p][i].addrs) <= 2
\* (1) every requested transaction packet reaches the wire once, is still queued, or was lost with the link
RequestsAccounted == nReq = nWire + nLost + Len(reqq)
\* C46 in composition: acknowledged + held bytes are exactly the accepted stream, in order
InExactlyOnce == gAcked \o Flat(pk) \o cur = gAcc
InFlightIsHead == infl => pk # <<>>
\* (4) a reset wipes the device: default address, unconfigured, no transfer in progress, and -- once the link has left
\* U0 -- nothing owed and nothing requested that could still be emitted afterwards
ResetWipes == ev.e \in {"hot", "warm"} => /\ addr = 0 /\ cfg = 0 /\ req = NoReq /\ rxq = <<>>
                                          /\ (~up => (\A p \in EPs : owed[p] = <<>>) /\ reqq = <<>>)
                                          /\ (up => (\A p \in EPs : ~NonOpt(owed[p])) /\ ~NonOpt(reqq))
PacketsBounded == /\ Len(cur) < MaxPkt /\ \A i \in 1..Len(pk) : Len(pk[i]) <= MaxPkt
Theorems == AddressOnlyBySetAddress /\ OwedAddressesKnown /\ RequestsAccounted /\ InExactlyOnce /\ InFlightIsHead
            /\ ResetWipes /\ PacketsBounded
=============================================================================
