---------------------------- MODULE SsDescTrace ----------------------------
(***************************************************************************)
(* Trace validation for SsDesc.  A trace is a record                       *)
(*  [cfg |-> [table |-> <<[key, bytes], ...>>], steps |-> <<records>>]     *)
(* with per-cycle records [start, value, length, rdy   -- inputs            *)
(*                         n, first, last, lo, hi, txlen, stall] -- outputs *)
(***************************************************************************)
EXTENDS SsDesc, TLC, TLCExt, Json, IOUtils

Logs == JsonDeserialize(IOEnv.TRACE_FILE)

VARIABLES tid, l, status
tvars == <<dvars, tid, l, status>>

ASSUME \A i \in 1..Len(Logs) : TLCSet(i, <<0, "ok">>)

InOf(r)  == [start |-> r.start, value |-> r.value, length |-> r.length, rdy |-> r.rdy]
OutOf(r) == [n |-> r.n, first |-> r.first, last |-> r.last, lo |-> r.lo, hi |-> r.hi, txlen |-> r.txlen, stall |-> r.stall]

TInit == /\ tid \in 1..Len(Logs) /\ l = 1 /\ status = "ok"
         /\ InitWith(Logs[tid].cfg.table)

TNext == /\ status = "ok"
         /\ l <= Len(Logs[tid].steps)
         /\ LET r == Logs[tid].steps[l]
                f == Failing(InOf(r), OutOf(r)) IN
              /\ status' = f
              /\ IF f = "ok" THEN Step(InOf(r), OutOf(r)) ELSE UNCHANGED dvars
         /\ l' = l + 1
         /\ UNCHANGED tid

TSpec == TInit /\ [][TNext]_tvars

TraceProp == DeliveredIsRequiredPrefix /\ StallIffUnknown /\ BoundedLatency
Verdict == IF status # "ok" THEN status ELSE IF TraceProp THEN "ok" ELSE "prop_invariant"
\* (an invariant failure stops the trace there, so that later steps cannot overwrite it)
Progress == TLCSet(tid, <<l - 1, Verdict>>) /\ Verdict = "ok"
Verdicts == JsonSerialize(IOEnv.VERDICT_FILE, [i \in 1..Len(Logs) |-> TLCGet(i)])
=============================================================================
