------------------------------ MODULE GetDesc ------------------------------
(***************************************************************************)
(* Reference specification of GET_DESCRIPTOR (property C09), written from  *)
(* the property statement and USB 2.0 sections 8.5.3 / 9.4.3 -- not from   *)
(* the handlers' code.  It describes a device (or a bare descriptor        *)
(* handler) as seen by the host, one step per bus transaction:             *)
(*                                                                         *)
(*   Env  : Setup(v, wlen)  a GET_DESCRIPTOR request, wValue v = type*256 +*)
(*                          index, wLength wlen >= 1 (a control transfer   *)
(*                          with wLength = 0 has no data stage);           *)
(*          In(ack)         an IN transaction of the data stage; the host  *)
(*                          ACKs the data packet or not (lost / corrupted  *)
(*                          packet: the device must send it again);        *)
(*          Status          the host ends the transfer (status stage) --   *)
(*                          after the data stage completed, or early.      *)
(*          Host protocol (assumptions): IN transactions are issued only   *)
(*          while the data stage is incomplete, i.e. until a short packet  *)
(*          was accepted or wLength bytes were received; every transfer is *)
(*          carried through its status stage (or is STALLed) before the    *)
(*          next SETUP (abandoned transfers are property C07).             *)
(*   Ref  : `sent` = bytes of the data stage accepted so far; the next     *)
(*          packet must carry the descriptor's bytes                       *)
(*              [ Len(sent), min(Len(sent) + MaxPkt, min(wLength, len)) )  *)
(*          -- the continuation offset is Len(sent), a multiple of MaxPkt  *)
(*          -- or be a STALL iff the table holds no such descriptor.  The  *)
(*          device may also NAK (at most MaxNak times in a row): the       *)
(*          property does not forbid it.                                   *)
(*   Prop : over the ghost log `pkts` (sizes of the accepted packets):     *)
(*          the concatenated data stage is a prefix of the descriptor and, *)
(*          once complete, exactly its first min(wLength, len) bytes;      *)
(*          every packet is at most MaxPkt, all but the last exactly       *)
(*          MaxPkt; the stage ends with a short packet or with wLength     *)
(*          reached; it ends with a zero-length packet exactly when the    *)
(*          total is a multiple of MaxPkt below wLength; unknown           *)
(*          descriptors are STALLed without data.                          *)
(*                                                                         *)
(* The configuration (descriptor table, MaxPkt) is chosen per behaviour:   *)
(* `cid` selects it through the constant operator CfgOf, so TLC enumerates *)
(* configurations as well as requests.                                     *)
(*   CfgOf(cid) = [table  : Seq([v : Nat, d : Seq(0..255), dist : BOOLEAN]),*)
(*                 maxpkt : Nat, level : "mc" | "unit" | "e2e",            *)
(*                 clean, mux, autolang : BOOLEAN]  (stimulus class / DUT  *)
(*                 variant, used only by the KF_* predicates below)        *)
(***************************************************************************)
EXTENDS Naturals, Sequences, FiniteSets

CONSTANTS CfgOf(_),    \* configuration id -> configuration record
          MaxNak       \* NAKs in a row the device may answer before it must deliver

VARIABLES cid,         \* configuration of this behaviour
          stage,       \* "idle" | "data" | "complete" | "stalled"
          xfer,        \* [v, wlen] of the transfer in progress
          sent,        \* bytes of the data stage accepted (ACKed) by the host so far
          pkts,        \* ghost: sizes of the accepted data packets, in order
          naks,        \* NAKs received in a row
          tog,         \* data toggle the next data packet must carry (1 = DATA1)
          in,          \* Env: the host action that led to this state
          out          \* the device's response to it (observed / predicted)

vars == <<cid, stage, xfer, sent, pkts, naks, tog, in, out>>

C == CfgOf(cid)
Min(a, b) == IF a < b THEN a ELSE b

-----------------------------------------------------------------------------
(* The descriptor table. *)
Entries(v)  == {i \in 1..Len(C.table) : C.table[i].v = v}
HasDesc(v)  == Entries(v) # {}
EntryOf(v)  == C.table[CHOOSE i \in Entries(v) : TRUE]
DescOf(v)   == EntryOf(v).d
WellFormedTable == \A i, j \in 1..Len(C.table) : C.table[i].v = C.table[j].v => i = j

(* What the data stage of request x must deliver in total, and in the packet at offset off. *)
Total(x)            == Min(x.wlen, Len(DescOf(x.v)))
ExpectedPacket(x, off) == SubSeq(DescOf(x.v), off + 1, Min(off + C.maxpkt, Total(x)))

(* Named Env predicates of the open findings (DESIGN 2.5): clean stimuli never satisfy any of them,    *)
(* each witness stimulus satisfies exactly one.                                                       *)
(* C09-dist-no-zlp-at-descriptor-end: the block-RAM-free handler has no zero-length packet for a      *)
(* continuation offset equal to the descriptor length.  Trigger: the descriptor is served by that     *)
(* handler, its length is a multiple of MaxPkt (0 included) and the host asks for more.               *)
KF_DistEnd(v, wlen) == /\ HasDesc(v) /\ EntryOf(v).dist
                       /\ Len(DescOf(v)) % C.maxpkt = 0 /\ wlen > Len(DescOf(v))
(* C09-mux-duplicate-language-descriptor: StandardRequestHandler builds the multiplexer variant with   *)
(* an automatic (STRING, 0) descriptor in the runtime half, on top of the table's own one.             *)
KF_MuxLang(v)       == C.autolang /\ v = 768
(* C09-mux-stale-stall-latch: in the multiplexer variant a ROM descriptor requested after an IN that   *)
(* was answered from a runtime descriptor (only STALLed INs in between) is STALLed.  `rtSince` is that  *)
(* history (kept by the trace specification).                                                          *)
KF_MuxStale(rtSince) == C.mux /\ rtSince /\ HasDesc(xfer.v) /\ ~EntryOf(xfer.v).dist

-----------------------------------------------------------------------------
NoIn  == [e |-> "none"]
NoOut == [k |-> "none", bytes |-> <<>>]

Init0 == /\ stage = "idle"
         /\ xfer = [v |-> 0, wlen |-> 0]
         /\ sent = <<>> /\ pkts = <<>> /\ naks = 0 /\ tog = 1
         /\ in = NoIn /\ out = NoOut

(* Env: which host actions are legal now. *)
CanSetup  == stage \in {"idle", "stalled"}
CanIn     == stage = "data"
CanStatus == stage \in {"data", "complete"}

(* Ref: the allowed responses to an IN transaction of the data stage (o = [k, bytes]). *)
InKindOK(o)   == IF HasDesc(xfer.v) THEN o.k = "data" \/ (o.k = "nak" /\ naks < MaxNak)
                                    ELSE o.k = "stall"
InLengthOK(o) == o.k = "data" => Len(o.bytes) = Len(ExpectedPacket(xfer, Len(sent)))
InBytesOK(o)  == o.k = "data" => o.bytes = ExpectedPacket(xfer, Len(sent))
InOK(o)       == InKindOK(o) /\ InLengthOK(o) /\ InBytesOK(o)

Setup(v, wlen) ==
    /\ CanSetup /\ wlen >= 1
    /\ stage' = "data" /\ xfer' = [v |-> v, wlen |-> wlen]
    /\ sent' = <<>> /\ pkts' = <<>> /\ naks' = 0 /\ tog' = 1
    /\ in' = [e |-> "setup", v |-> v, wlen |-> wlen] /\ out' = NoOut
    /\ UNCHANGED cid

In(ack, o) ==
    /\ CanIn /\ InOK(o)
    /\ in' = [e |-> "in", ack |-> ack] /\ out' = o
    /\ CASE o.k = "stall" -> /\ stage' = "stalled"
                             /\ UNCHANGED <<sent, pkts, naks, tog>>
         [] o.k = "nak"   -> /\ naks' = naks + 1
                             /\ UNCHANGED <<stage, sent, pkts, tog>>
         [] o.k = "data"  ->
              IF ack
              THEN LET s2 == sent \o o.bytes IN
                   /\ sent' = s2 /\ pkts' = Append(pkts, Len(o.bytes))
                   /\ naks' = 0 /\ tog' = 1 - tog
                   /\ stage' = IF Len(o.bytes) < C.maxpkt \/ Len(s2) = xfer.wlen THEN "complete" ELSE "data"
              ELSE /\ naks' = 0                 \* not acknowledged: the same packet is due again
                   /\ UNCHANGED <<stage, sent, pkts, tog>>
    /\ UNCHANGED <<cid, xfer>>

Status ==                       \* the transfer is over: forget it
    /\ CanStatus
    /\ stage' = "idle" /\ naks' = 0 /\ tog' = 1
    /\ xfer' = [v |-> 0, wlen |-> 0] /\ sent' = <<>> /\ pkts' = <<>>
    /\ in' = [e |-> "status"] /\ out' = NoOut
    /\ UNCHANGED cid

Reset ==                        \* reset of the device's clock domain, at any time: the transfer is forgotten,
    /\ stage' = "idle" /\ naks' = 0 /\ tog' = 1          \* the next request is served from scratch
    /\ xfer' = [v |-> 0, wlen |-> 0] /\ sent' = <<>> /\ pkts' = <<>>
    /\ in' = [e |-> "reset"] /\ out' = NoOut
    /\ UNCHANGED cid

-----------------------------------------------------------------------------
(* Prop -- property C09 over the ghost log. *)
IsPrefix(s, t) == Len(s) <= Len(t) /\ s = SubSeq(t, 1, Len(s))
Sum(s) == LET F[i \in 0..Len(s)] == IF i = 0 THEN 0 ELSE F[i - 1] + s[i] IN F[Len(s)]
InTransfer == stage \in {"data", "complete"}
D == IF HasDesc(xfer.v) THEN DescOf(xfer.v) ELSE <<>>
T == Min(xfer.wlen, Len(D))

\* the concatenated data stage is a prefix of the requested descriptor, never longer than min(wLength, len)
DataIsPrefix     == InTransfer => (IsPrefix(sent, D) /\ Len(sent) <= T /\ Sum(pkts) = Len(sent))
\* ... and, once the stage is complete, exactly the first min(wLength, len) bytes
DataIsExact      == stage = "complete" => sent = SubSeq(D, 1, T)
\* each packet is at most MaxPkt; only the last one may be short
PacketSizes      == \A i \in 1..Len(pkts) : pkts[i] <= C.maxpkt /\ (i < Len(pkts) => pkts[i] = C.maxpkt)
\* the stage ends with a short packet, or with wLength reached
EndsShortOrExact == stage = "complete" =>
                        (pkts # <<>> /\ (pkts[Len(pkts)] < C.maxpkt \/ Len(sent) = xfer.wlen))
\* it ends with a zero-length packet exactly when the total is a multiple of MaxPkt below wLength
ZlpRule          == stage = "complete" =>
                        ((pkts[Len(pkts)] = 0) <=> (T % C.maxpkt = 0 /\ T < xfer.wlen))
\* while the stage is incomplete every accepted packet was full (so the continuation offset is k * MaxPkt)
OffsetsAligned   == stage = "data" => Len(sent) = Len(pkts) * C.maxpkt
\* unknown descriptors are STALLed without data
StallWithoutData == stage = "stalled" => (~HasDesc(xfer.v) /\ sent = <<>>)
DataOnlyIfKnown  == (InTransfer /\ pkts # <<>>) => HasDesc(xfer.v)

PropInv == /\ DataIsPrefix /\ DataIsExact /\ PacketSizes /\ EndsShortOrExact /\ ZlpRule
           /\ OffsetsAligned /\ StallWithoutData /\ DataOnlyIfKnown
=============================================================================
