----------------------------- MODULE MCSsDevice -----------------------------
(* Bounded instance of SsDevice: every host / link / producer schedule and every allowed behaviour of an abstract  *)
(* device (any answer Judge accepts, in any allowed order, optional answers sent or dropped) within the bounds.    *)
EXTENDS SsDevice, TLC

CONSTANTS MaxDepth,     \* bound on the length of a behaviour
          MaxBytes,     \* bound on the stream bytes accepted by the IN endpoint
          MaxReq,       \* bound on the number of transaction packet requests
          Setups,       \* the SETUP payloads the host may send (8-byte sequences)
          Addrs,        \* device addresses a device header may carry in the model
          Feat          \* focus of the run: subset of {"ctl", "bad", "in", "itp", "rst"} (enabled Env families)

\* descriptor table of the model: one 3-byte and one 1-byte descriptor
DescMC == << [k |-> 256, b |-> <<18, 1, 0>>], [k |-> 512, b |-> <<9>>] >>

S(bm, br, wv, wl) == <<bm, br, wv % 256, wv \div 256, 0, 0, wl % 256, wl \div 256>>
SetupsQuick == { S(128, 6, 256, 2),      \* GET_DESCRIPTOR(device), truncated
                 S(128, 6, 768, 8),      \* GET_DESCRIPTOR(unknown)            -> STALL
                 S(0, 5, 5, 0),          \* SET_ADDRESS(5)
                 S(0, 9, 1, 0),          \* SET_CONFIGURATION(1)
                 S(0, 3, 1, 0) }         \* SET_FEATURE: not implemented       -> STALL at the status stage
SetupsThorough == SetupsQuick \cup { S(128, 6, 512, 9), S(128, 0, 0, 2), S(64, 1, 0, 0), S(192, 1, 0, 4) }

Do(e) == Judge(e) = "ok" /\ Apply(e)

(* ---- Env ---- *)
HUp     == TRUE /\ Do([e |-> "up"])
HDown   == TRUE /\ Do([e |-> "down"])
HHot    == "rst" \in Feat /\ ~up /\ Do([e |-> "hot"])
HWarm   == "rst" \in Feat /\ up /\ Do([e |-> "warm"])
HSetup  == "ctl" \in Feat /\ \E s \in Setups : Do([e |-> "dp_rx", ep |-> 0, setup |-> TRUE, len |-> 8, b |-> s, ok |-> TRUE])
HBadSetup == "bad" \in Feat /\ \E s \in Setups : Do([e |-> "dp_rx", ep |-> 0, setup |-> TRUE, len |-> 8, b |-> s, ok |-> FALSE])
HJunkDp == "bad" \in Feat /\ Do([e |-> "dp_rx", ep |-> 0, setup |-> FALSE, len |-> 4, b |-> <<1, 2, 3, 4>>, ok |-> TRUE])
HIn0    == "ctl" \in Feat /\ Do([e |-> "tp", sub |-> 1, ep |-> 0, seq |-> 0, nump |-> 1, rty |-> 0])
HAck0   == ev.e = "ddp" /\ Do([e |-> "tp", sub |-> 1, ep |-> 0, seq |-> 1, nump |-> 0, rty |-> 0])
HStatus0 == "ctl" \in Feat /\ Do([e |-> "tp", sub |-> 4, ep |-> 0, seq |-> 0, nump |-> 0, rty |-> 0])
HTpIn   == "in" \in Feat /\ \E s \in {seqn, (seqn + 1) % 32}, n \in {0, 1}, r \in {0, 1} :
              Do([e |-> "tp", sub |-> 1, ep |-> EpIn, seq |-> s, nump |-> n, rty |-> r])
HWord   == "in" \in Feat /\ \E l \in BOOLEAN, sm \in BOOLEAN : Do([e |-> "w", b |-> <<7 + Len(gAcc)>>, last |-> l, same |-> sm])
HItp    == "itp" \in Feat /\ \E c \in {1, 2} : Do([e |-> "itp", cnt |-> c, delta |-> 0])

(* ---- abstract device ---- *)
IsTp(x) == x.k # "dp"
DReq    == \E p \in EPs :
              /\ First(owed[p], IsTp) # 0
              /\ \A i \in 1..Len(reqq) : reqq[i].ep # p
              /\ LET x == owed[p][First(owed[p], IsTp)] IN
                 Do([e |-> "req", k |-> IF x.k = "nrdy_or_dp" THEN "nrdy" ELSE x.k, ep |-> p, seq |-> IF x.seq = ANY THEN 1 ELSE x.seq,
                     rty |-> IF x.rty = ANY THEN 0 ELSE x.rty])
DTp     == TRUE /\ \E p \in EPs, sub \in {1, 2, 3, 5}, s \in {0, 1}, r \in {0, 1}, a \in Addrs, x \in {0, 1} :
              Do([e |-> "dhp", ok |-> TRUE, type |-> 4, sub |-> sub, ep |-> p, seq |-> s, rty |-> r, addr |-> a,
                  nump |-> x, len |-> 0])
DDph    == TRUE /\ \E p \in EPs, s \in 0..3, n \in 0..3, a \in Addrs :
              Do([e |-> "dhp", ok |-> TRUE, type |-> 8, sub |-> 0, ep |-> p, seq |-> s, rty |-> 0, addr |-> a,
                  nump |-> 0, len |-> n])
DLmp    == ev.e = "up" /\ Do([e |-> "dhp", ok |-> TRUE, type |-> 0, sub |-> 0, ep |-> 0, seq |-> 0, rty |-> 0,
                               addr |-> 0, nump |-> 0, len |-> 0])
DDdp    == dpOpen.open /\ Do([e |-> "ddp", b |-> dpOpen.b, ok |-> TRUE, fr |-> TRUE])
DRxv    == rxq # <<>> /\ Do([e |-> "rxv", good |-> Head(rxq)])
DBi     == ev.e = "itp" /\ Do([e |-> "bi", v |-> lastItp])
DQuiet  == ev.e # "quiet" /\ Do([e |-> "quiet"])

Next == \/ HUp \/ HDown \/ HHot \/ HWarm \/ HSetup \/ HBadSetup \/ HJunkDp \/ HIn0 \/ HAck0 \/ HStatus0 \/ HTpIn
        \/ HWord \/ HItp
        \/ DReq \/ DTp \/ DDph \/ DLmp \/ DDdp \/ DRxv \/ DBi \/ DQuiet
Spec == Init /\ [][Next]_vars

Bound == /\ TLCGet("level") <= MaxDepth
         /\ Len(gAcc) <= MaxBytes
         /\ nReq <= MaxReq
         /\ Len(rxq) <= 1 /\ \A p \in EPs : Len(owed[p]) <= 2

\* the answers of the abstract device are exactly what Judge accepts: nothing it accepts may break a theorem
=============================================================================
