---------------------------- MODULE FsPhyVectors ----------------------------
(* Vector service: the binding asks TLC to encode byte sequences beyond the   *)
(* bounds of the exhaustive model (random 8-bit data, long packets), so that  *)
(* the line code exists only in TLA+.  Requests[i] = [bytes |-> <<..>>,       *)
(* nbad |-> n]: up to n stuff-violation variants, spread over the packet.     *)
EXTENDS MCFsPhy

Requests == JsonDeserialize(IOEnv.REQUEST_FILE)

Least(a, b) == IF a < b THEN a ELSE b

Answer(q) ==
    LET ns == NumStuffed(q.bytes)
        n  == Least(q.nbad, ns)
        kOf(j) == 1 + ((j - 1) * ns) \div n           \* j in 1..n, spread over 1..ns
    IN [bytes |-> q.bytes, syms |-> Encode(q.bytes), nstuff |-> ns,
        bad |-> [j \in 1..n |-> EncodeStuffViolation(q.bytes, kOf(j))]]

VInit == vec = [bytes |-> <<>>, hit |-> 0, syms |-> <<>>] /\ tx = TxIdle /\ line = <<>> /\ rx = RxStart
VNext == UNCHANGED vars

ServeVectors == /\ TLCGet("distinct") >= 0
                /\ JsonSerialize(IOEnv.VECTOR_FILE, [i \in 1..Len(Requests) |-> Answer(Requests[i])])
=============================================================================
