"""Engine `ss_linka` — USB3 link layer, part A (clock domain "ss", 32-bit words + 4-bit ctrl mask).

  C35  link commands            LinkCommandGenerator / LinkCommandDetector   specs/ss_linka/LinkCommand.tla
  C36  header / data packet tx  RawPacketTransmitter, DataPacketTransmitter+PacketTransmitter
                                 (round trip into RawHeaderPacketReceiver / DataPacketReceiver)   PacketTx.tla
  C40  data packet reception    DataPacketReceiver                           DataRx.tla
  C43  training ordered sets    TSEmitter / TSBurstDetector                  TrainingSets.tla
  C44  idle handshake, U0 timers IdleHandshakeHandler / LinkMaintenanceTimers IdleHandshake.tla, LinkTimers.tla

The Python side only drives the real modules, records every cycle and classifies rejections; every
verdict is TLC's (trace validation against the TLA+ modules above).
"""
import os

from .. import tlc
from ..core import use_repo
from ..pipeline import validate_group

ENGINE = "ss_linka"
SPEC_DIR = "ss_linka"

META = {
    "C35": {
        "text": "LinkCommand.tla defines the link command wire format from USB3 7.2.2 (LCSTART, 16-bit word "
                "twice, bit-serial CRC-5) and reference relations for generator and detector. TLC proves on the "
                "specification that all 16x16 (command, sub-type) words are accepted with their fields and all "
                "36 single-bit and 16 both-copy corruptions are rejected, and explores every ready/valid/"
                "latency/corruption schedule of generator -> channel -> detector for the round-trip invariant. "
                "The real LinkCommandGenerator and LinkCommandDetector are then run in one simulation, joined "
                "by a harness channel (corruptions, invalid gaps, injected words): TLC-simulated schedules, all "
                "256 commands with random stalls, every single-bit corruption, both-copy corruptions and random "
                "words; TLC validates every recorded cycle (wire format, done, reports, round trip).",
        "note": "Free in the spec: 0..1 idle cycles before LCSTART, new_command 1..2 cycles after the command "
                "word. Env assumption: the valid word after an LCSTART is not another LCSTART. Trusted base: "
                "TLC, amaranth.sim, the harness channel (its deliveries are re-checked by TLC against the "
                "generator's recorded output).",
        "technique": "TLA+ wire-format + relation spec, TLC exhaustive + batch trace validation of pysim traces",
        "design_ref": "DESIGN.md §5 C35",
    },
    "C36": {
        "text": "PacketTx.tla defines, from USB3 7.2.1, the word sequence of a header packet (HPSTART, DW0..2, CRC-16, "
                "link control word with CRC-5) and of a data packet payload (DPPSTART, bytes, CRC-32 directly after "
                "the last byte for every tail size, DPPEND, idle fill; DPPABORT when delayed) with bit-serial CRCs, "
                "and a receiver written from the standard. TLC explores every ready / start-latency / payload-take "
                "schedule for lengths 0..4 (0..9 thorough) and proves the round trip on the specification. The real "
                "RawPacketTransmitter (and the stack DataPacketTransmitter -> PacketTransmitter) is driven with "
                "TLC-simulated schedules and random headers/payloads (every length 0..13, longer ones, all ready "
                "patterns); TLC validates every emitted word and `done`, and the accepted words are replayed into "
                "the real RawHeaderPacketReceiver / DataPacketReceiver whose outputs TLC compares with what was sent.",
        "note": "Free: up to 2 (stack: 16) cycles before HPSTART, when payload words are taken. Env: the header is the "
                "one present at the generate strobe (the input may change afterwards, swept over offsets 0..10), "
                "payload stream held until taken, payload contiguous. The stack's header sequence number is taken as "
                "observed. Only the first good/bad report of the data receiver is judged (exactly-once is C40).",
        "technique": "TLA+ wire-format spec, TLC exhaustive + batch trace validation of pysim traces, real-receiver round trip",
        "design_ref": "DESIGN.md §5 C36",
    },
    "C40": {
        "text": "DataRx.tla is a parser of the valid words of the receive stream written from USB3 7.2.1 (data packet "
                "header with bit-serial CRC-16 / CRC-5, DPPSTART, data-length bytes, CRC-32): it owes exactly one "
                "verdict per data packet, good iff all three CRCs are right, and the payload stream must carry "
                "exactly data-length bytes. TLC explores every placement of not-valid words, every CRC corruption "
                "combination, lengths 0..4 (0..9 thorough) and following packets, and proves exactly-once on the specification. The "
                "real DataPacketReceiver is fed TLC-generated streams and random packets (lengths 0..13, 16, 33, 1020..1024, "
                "corrupted CRCs, truncated payloads, not-valid words with any data at any position, following idle / "
                "link command / header traffic; every ordered pair 'packet of kind X, then two good packets' for X in "
                "good / corrupted CRC-32, CRC-16, CRC-5 / payload ended by DPPEND or DPPABORT in any word / zero-length / "
                "deferred header); TLC validates every recorded cycle.",
        "note": "Free: report latency (up to 2 cycles after the 2nd valid word following the CRC-32), a header with bad "
                "CRCs may be reported bad once or not at all. Stimuli are split into clean (no trigger of an open "
                "finding) and witness classes. Stimulus packets are built with a Python CRC; every verdict is TLC's.",
        "technique": "TLA+ stream-parser spec, TLC exhaustive + batch trace validation of pysim traces",
        "design_ref": "DESIGN.md §5 C40, Appendix A",
    },
    "C43": {
        "text": "TrainingSets.tla writes TS1 / TS2 / TSEQ from USB3 Tables 6-3..6-6 and gives reference relations for "
                "the emitter (exactly EmitN consecutive sets per burst, TS2 link-functionality bits, done with the last "
                "word) and the detector (one detection per DetN complete consecutive sets, not-valid words ignored, "
                "configuration reported, nothing on other data). TLC explores every start/ready schedule of the emitter "
                "and every stream of whole sets of four kinds (matching, other kind sharing the first word, near-miss, foreign) with gaps and stray words for the detector, and "
                "proves ExactlyN and OncePerBurst. Real TSEmitter / TSBurstDetector instances (TS1 16/8, TS2 16/8, "
                "TSEQ detect 32, scaled bursts 1..3) run emitter bursts looped into the detector and composed word "
                "streams (bursts of N-1, N, N+1, 2N(+1) sets, gaps inside sets, truncated / near-miss sets, foreign "
                "words); TLC validates every cycle.",
        "note": "No Env assumption on the detector's word stream (streams of whole sets of several kinds in any "
                "order, gaps between and inside sets, stray words); stimuli that trigger an open finding are kept in "
                "a witness class. TSEQ's real 65536-set emitter burst is scaled through "
                "the constructor parameter. Free: 1 idle cycle before the first word, detection latency 1..3 cycles.",
        "technique": "TLA+ relation spec, TLC exhaustive + batch trace validation of pysim traces",
        "design_ref": "DESIGN.md §5 C43",
    },
    "C44": {
        "text": "IdleHandshake.tla states the handshake rule of USB3 7.5.4.10 on the 32-bit interface (complete only "
                "after 4 cycles = 16 symbols sent since enable and 2 consecutive valid idle words = 8 symbols "
                "received, not-valid words being no symbols); LinkTimers.tla is an explicit-time reference of the U0 "
                "keepalive (10 us) and recovery (1 ms) timers with arming. TLC explores all enable / word schedules "
                "resp. all strobe schedules with scaled constants and proves the property restated over the history "
                "(CompleteOnlyWhenEarned; KeepaliveInTime, RecoveryInTime, RecoveryNeverEarly). The real "
                "IdleHandshakeHandler is driven with random and structured enable / word streams, the real "
                "LinkMaintenanceTimers (clock scaled through ss_clock_frequency: 0.7, 1, 3 MHz and the real 125 MHz) "
                "with link commands sent / received one to three cycles around both thresholds, disable / enable, "
                "answered and unanswered keepalives; TLC validates every (run-length encoded) cycle.",
        "note": "Idle handshake: safety only, as the property is worded. Timers: +-1 cycle on the keepalive, "
                "0..+1 cycle on recovery; strobes of a timer that fired and was not re-armed are free (counter "
                "roll-over is documented as don't-care).",
        "technique": "TLA+ explicit-time spec, TLC exhaustive (scaled constants) + batch trace validation of pysim traces",
        "design_ref": "DESIGN.md §5 C44",
    },
}


def _cfg(name):
    with open(os.path.join(tlc.SPECS, SPEC_DIR, name)) as f:
        return f.read()


def _mc(rep, module, cfg_text, label, bounds, **kw):
    """Exhaustive TLC run (skipped only by the development switch SS_LINKA_NO_MC=1, never by ./check users)."""
    if os.environ.get("SS_LINKA_NO_MC") == "1":
        rep.notes.append("DEVELOPMENT RUN: model checking of %s skipped" % module)
        return None
    res = tlc.model_check(SPEC_DIR, module, cfg_text, workers=kw.pop("workers", 8), timeout=kw.pop("timeout", 1500), **kw)
    rep.add_mc(label, res, bounds)
    return res


def _guard(classify=None):
    """A trace rejected on an environment-assumption clause (env_*) is a harness / stimulus error, never a violation."""
    def f(trace, matched, status, meta):
        if str(status).startswith("env_"):
            raise tlc.TLCError("stimulus left the specification's Env (clause %s at step %s, %s): harness error, "
                               "not a property violation" % (status, matched, meta))
        return classify(trace, matched, status, meta) if classify else {"clause": status, "pattern": "other"}
    return f


def tla_set(xs):
    return "{%s}" % ", ".join(str(int(x)) for x in xs)


# ------------------------------------------------------------------------------------------------
# words
def word(data, ctrl, valid=True):
    return {"d": [(data >> (8 * i)) & 0xFF for i in range(4)], "c": int(ctrl), "v": bool(valid)}


def word_int(w):
    return sum(b << (8 * i) for i, b in enumerate(w["d"]))


NOWORD = {"d": [0, 0, 0, 0], "c": 0, "v": False}
SLC, EPF, SHP, SDP, END, EDB, COM = 0xFE, 0xF7, 0xFB, 0x5C, 0xFD, 0x7C, 0xBC
LCSTART = word(SLC | SLC << 8 | SLC << 16 | EPF << 24, 0xF)
HPSTART = word(SHP | SHP << 8 | SHP << 16 | EPF << 24, 0xF)
DPPSTART = word(SDP | SDP << 8 | SDP << 16 | EPF << 24, 0xF)
DPPEND = word(END | END << 8 | END << 16 | EPF << 24, 0xF)


class StepSim:
    """One elaboration of a DUT, many runs of an `async def bench(ctx)` (sim.reset() in between)."""

    def __init__(self, dut, domain="ss"):
        from amaranth.sim import Simulator
        self.dut = dut
        self.domain = domain
        self.sim = Simulator(dut)
        self.sim.add_clock(1e-6, domain=domain)
        self._fn = None
        self._first = True
        self.sim.add_testbench(self._bench)

    async def _bench(self, ctx):
        await self._fn(ctx)

    def run(self, fn):
        self._fn = fn
        if not self._first:
            self.sim.reset()
        self._first = False
        self.sim.run()


def with_ss_domain(dut):
    """Wrap a DUT so that the reset of its clock domain ("ss") can be driven: returns (top, reset signal)."""
    from amaranth import Module, Elaboratable, ClockDomain

    class Top(Elaboratable):
        def __init__(self):
            self.cd = ClockDomain("ss")

        def elaborate(self, platform):
            m = Module()
            m.domains.ss = self.cd
            m.submodules.dut = dut
            return m
    top = Top()
    return top, top.cd.rst


def set_word(ctx, stream, w):
    ctx.set(stream.data, word_int(w))
    ctx.set(stream.ctrl, w["c"])
    ctx.set(stream.valid, int(w["v"]))


def get_word(ctx, stream):
    return word(ctx.get(stream.data), ctx.get(stream.ctrl), ctx.get(stream.valid))


# ================================================================================================
# C35  link commands
# ================================================================================================
def apply_corr(w, k):
    """The channel's corruption k (same numbering as LinkCommand!ApplyCorr; re-checked by TLC)."""
    d = list(w["d"])
    c = w["c"]

    def flip(j):
        d[j // 8] ^= 1 << (j % 8)
    if 1 <= k <= 32:
        flip(k - 1)
    elif 33 <= k <= 36:
        c ^= 1 << (k - 33)
    elif 37 <= k <= 52:
        flip(k - 37)
        flip(k - 37 + 16)
    return {"d": d, "c": c, "v": w["v"]}


class LinkCommandBench:
    """Real generator and detector side by side; the harness is the channel between them.

    A stimulus is a list of per-cycle dicts:
      gen, cmd, sub, rdy          generator inputs
      det                         "chan" (deliver the oldest word in flight, if any), "none", or a word dict (inject)
      idle                        word pattern shown (with valid=0) when nothing is delivered
    plus a list `corrs` with the corruption applied to the 1st, 2nd, ... command word accepted.
    """

    def __init__(self):
        use_repo()
        from amaranth import Module, Elaboratable
        from luna.gateware.usb.usb3.link.command import LinkCommandGenerator, LinkCommandDetector

        class Pair(Elaboratable):
            def __init__(self):
                self.gen = LinkCommandGenerator()
                self.det = LinkCommandDetector()

            def elaborate(self, platform):
                m = Module()
                m.submodules.gen = self.gen
                m.submodules.det = self.det
                return m
        self.top = Pair()
        self.sim = StepSim(self.top)

    def run(self, stim, corrs):
        gen, det = self.top.gen, self.top.det
        recs = []
        corrs = list(corrs)

        async def bench(ctx):
            chan = []
            ncmd = 0
            for st in stim:
                ctx.set(gen.generate, int(st["gen"]))
                ctx.set(gen.command, st["cmd"])
                ctx.set(gen.subtype, st["sub"])
                ctx.set(gen.source.ready, int(st["rdy"]))
                d = st["det"]
                if d == "chan" and chan:
                    src, iw = "chan", chan.pop(0)
                elif isinstance(d, dict):
                    src, iw = "inj", d
                else:
                    src, iw = "none", dict(st.get("idle", NOWORD), v=False)
                set_word(ctx, det.sink, iw)
                ow = get_word(ctx, gen.source)
                rec = {"gen": bool(st["gen"]), "cmd": st["cmd"], "sub": st["sub"], "rdy": bool(st["rdy"]),
                       "corr": 0, "ow": ow, "done": bool(ctx.get(gen.done)),
                       "src": src, "iw": iw,
                       "nc": bool(ctx.get(det.new_command)), "dcmd": ctx.get(det.command),
                       "dsub": ctx.get(det.subtype), "dcls": ctx.get(det.command_class),
                       "dtyp": ctx.get(det.command_type), "last": False}
                if ow["v"] and st["rdy"]:
                    if ow["c"] != 0xF:          # not the start framing: a command word
                        k = corrs[ncmd] if ncmd < len(corrs) else 0
                        ncmd += 1
                        rec["corr"] = k
                        chan.append(apply_corr(ow, k))
                    else:
                        chan.append(ow)
                recs.append(rec)
                await ctx.tick("ss")
            recs[-1]["last"] = True
        self.sim.run(bench)
        return recs


def _quiet(n, det="chan"):
    return [{"gen": False, "cmd": 0, "sub": 0, "rdy": True, "det": det} for _ in range(n)]


def lc_command_stim(rng, cmd, sub, stall_p, gap_p, hold_generate, wiggle):
    """One command request with random ready stalls / delivery gaps; ends when it must be through."""
    stim = []
    other = (rng.randrange(16), rng.randrange(16))
    stim.append({"gen": True, "cmd": cmd, "sub": sub, "rdy": rng.random() >= stall_p,
                 "det": "chan" if rng.random() >= gap_p else "none"})
    accepted = 0
    guard = 0
    while accepted < 2 and guard < 40:
        guard += 1
        rdy = rng.random() >= stall_p
        c, s = (other if wiggle else (cmd, sub))
        # `generate` must be low again by the cycle after `done` unless a second command is wanted
        g = hold_generate and accepted < 1
        stim.append({"gen": g, "cmd": c, "sub": s, "rdy": rdy,
                     "det": "chan" if rng.random() >= gap_p else "none",
                     "idle": rng.choice([NOWORD, LCSTART, word(rng.getrandbits(32), 0)])})
        if rdy:
            accepted += 1
    return stim


def classify_lc(trace, matched, status, meta):
    return {"clause": status, "pattern": "other"}


def check_C35(rep):
    quick = rep.tier == "quick"
    rng = rep.rng
    rep.rule = ("link commands pushed through the real generator and/or judged by the real detector, validated by "
                "TLC; distinct by (command, sub-type, corruption code or 'inj', reported?)")
    rep.assume("generator start latency 0..1 cycles and detector report latency 1..2 cycles are left free")
    rep.assume("the valid word following an LCSTART is never another LCSTART (meaning not defined by the standard)")
    rep.assume("generate is sampled only while the generator is idle (as documented); command/subtype may change "
               "after the request cycle")

    # 1. the specification: static wire-format theorems + every schedule of the composition
    allc = tla_set(range(53))
    runs = [({"Cmds": tla_set([5]), "Subs": tla_set([9]), "Corrs": allc, "MaxCmds": 1}, "one command, all 53 corruptions"),
            ({"Cmds": tla_set([5, 10]), "Subs": tla_set([9]), "Corrs": tla_set([0, 1, 33, 40]), "MaxCmds": 2},
             "two commands back to back")]
    if not quick:
        runs.append(({"Cmds": tla_set([0, 5, 15]), "Subs": tla_set([0, 9]), "Corrs": allc, "MaxCmds": 1}, "6 commands, all corruptions"))
        runs.append(({"Cmds": tla_set([5, 10]), "Subs": tla_set([9, 6]), "Corrs": tla_set([0, 1, 33, 40]), "MaxCmds": 3}, "three commands"))
    for ri, (sub, label) in enumerate(runs):
        sub = dict(sub, CheckStatic="TRUE" if ri == 0 else "FALSE")
        _mc(rep, "MCLinkCommand", tlc.render_cfg(_cfg("MCLinkCommand.cfg.tmpl"), sub),
            "MCLinkCommand (%s) + static theorems over all 16x16 commands x 52 corruptions" % label,
            {k: str(v) for k, v in sub.items()})

    bench = LinkCommandBench()
    items = []

    def add(stim, corrs, origin):
        recs = bench.run(stim + _quiet(5), corrs)
        rep.add_eval(len(recs))
        items.append((recs, {"origin": origin}))
        return recs

    # 2a. spec -> code: TLC-simulated schedules of the composition
    sim_cfg = tlc.render_cfg(_cfg("MCLinkCommand_sim.cfg.tmpl"),     # (all 256 pairs are swept in 2b)
                             {"Cmds": tla_set(rng.sample(range(16), 4)), "Subs": tla_set(rng.sample(range(16), 4)),
                              "Corrs": tla_set([0] + rng.sample(range(1, 53), 9)), "MaxCmds": 3})
    behs = tlc.simulate(SPEC_DIR, "MCLinkCommand", sim_cfg, num=40 if quick else 300, depth=30, seed=rep.seed, timeout=1200)
    for b in behs:
        stim = []
        for _, st in b[1:]:
            i = st["in"]
            stim.append({"gen": i["gen"], "cmd": i["cmd"], "sub": i["sub"], "rdy": i["rdy"],
                         "det": "chan" if i["src"] == "chan" else "none"})
        corrs = [e["corr"] for e in b[-1][1]["s"]["sent"]]
        # the command in flight when the behaviour was cut gets a corruption too
        corrs += [rng.choice([0, rng.randrange(1, 53)]) for _ in range(3)]
        add(stim, corrs, "tlc-simulate")

    # 2b. code -> spec: all 256 commands through generator -> channel -> detector, random stalls and gaps
    captured = {}
    pairs = [(c, s) for c in range(16) for s in range(16)]
    rng.shuffle(pairs)
    group = 8
    for gi in range(0, len(pairs), group):
        stim, corrs = [], []
        for (c, s) in pairs[gi:gi + group]:
            reps = 2 if quick else 4
            for j in range(reps):
                stall_p = rng.choice([0.0, 0.3, 0.6])
                gap_p = rng.choice([0.0, 0.3])
                stim += lc_command_stim(rng, c, s, stall_p, gap_p, hold_generate=rng.random() < 0.3,
                                        wiggle=rng.random() < 0.5)
                corrs.append(0 if j == 0 else rng.choice([0, rng.randrange(1, 53), rng.randrange(37, 53)]))
                stim += _quiet(rng.randrange(0, 3))
        recs = add(stim, corrs, "all-commands")
        # remember, per (cmd, sub) actually requested, the command word the real generator produced
        req = None
        for r in recs:
            if r["gen"] and req is None:
                req = (r["cmd"], r["sub"])
            if r["ow"]["v"] and r["rdy"] and r["ow"]["c"] == 0 and req is not None:
                captured.setdefault(req, dict(r["ow"]))
            if r["done"]:
                req = None
        for r in recs:
            if r["nc"]:
                rep.nontriv(("rt", r["dcmd"], r["dsub"]))

    # 2c. detector alone: every single-bit corruption (and both-copy corruptions) of the words the real
    #     generator produced, injected after an LCSTART, with invalid cycles in between
    sweep = sorted(captured.items())
    for gi in range(0, len(sweep), 4):
        stim = []
        for (c, s), w in sweep[gi:gi + 4]:
            ks = list(range(1, 37)) + (rng.sample(range(37, 53), 4) if quick else list(range(37, 53))) + [0]
            if quick and (c * 16 + s + rep.seed) % 4 != 0:
                ks = rng.sample(range(1, 37), 8) + rng.sample(range(37, 53), 2) + [0]
            for k in ks:
                stim += [dict(_quiet(1)[0], det=LCSTART)]
                for _ in range(rng.choice([0, 0, 0, 1, 2])):
                    stim += [dict(_quiet(1, det="none")[0], idle=rng.choice([NOWORD, w, LCSTART]))]
                stim += [dict(_quiet(1)[0], det=apply_corr(w, k))]
                stim += _quiet(rng.choice([0, 0, 1, 2]), det="none")
                rep.nontriv(("inj", c, s, k))
        add(stim, [], "corruption-sweep")

    # 2d. detector alone: random word streams (random 16-bit word doubled: CRC-5 right by chance 1/32,
    #     any reserved bits), near-miss framing, command words without LCSTART, ctrl bits set
    for _ in range(6 if quick else 40):
        stim = []
        for _ in range(150):
            kind = rng.random()
            v16 = rng.getrandbits(16)
            cw = word(v16 | v16 << 16, 0)
            if kind < 0.55:
                stim += [dict(_quiet(1)[0], det=LCSTART), dict(_quiet(1)[0], det=cw)]
            elif kind < 0.65:     # near-miss start framing
                nm = rng.choice([word(0xF7FEFEFE, 0x7), word(0xF7FEFEFD, 0xF), word(0xFEFEFEF7, 0xF), word(0xF7FEFEFE, 0x0)])
                stim += [dict(_quiet(1)[0], det=nm), dict(_quiet(1)[0], det=cw)]
            elif kind < 0.75:     # command word without start
                stim += [dict(_quiet(1)[0], det=cw)]
            elif kind < 0.85:     # control symbols in the command word
                stim += [dict(_quiet(1)[0], det=LCSTART), dict(_quiet(1)[0], det=dict(cw, c=rng.randrange(1, 16)))]
            else:
                stim += [dict(_quiet(1)[0], det=word(rng.getrandbits(32), rng.choice([0, 0, 1, 8, 15])))]
            stim += _quiet(rng.choice([0, 0, 1]), det="none")
        add(stim, [], "random-words")

    cfg = _cfg("LinkCommandTrace.cfg.tmpl")
    validate_group(rep, SPEC_DIR, "LinkCommandTrace", cfg, items, classify=_guard(classify_lc),
                   what_prefix="LinkCommandGenerator/Detector ")
    reported = sum(1 for t, _ in items for r in t if r["nc"])
    rep.notes.append("commands reported by the real detector in validated traces: %d; generator words captured for "
                     "%d of 256 (command, sub-type) pairs" % (reported, len(captured)))
    if items:
        t = items[len(behs)][0] if len(items) > len(behs) else items[0][0]
        rep.sample({"origin": "all-commands", "first_cycles": t[:5]})


# ================================================================================================
# C36  header / data packet transmission
# ================================================================================================
def bytes_le(v, n):
    return [(v >> (8 * i)) & 0xFF for i in range(n)]


def payload_words(pl):
    """[(valid mask, 4 data bytes, last)] as the protocol layer presents a payload."""
    out = []
    for i in range(0, len(pl), 4):
        chunk = pl[i:i + 4]
        out.append(((1 << len(chunk)) - 1, chunk + [0] * (4 - len(chunk)), i + 4 >= len(pl)))
    return out


def hp_fields(ctx, pkt):
    return {"dw": bytes_le(ctx.get(pkt.dw0), 4) + bytes_le(ctx.get(pkt.dw1), 4) + bytes_le(ctx.get(pkt.dw2), 4),
            "seq": ctx.get(pkt.sequence_number), "rsv": ctx.get(pkt.dw3_reserved), "hub": ctx.get(pkt.hub_depth),
            "dl": ctx.get(pkt.delayed), "df": ctx.get(pkt.deferred)}


class RxBench:
    """Real RawHeaderPacketReceiver + DataPacketReceiver fed with the same words (round trip of C36).
    Every packet is received from reset, so that what one packet does to the receivers (C40) cannot
    influence the judgement of the next."""

    def __init__(self):
        use_repo()
        from amaranth import Module, Elaboratable
        from luna.gateware.usb.usb3.link.receiver import RawHeaderPacketReceiver
        from luna.gateware.usb.usb3.link.data import DataPacketReceiver

        class Top(Elaboratable):
            def __init__(self):
                self.hrx = RawHeaderPacketReceiver()
                self.drx = DataPacketReceiver()

            def elaborate(self, platform):
                m = Module()
                m.submodules.hrx = self.hrx
                m.submodules.drx = self.drx
                return m
        self.top = Top()
        self.sim = StepSim(self.top)
        self.cycles = 0

    def receive(self, words, expected_seq):
        hrx, drx = self.top.hrx, self.top.drx
        o = {"e": "rx", "hp_new": 0, "hp_bad": 0, "hp_badseq": 0, "dp_reports": [], "dp_payload": []}

        async def bench(ctx):
            ctx.set(hrx.expected_sequence, expected_seq)
            for w in [NOWORD] + list(words) + [NOWORD] * 4:
                set_word(ctx, hrx.sink, w)
                set_word(ctx, drx.sink, w)
                o["hp_new"] += ctx.get(hrx.new_packet)
                o["hp_bad"] += ctx.get(hrx.bad_packet)
                o["hp_badseq"] += ctx.get(hrx.bad_sequence)
                if ctx.get(drx.packet_good):
                    o["dp_reports"].append("good")
                if ctx.get(drx.packet_bad):
                    o["dp_reports"].append("bad")
                v = ctx.get(drx.source.valid)
                d = ctx.get(drx.source.data)
                for i in range(4):
                    if v & (1 << i):
                        o["dp_payload"].append((d >> (8 * i)) & 0xFF)
                self.cycles += 1
                await ctx.tick("ss")
            o["hp"] = hp_fields(ctx, hrx.packet)
            o["dp_dw"] = bytes_le(ctx.get(drx.header.as_value()) & ((1 << 96) - 1), 12)
        self.sim.run(bench)
        return o


def resolve_rx(recs, rxb):
    """Replace the placeholders left by the transmitter benches with the real receivers' reports."""
    return [rxb.receive(r["sent"], r["seq"]) if r["e"] == "rx_pending" else r for r in recs]


IDLE_CYC = {"e": "cyc", "gen": False, "rdy": True, "dsv": 0, "dsd": [0, 0, 0, 0]}


class RawTxBench:
    """RawPacketTransmitter; after each packet its accepted words are replayed into the real receivers."""

    def __init__(self):
        use_repo()
        from amaranth import Module, Elaboratable
        from luna.gateware.usb.usb3.link.transmitter import RawPacketTransmitter

        class Top(Elaboratable):
            def __init__(self):
                self.tx = RawPacketTransmitter()

            def elaborate(self, platform):
                m = Module()
                m.submodules.tx = self.tx
                return m
        self.top = Top()
        self.sim = StepSim(self.top)

    def run(self, packets):
        """packets: list of dicts hdr, pl, rdy (callable -> bool per cycle), hold (cycles generate is held),
        present (payload presented), gap (idle cycles before)."""
        tx = self.top.tx
        recs = []

        async def bench(ctx):
            def cyc(**kw):
                r = dict(IDLE_CYC)
                r.update(kw)
                r["ow"] = get_word(ctx, tx.source)
                r["done"] = bool(ctx.get(tx.done))
                r["dsr"] = bool(ctx.get(tx.data_sink.ready))
                recs.append(r)
                return r
            for pk in packets:
                h, pl = pk["hdr"], pk["pl"]
                for _ in range(pk.get("gap", 0)):
                    ctx.set(tx.generate, 0)
                    ctx.set(tx.source.ready, 1)
                    cyc()
                    await ctx.tick("ss")
                def set_header(hh):
                    dw = hh["dw"]
                    ctx.set(tx.header.dw0, sum(b << (8 * i) for i, b in enumerate(dw[0:4])))
                    ctx.set(tx.header.dw1, sum(b << (8 * i) for i, b in enumerate(dw[4:8])))
                    ctx.set(tx.header.dw2, sum(b << (8 * i) for i, b in enumerate(dw[8:12])))
                    ctx.set(tx.header.sequence_number, hh["seq"])
                    ctx.set(tx.header.dw3_reserved, hh["rsv"])
                    ctx.set(tx.header.hub_depth, hh["hub"])
                    ctx.set(tx.header.delayed, hh["dl"])
                    ctx.set(tx.header.deferred, hh["df"])
                set_header(h)
                ctx.set(tx.header.crc16, pk.get("junk16", 0))      # documented as ignored
                ctx.set(tx.header.crc5, pk.get("junk5", 0))
                words = payload_words(pl) if pk.get("present", True) else []
                # after the strobe the header input may switch to the next packet's header (as it does inside
                # PacketTransmitter when its read pointer moves); that packet's payload may already be waiting
                wig = pk.get("wiggle")
                alt_words = payload_words(wig[2]) if (wig and wig[2] and not words) else []
                wi = 0
                sent = []
                n = 0
                finished = False
                while not finished and n < 80 + len(pl):
                    gen = n < pk.get("hold", 1)
                    rdy = bool(pk["rdy"](n))
                    ctx.set(tx.generate, int(gen))
                    ctx.set(tx.source.ready, int(rdy))
                    if wig and n == 1 + wig[0]:
                        set_header(wig[1])
                    if wig and n >= 1 + wig[0] and alt_words:
                        words, wi = alt_words, 0
                        alt_words = []
                    if wi < len(words):
                        m_, d_, last_ = words[wi]
                        ctx.set(tx.data_sink.valid, m_)
                        ctx.set(tx.data_sink.data, sum(b << (8 * i) for i, b in enumerate(d_)))
                        ctx.set(tx.data_sink.first, int(wi == 0))
                        ctx.set(tx.data_sink.last, int(last_))
                    else:
                        m_, d_ = 0, [0, 0, 0, 0]
                        ctx.set(tx.data_sink.valid, 0)
                        ctx.set(tx.data_sink.last, 0)
                    kw = {"gen": gen, "rdy": rdy, "dsv": m_, "dsd": list(d_)}
                    if n == 0:
                        kw.update(hdr=h, pl=list(pl), free=False, maxlat=2, nodone=False)
                    r = cyc(**kw)
                    if r["ow"]["v"] and rdy:
                        sent.append(r["ow"])
                    if r["dsr"] and m_:
                        wi += 1
                    finished = r["done"]
                    n += 1
                    await ctx.tick("ss")
                ctx.set(tx.generate, 0)
                ctx.set(tx.data_sink.valid, 0)
                ctx.set(tx.source.ready, 1)
                if not finished:
                    continue            # TLC will reject the trace (packet incomplete / wrong words)
                # round trip: the accepted words go, contiguously, into the real receivers (resolve_rx)
                recs.append({"e": "rx_pending", "sent": sent, "seq": h["seq"]})
        self.sim.run(bench)
        return recs


def random_header(rng, kind, length=0):
    dw0 = (rng.getrandbits(27) << 5) | kind
    dw1 = rng.getrandbits(32)
    dw2 = rng.getrandbits(32)
    if kind == 8:
        dw1 = (dw1 & 0xFFFF) | (length << 16)
    return {"dw": bytes_le(dw0, 4) + bytes_le(dw1, 4) + bytes_le(dw2, 4), "seq": rng.randrange(8),
            "rsv": rng.choice([0, 0, rng.randrange(8)]), "hub": rng.choice([0, rng.randrange(8)]),
            "dl": 0, "df": rng.choice([0, 0, 1])}


def rdy_pattern(rng):
    p = rng.choice([0.0, 0.0, 0.2, 0.5, 0.7])
    bits = [rng.random() >= p for _ in range(400)]
    return lambda n: bits[n % len(bits)]


class StackTxBench:
    """DataPacketTransmitter -> PacketTransmitter (with its RawPacketTransmitter), link partner side played by a
    real LinkCommandGenerator (sequence advertisement + credits); round trip as in RawTxBench."""

    def __init__(self, buffer_count=4, ss_clock_frequency=125e6):
        use_repo()
        self.buffer_count = buffer_count
        from amaranth import Module, Elaboratable
        from luna.gateware.usb.usb3.link.transmitter import PacketTransmitter
        from luna.gateware.usb.usb3.link.data import DataPacketTransmitter
        from luna.gateware.usb.usb3.link.command import LinkCommandGenerator

        class Top(Elaboratable):
            def __init__(self):
                self.ptx = PacketTransmitter(buffer_count=buffer_count, ss_clock_frequency=ss_clock_frequency)
                self.dptx = DataPacketTransmitter()
                self.lcg = LinkCommandGenerator()

            def elaborate(self, platform):
                m = Module()
                m.submodules.ptx = ptx = self.ptx
                m.submodules.dptx = dptx = self.dptx
                m.submodules.lcg = lcg = self.lcg
                m.d.comb += [
                    ptx.queue.header_eq(dptx.header_source),
                    ptx.data_sink.stream_eq(dptx.data_source),
                    lcg.source.ready.eq(1),
                    ptx.sink.valid.eq(lcg.source.valid),
                    ptx.sink.data.eq(lcg.source.data),
                    ptx.sink.ctrl.eq(lcg.source.ctrl),
                ]
                return m
        self.top = Top()
        self.sim = StepSim(self.top)

    def run(self, packets, advertised_seq):
        top = self.top
        ptx, dptx, lcg = top.ptx, top.dptx, top.lcg
        recs = []

        async def bench(ctx):
            def cyc(**kw):
                r = dict(IDLE_CYC)
                r.update(kw)
                r["ow"] = get_word(ctx, ptx.source)
                r["done"] = False
                r["dsr"] = bool(ctx.get(dptx.data_sink.ready))
                recs.append(r)
                return r

            async def link_command(cmd, sub):
                ctx.set(lcg.command, cmd)
                ctx.set(lcg.subtype, sub)
                ctx.set(lcg.generate, 1)
                cyc()
                await ctx.tick("ss")
                ctx.set(lcg.generate, 0)
                for _ in range(4):
                    cyc()
                    await ctx.tick("ss")
            ctx.set(ptx.enable, 1)
            ctx.set(ptx.source.ready, 1)
            await link_command(0, advertised_seq)          # LGOOD_n: header sequence number advertisement
            for c in range(self.buffer_count):
                await link_command(1, c)                   # LCRD_A.. (one credit per buffer)
            for pk in packets:
                pl, prm = pk["pl"], pk["params"]
                ctx.set(dptx.address, prm["addr"])
                ctx.set(dptx.endpoint_number, prm["ep"])
                ctx.set(dptx.sequence_number, prm["dseq"])
                ctx.set(dptx.data_length, prm["len"])
                ctx.set(dptx.direction, prm["dir"])
                for _ in range(2 + pk.get("gap", 0)):
                    cyc()
                    await ctx.tick("ss")
                words = payload_words(pl)
                wi = 0
                sent = []
                n = 0
                quiet = 0
                seen = False
                while n < 120 + len(pl):
                    rdy = bool(pk["rdy"](n))
                    ctx.set(ptx.source.ready, int(rdy))
                    ctx.set(dptx.send_zlp, int(not pl and n == 0))
                    if pk.get("pwiggle") is not None and n == 1 + pk["pwiggle"]:
                        # the packet's parameters are those present when the stream went valid; they may change afterwards
                        ctx.set(dptx.endpoint_number, (prm["ep"] + 5) % 16)
                        ctx.set(dptx.sequence_number, (prm["dseq"] + 9) % 32)
                        ctx.set(dptx.data_length, (prm["len"] + 3) % 1025)
                        ctx.set(dptx.direction, 1 - prm["dir"])
                    if wi < len(words):
                        m_, d_, last_ = words[wi]
                        ctx.set(dptx.data_sink.valid, m_)
                        ctx.set(dptx.data_sink.data, sum(b << (8 * i) for i, b in enumerate(d_)))
                        ctx.set(dptx.data_sink.first, int(wi == 0))
                        ctx.set(dptx.data_sink.last, int(last_))
                    else:
                        m_, d_ = 0, [0, 0, 0, 0]
                        ctx.set(dptx.data_sink.valid, 0)
                        ctx.set(dptx.data_sink.last, 0)
                    kw = {"gen": n == 0, "rdy": rdy, "dsv": m_, "dsd": list(d_)}
                    if n == 0:
                        kw.update(params=prm, pl=list(pl), free=True, maxlat=16, nodone=True)
                    r = cyc(**kw)
                    if r["ow"]["v"] and rdy:
                        sent.append(r["ow"])
                        seen = True
                    if r["dsr"] and m_:
                        wi += 1
                    quiet = quiet + 1 if (seen and not r["ow"]["v"]) else 0
                    n += 1
                    await ctx.tick("ss")
                    if quiet >= 3:
                        break
                ctx.set(ptx.source.ready, 1)
                ctx.set(dptx.data_sink.valid, 0)
                seq = (sent[4]["d"][2] & 7) if len(sent) > 4 else 0
                recs.append({"e": "rx_pending", "sent": sent, "seq": seq})
        self.sim.run(bench)
        return recs


def classify_tx(trace, matched, status, meta):
    return {"clause": status, "pattern": "other"}


def check_C36(rep):
    quick = rep.tier == "quick"
    rng = rep.rng
    rep.rule = ("packets sent by the real transmitter and validated word by word by TLC, then received by the real "
                "link receivers; distinct by (DUT, header type, payload length mod 4, payload length, delayed, stalled?)")
    rep.assume("generate is a one-cycle strobe (or held: ignored while busy); the packet is the header present at the "
               "strobe, afterwards the header input may change to any other header (data <-> non-data) at any cycle; "
               "the payload stream's valid mask / data are held until taken; payload words are contiguous (1111 masks, "
               "then one partial or full word flagged last); a following packet's payload may already wait on the "
               "stream while a non-data packet is sent")
    rep.assume("the sequence number of headers sent by PacketTransmitter is whatever it assigns (C39 decides that); "
               "CRC-5 / CRC-16 are checked over the observed value")
    rep.assume("bytes between EPF and the word boundary must be logical idle (D0.0)")
    rep.assume("round trip: the accepted words are replayed contiguously into RawHeaderPacketReceiver and "
               "DataPacketReceiver; only the data receiver's first report is judged here (exactly-once is C40)")

    for sub, label in ([({"MaxLen": 4, "MaxPackets": 1, "MaxLat": 2}, "lengths 0..4 (every tail size), one packet"),
                        ({"MaxLen": 1, "MaxPackets": 2, "MaxLat": 1}, "two packets back to back")] if quick else
                       [({"MaxLen": 9, "MaxPackets": 1, "MaxLat": 2}, "lengths 0..9, one packet"),
                        ({"MaxLen": 2, "MaxPackets": 3, "MaxLat": 2}, "three packets")]):
        _mc(rep, "MCPacketTx", tlc.render_cfg(_cfg("MCPacketTx.cfg.tmpl"), sub), "MCPacketTx (%s)" % label, sub)

    items = []
    raw = RawTxBench()
    rxb = RxBench()

    def run_raw(packets, origin):
        recs = resolve_rx(raw.run(packets), rxb)
        rep.add_eval(sum(1 for r in recs if r["e"] == "cyc"))
        items.append((recs, {"dut": "RawPacketTransmitter", "origin": origin}))
        for pk in packets:
            rep.nontriv(("raw", pk["hdr"]["dw"][0] & 31, len(pk["pl"]) % 4, len(pk["pl"]), pk["hdr"]["dl"]))

    # spec -> code: TLC-simulated schedules (header family of the model, every length 0..9)
    sim_cfg = tlc.render_cfg(_cfg("MCPacketTx.cfg.tmpl"), {"MaxLen": 6 if quick else 9, "MaxPackets": 3, "MaxLat": 1})
    sim_cfg = "\n".join(l for l in sim_cfg.splitlines() if not l.startswith("INVARIANT"))
    behs = tlc.simulate(SPEC_DIR, "MCPacketTx", sim_cfg, num=10 if quick else 200, depth=50, seed=rep.seed, timeout=1200)
    for b in behs:
        packets = []
        cur = None
        idle = 0
        for _, st in b[1:]:
            i = st["in"]
            if cur is None and i["gen"]:
                cur = {"hdr": {k: i["hdr"][k] for k in ("dw", "seq", "rsv", "hub", "dl", "df")}, "pl": i["pl"],
                       "bits": [], "gens": [], "gap": idle}
                idle = 0
            if cur is not None:
                cur["bits"].append(i["rdy"])
                cur["gens"].append(i["gen"])
                if i["done"]:
                    packets.append(cur)
                    cur = None
            else:
                idle += 1
        if cur is not None:
            packets.append(cur)
        for pk in packets:
            bits = pk["bits"] + [True] * 100
            pk["rdy"] = (lambda bb: (lambda n: bb[n]))(bits)
            hold = 1
            while hold < len(pk["gens"]) and pk["gens"][hold]:
                hold += 1
            pk["hold"] = min(hold, 3)
        if packets:
            run_raw(packets, "tlc-simulate")

    # code -> spec: every length 0..N with random headers, bytes, ready patterns; non-data headers; delayed
    lengths = list(range(0, 14)) + ([31, 64] if quick else [31, 32, 33, 64, 127])
    long_lengths = [255, 256, 1021, 1023, 1024]      # thorough only, twice each (TLC: a few ms per CRC-32 byte)
    reps = 2 if quick else 6
    for rep_i in range(reps):
        packets = []
        for n in lengths + (long_lengths if (not quick and rep_i in (0, 3)) else []):
            pl = [rng.choice([0, 0xFF, rng.getrandbits(8), rng.getrandbits(8)]) for _ in range(n)]
            h = random_header(rng, 8, n)
            packets.append({"hdr": h, "pl": pl, "rdy": rdy_pattern(rng), "hold": rng.choice([1, 1, 2, 4]),
                            "gap": rng.randrange(0, 3), "junk16": rng.getrandbits(16), "junk5": rng.getrandbits(5)})
            if rng.random() < 0.5:
                k = rng.choice([0, 4, 12])
                packets.append({"hdr": random_header(rng, k), "pl": [], "rdy": rdy_pattern(rng), "hold": 1,
                                "gap": rng.randrange(0, 3), "present": False})
            if rng.random() < 0.25:
                hd = dict(random_header(rng, 8, n), dl=1)
                packets.append({"hdr": hd, "pl": pl, "rdy": rdy_pattern(rng), "hold": 1, "gap": 1, "present": False})
        for i in range(0, len(packets), 6):
            run_raw(packets[i:i + 6], "random")

    # the header input switches to another header (data <-> non-data in particular) at every offset 0..10 after the
    # one-cycle strobe, with PHY stalls; the packet sent must be the one requested at the strobe
    offsets = list(range(0, 11))
    rng.shuffle(offsets)
    packets = []
    for oi, off in enumerate(offsets if quick else offsets * 4):
        n = rng.choice([0, 1, 2, 3, 4, 5, 7])
        pl = [rng.getrandbits(8) for _ in range(n)]
        alt_n = rng.randrange(1, 9)
        alt_pl = [rng.getrandbits(8) for _ in range(alt_n)]
        data_first = (oi % 2 == 0)
        if data_first:       # a data packet (often zero-length) while the input turns into a transaction packet header
            pk = {"hdr": random_header(rng, 8, n), "pl": pl, "wiggle": (off, random_header(rng, rng.choice([0, 4, 12])), None)}
        else:                # a non-data packet while the input turns into a data header whose payload is waiting
            pk = {"hdr": random_header(rng, rng.choice([0, 4, 12])), "pl": [], "present": False,
                  "wiggle": (off, random_header(rng, 8, alt_n), alt_pl)}
        pk.update(rdy=rdy_pattern(rng), hold=1, gap=rng.randrange(1, 3))
        packets.append(pk)
    for i in range(0, len(packets), 6):
        run_raw(packets[i:i + 6], "header-input-changes")

    # the stack DataPacketTransmitter -> PacketTransmitter
    # PacketTransmitter parameters: buffer_count 4 (USB3) and, rotated by seed, 2 / 8 / 3; another ss_clock_frequency
    stack_cfgs = [(4, 125e6)] + ([[(2, 60e6)], [(8, 125e6)], [(3, 1e6)]][rep.seed % 3] if quick else [(2, 60e6), (8, 125e6), (3, 1e6)])
    for rep_i in range(2 if quick else 8):
        bc, fq = stack_cfgs[rep_i % len(stack_cfgs)]
        stack = StackTxBench(buffer_count=bc, ss_clock_frequency=fq)
        lens = [rng.randrange(0, 4), rng.randrange(4, 8), rng.choice([8, 9, 10, 11, 16, 33]), rng.randrange(1, 13)][:bc]
        rng.shuffle(lens)
        packets = []
        for n in lens:
            packets.append({"pl": [rng.getrandbits(8) for _ in range(n)], "rdy": rdy_pattern(rng), "gap": rng.randrange(3),
                            "pwiggle": rng.choice([None, 0, 1, 2, 4]),
                            "params": {"addr": rng.randrange(128), "ep": rng.randrange(16), "dseq": rng.randrange(32),
                                       "len": n, "dir": rng.randrange(2)}})
            rep.nontriv(("stack", bc, 8, n % 4, n, 0))
        recs = resolve_rx(stack.run(packets, advertised_seq=rng.randrange(8)), rxb)
        rep.add_eval(sum(1 for r in recs if r["e"] == "cyc"))
        items.append((recs, {"dut": "DataPacketTransmitter+PacketTransmitter", "buffer_count": bc, "origin": "random"}))

    rep.add_eval(rxb.cycles)
    # several TLC invocations, each far below the timeout (long payloads are costly in TLC)
    validate_group(rep, SPEC_DIR, "PacketTxTrace", _cfg("PacketTxTrace.cfg.tmpl"), items, classify=_guard(classify_tx),
                   chunk=400 if quick else 40, timeout=1800)
    nrx = sum(1 for t, _ in items for r in t if r["e"] == "rx")
    ngood = sum(1 for t, _ in items for r in t if r["e"] == "rx" and r["dp_reports"][:1] == ["good"])
    rep.notes.append("packets taken through the real receivers: %d (data packets reported good: %d)" % (nrx, ngood))
    for t, meta in items[len(behs):len(behs) + 1]:
        rep.sample({"dut": meta["dut"], "records": [r for r in t if r["e"] == "rx" or r.get("gen")][:4]})


# ================================================================================================
# C40  data packet reception
# ================================================================================================
# Stimulus construction only (the verdict on every packet is computed by TLC from the words themselves).
def _crc_field(bits, poly, width):
    reg = (1 << width) - 1
    for b in bits:
        fb = ((reg >> (width - 1)) & 1) ^ b
        reg = (reg << 1) & ((1 << width) - 1)
        if fb:
            reg ^= poly
    reg ^= (1 << width) - 1
    return [(reg >> (width - 1 - k)) & 1 for k in range(width)]       # in sending order


def _val(bits):
    return sum(b << k for k, b in enumerate(bits))


def _byte_bits(bs):
    return [(b >> k) & 1 for b in bs for k in range(8)]


def stim_crc5(v11):
    return _val(_crc_field([(v11 >> k) & 1 for k in range(11)], 0x05, 5))


def stim_crc16(bs):
    return _val(_crc_field(_byte_bits(bs), 0x100B, 16))


def stim_crc32(bs):
    f = _crc_field(_byte_bits(bs), 0x04C11DB7, 32)
    return [_val(f[8 * j:8 * j + 8]) for j in range(4)]


def data_packet_words(dw, lc, pl, c5=True, c16=True, c32=True, cut=None, abort=False):
    """Words of a data packet; c5/c16/c32=False flip one bit of that CRC; cut=n ends the payload after n bytes
    with DPPEND (or, abort=True, with DPPABORT = EDB EDB EDB EPF)."""
    crc16 = stim_crc16(dw) ^ (0 if c16 else 1 << 3)
    lcw = (lc | stim_crc5(lc) << 11) ^ (0 if c5 else 1 << 12)
    crc = stim_crc32(pl)
    if not c32:
        crc[1] ^= 1 << 6
    if cut is None:
        sy = [(b, 0) for b in pl] + [(b, 0) for b in crc]
    else:
        sy = [(b, 0) for b in pl[:cut]]
    e = EDB if (abort and cut is not None) else END
    sy += [(e, 1), (e, 1), (e, 1), (EPF, 1)]
    while len(sy) % 4:
        sy.append((0, 0))
    ws = [HPSTART, {"d": dw[0:4], "c": 0, "v": True}, {"d": dw[4:8], "c": 0, "v": True},
          {"d": dw[8:12], "c": 0, "v": True},
          {"d": [crc16 & 0xFF, crc16 >> 8, lcw & 0xFF, lcw >> 8], "c": 0, "v": True}, DPPSTART]
    for j in range(0, len(sy), 4):
        ws.append({"d": [x[0] for x in sy[j:j + 4]], "c": sum(x[1] << k for k, x in enumerate(sy[j:j + 4])), "v": True})
    return ws


def rx_stream(rng, packets, gap_p, avoid_b, tail=6):
    """Assemble a word stream from packet descriptions, inserting not-valid words.
    packets: dicts len, c5, c16, c32, cut, b_gap (force a not-valid word right after the last payload word),
             follow ('none'|'idle'|'lc'|'tp')."""
    stream = []

    def junk(prev, nxt):
        k = rng.randrange(5)
        w = [NOWORD, prev, nxt, word(rng.getrandbits(32), rng.choice([0, 0, 15])), HPSTART][k]
        return {"d": list(w["d"]), "c": w["c"], "v": False}
    for pk in packets:
        n = pk["len"]
        dw = bytes_le((rng.getrandbits(27) << 5) | 8, 4) + bytes_le(rng.getrandbits(16) | n << 16, 4) + bytes_le(rng.getrandbits(32), 4)
        pl = [rng.choice([0, 0xFF, rng.getrandbits(8), rng.getrandbits(8)]) for _ in range(n)]
        ws = data_packet_words(dw, rng.getrandbits(11) | (1024 if pk.get("hdr_only") else 0), pl, pk.get("c5", True),
                               pk.get("c16", True), pk.get("c32", True), pk.get("cut"), pk.get("abort", False))
        if pk.get("hdr_only"):        # a payload-less (deferred) data header
            ws = ws[:5]
        last_payload = 5 + (n + 3) // 4          # index in ws of the word holding the last payload byte (n > 0)
        for j, w in enumerate(ws):
            stream.append(w)
            after_last_payload = n > 0 and j == last_payload and pk.get("cut") is None and not pk.get("hdr_only")
            nxt = ws[j + 1] if j + 1 < len(ws) else NOWORD
            if after_last_payload:
                if pk.get("b_gap"):
                    for _ in range(pk["b_gap"]):
                        stream.append(junk(w, nxt))
                elif not avoid_b and rng.random() < gap_p:
                    stream.append(junk(w, nxt))
            elif rng.random() < gap_p:
                for _ in range(rng.choice([1, 1, 2, 3])):
                    stream.append(junk(w, nxt))
        f = pk.get("follow", "none")
        if f == "idle":
            stream += [word(0, 0)] * rng.randrange(1, 4)
        elif f == "lc":
            v = rng.getrandbits(16)
            stream += [LCSTART, word(v | v << 16, 0)]
        elif f == "tp":
            stream += [HPSTART, word(4 | rng.getrandbits(27) << 5, 0), word(rng.getrandbits(32), 0),
                       word(rng.getrandbits(32), 0), word(rng.getrandbits(32), 0)]
    stream += [word(0, 0)] * tail
    return stream


class DataRxBench:
    def __init__(self):
        use_repo()
        from luna.gateware.usb.usb3.link.data import DataPacketReceiver
        self.dut = DataPacketReceiver()
        top, self.rst = with_ss_domain(self.dut)
        self.sim = StepSim(top)

    def run(self, stream, stop_at_first_good=False, reset_at=()):
        dut = self.dut
        recs = []

        async def bench(ctx):
            for i, w in enumerate(stream):
                ctx.set(self.rst, int(i in reset_at))
                set_word(ctx, dut.sink, w)
                sv = ctx.get(dut.source.valid)
                sd = ctx.get(dut.source.data)
                r = {"iw": w, "good": bool(ctx.get(dut.packet_good)), "bad": bool(ctx.get(dut.packet_bad)),
                     "sv": sv, "sd": bytes_le(sd, 4), "rst": i in reset_at}
                recs.append(r)
                if stop_at_first_good and r["good"]:
                    break
                await ctx.tick("ss")
        self.sim.run(bench)
        return recs


def classify_rx(trace, matched, status, meta):
    """Normalised cause of a rejection, computed from the recorded trace."""
    k = matched
    rec = trace[k - 1] if 0 < k <= len(trace) else None
    prev = trace[k - 2] if k >= 2 else None
    pattern = "other"
    if rec is not None and status == "rx_report_not_owed":
        if prev is not None and prev["good"]:
            pattern = "reported_again_in_cycle_after_good"
        elif prev is not None and prev["bad"] and prev["iw"]["v"] and (prev["iw"]["c"] & prev["sv"]):
            pattern = "reported_again_after_control_symbol_in_last_payload_word"
        elif not rec["iw"]["v"]:
            pattern = "judged_on_not_valid_word"
    elif status == "rx_report_missing":
        vw = [t["iw"] for t in trace[:k] if t["iw"]["v"]]
        hps = [j for j, w in enumerate(vw) if w["c"] == 15 and w["d"] == HPSTART["d"]]
        if any(j - 5 in hps and vw[j - 4]["c"] == 0 and vw[j - 4]["d"][0] % 32 == 8 for j in hps):
            pattern = "packet_after_payloadless_data_header"
    elif rec is not None and status in ("rx_good_for_bad_packet",):
        # find the header of the packet being judged: last HPSTART before k
        hp = max((j for j in range(k) if trace[j]["iw"]["v"] and trace[j]["iw"]["c"] == 15
                  and trace[j]["iw"]["d"] == HPSTART["d"]), default=None)
        if hp is not None:
            valid_after = [t["iw"] for t in trace[hp + 1:k] if t["iw"]["v"]]
            if len(valid_after) >= 2 and valid_after[1]["d"][2:4] == [0, 0]:
                pattern = "zero_length_packet"
    return {"clause": status, "pattern": pattern}


def check_C40(rep):
    quick = rep.tier == "quick"
    rng = rep.rng
    rep.rule = ("data packets fed to the real DataPacketReceiver and judged by TLC; distinct by (length, c5, c16, "
                "c32 ok?, not-valid words inside?, what follows, reported good/bad/none)")
    rep.assume("header packets are complete (HPSTART + 4 valid words); a data header with good CRCs is followed by "
               "its DPPSTART or (witness class only) directly by the next HPSTART")
    rep.assume("a data header with bad CRC-5/CRC-16 may be reported bad once or not at all; the report may come up to "
               "2 cycles after the second valid word following the CRC-32")
    rep.assume("not-valid words may show any data (zero, the previous or the next word, HPSTART pattern, random)")

    for sub, label in ([({"MaxLen": 4, "MaxPackets": 1, "MaxGaps": 2}, "one packet, lengths 0..4 (every tail size), all CRC combinations, 2 gaps anywhere"),
                        ({"MaxLen": 1, "MaxPackets": 2, "MaxGaps": 1}, "two packets back to back")] if quick else
                       [({"MaxLen": 9, "MaxPackets": 1, "MaxGaps": 2}, "one packet, lengths 0..9"),
                        ({"MaxLen": 5, "MaxPackets": 1, "MaxGaps": 3}, "one packet, 3 gaps"),
                        ({"MaxLen": 2, "MaxPackets": 2, "MaxGaps": 2}, "two packets")]):
        _mc(rep, "MCDataRx", tlc.render_cfg(_cfg("MCDataRx.cfg.tmpl"), sub), "MCDataRx (%s)" % label, sub)

    bench = DataRxBench()
    clean, witness = [], []

    def run(packets, gap_p, avoid_b, cls, origin, stop=False, stream=None):
        st = stream if stream is not None else rx_stream(rng, packets, gap_p, avoid_b)
        recs = bench.run(st, stop_at_first_good=stop)
        rep.add_eval(len(recs))
        (clean if cls == "clean" else witness).append((recs, {"class": cls, "origin": origin}))
        outcome = "good" if any(r["good"] for r in recs) else ("bad" if any(r["bad"] for r in recs) else "none")
        for pk in packets or []:
            rep.nontriv((pk["len"], pk.get("c5", True), pk.get("c16", True), pk.get("c32", True), gap_p > 0,
                         pk.get("follow", "none"), pk.get("b_gap", 0), outcome))

    lens = list(range(0, 13)) + ([16, 33] if quick else [16, 31, 32, 33, 64, 255, 1024])
    follows = ["none", "idle", "lc", "tp"]
    n_rep = 1 if quick else 5
    for _ in range(n_rep):
        # --- clean class: nothing that triggers one of the open findings -------------------------------
        #  (a) packets with a corrupted CRC (non-zero length when it is the CRC-32), gaps anywhere but
        #      right after the last payload word, any following traffic
        for n in lens:
            for gp in (0.0, 0.35):
                pks = []
                for _k in range(3):
                    kind = rng.choice(["c32", "c32", "c5", "c16", "cut"]) if n > 4 else \
                        (rng.choice(["c32", "c32", "c5", "c16"]) if n > 0 else rng.choice(["c5", "c16"]))
                    pk = {"len": n, "follow": rng.choice(follows)}
                    if kind == "cut":          # DPPEND before the last payload word (in the last word: class D)
                        pk["cut"] = rng.randrange(0, 4 * ((n - 1) // 4))
                    else:
                        pk[kind] = False
                    pks.append(pk)
                    n = rng.choice(lens[1:13])
                run(pks, gp, True, "clean", "bad-packets")
        #  (b) bad packets, then one good packet; the trace ends with the cycle of the `good` report
        for n in lens[1:]:
            for gp in (0.0, 0.35):
                pks = [{"len": rng.choice(lens[1:13]), "c32": False, "follow": rng.choice(follows)} for _k in range(rng.randrange(0, 3))]
                pks.append({"len": n})
                run(pks, gp, True, "clean", "good-last", stop=True)
        # --- witness classes (accepted once the defect is repaired) ----------------------------------------
        #  A: good packets with following traffic (also zero-length ones)
        for n in lens:
            for gp in (0.0, 0.35):
                pks = [{"len": n, "follow": rng.choice(follows)}]
                for _k in range(2):
                    pks.append({"len": rng.choice(lens[:13]), "c32": rng.random() < 0.7, "follow": rng.choice(follows)})
                for pk in pks:
                    if pk["len"] == 0:
                        pk["c32"] = True
                run(pks, gp, True, "witness-A", "good-then-traffic")
        #  B: a not-valid word right after the last payload word
        for n in lens[1:13]:
            for good in (True, False):
                run([{"len": n, "c32": good, "b_gap": rng.choice([1, 1, 2]), "follow": "idle"},
                     {"len": rng.choice(lens[1:13]), "c32": False}], 0.0, True, "witness-B", "gap-after-payload")
        #  C: zero-length packet with a corrupted CRC-32
        for gp in (0.0, 0.35):
            run([{"len": rng.choice(lens[1:13]), "c32": False, "follow": "idle"}, {"len": 0, "c32": False, "follow": "idle"},
                 {"len": 3, "c32": False}], gp, True, "witness-C", "zlp-bad-crc32")

        #  D: payload cut short by DPPEND within its last payload word
        for n in lens[1:10]:
            run([{"len": n, "cut": rng.randrange(4 * ((n - 1) // 4), n), "follow": rng.choice(["none", "idle"])},
                 {"len": rng.choice(lens[1:13]), "c32": False}], 0.0, True, "witness-D", "cut-in-last-word")

        #  E: a data packet directly after a payload-less data header (deferred, or with a corrupted CRC)
        for kind in ("deferred", "c16", "c5"):
            n = rng.choice(lens[1:13])
            dw = bytes_le(8, 4) + bytes_le(rng.getrandbits(16) | rng.choice(lens[1:13]) << 16, 4) + bytes_le(rng.getrandbits(32), 4)
            hdr_only = data_packet_words(dw, 1024 | rng.getrandbits(10), [0], c5=kind != "c5", c16=kind != "c16")[:5]
            rest = rx_stream(rng, [{"len": n, "c32": False, "follow": "idle"}, {"len": rng.choice(lens[1:13]), "c32": False}], 0.0, True)
            run(None, 0.0, True, "witness-E", "after-payloadless-header", stream=[word(0, 0)] + hdr_only + rest)

    # ordered pairs of packet kinds: every kind of first packet (good, CRC-32 / CRC-16 / CRC-5 corrupted, payload cut
    # short by DPPEND or DPPABORT in any of its words, zero-length good / corrupted, payload-less deferred header),
    # followed by a good packet and another good one -- back to back, with idle words, and with not-valid words
    # at every offset of the history (a different sweep offset per trace)
    def first_kinds(n):
        ks = [("good", {}), ("bad32", {"c32": False}), ("bad16", {"c16": False}), ("bad5", {"c5": False}),
              ("zlp", {"len": 0}), ("zlp-bad32", {"len": 0, "c32": False}), ("deferred", {"hdr_only": True})]
        for wi in range((n + 3) // 4):
            c = min(n - 1, 4 * wi + rng.randrange(4))
            ks.append(("cut@%d" % wi, {"cut": c, "abort": rng.random() < 0.5}))
        return ks
    pair_lens = [rng.randrange(1, 4), rng.randrange(4, 9), rng.randrange(9, 14)] if quick else list(range(1, 14)) + [33]
    for n in pair_lens:
        for name, kw in first_kinds(n):
            for mode in (0, 1, 2):
                first = dict({"len": n}, **kw)
                first["follow"] = ["none", "idle", "none"][mode]
                pks = [first, {"len": rng.randrange(1, 13), "follow": ["none", "idle", "none"][mode]},
                       {"len": rng.choice([0, rng.randrange(1, 13)]), "follow": "idle"}]
                st = rx_stream(rng, pks, 0.0, True)
                if mode == 2:           # not-valid words at a sweep offset (and a second one a few words later)
                    off = rng.randrange(1, max(2, len(st) - 6))
                    for o in sorted({off, min(len(st) - 1, off + rng.randrange(1, 8))}, reverse=True):
                        st.insert(o, dict(rng.choice([NOWORD, st[o], st[o - 1], HPSTART]), v=False))
                recs = bench.run(st)
                rep.add_eval(len(recs))
                witness.append((recs, {"class": "pairs", "origin": "%s(len %d)->good->good mode %d" % (name, n, mode)}))
                rep.nontriv(("pair", name, n % 4, mode, sum(r["good"] for r in recs), sum(r["bad"] for r in recs)))

    # clock-domain reset at a sweep offset of a three-packet history: the packet in progress is forgotten (no report
    # owed for it), everything after the reset is received as from power-up
    for k in range(12 if quick else 60):
        pks = [{"len": rng.randrange(0, 13), "c32": rng.random() < 0.7, "follow": rng.choice(follows)} for _ in range(3)]
        st = rx_stream(rng, pks, rng.choice([0.0, 0.2]), False)
        recs = bench.run(st, reset_at={rng.randrange(1, len(st) - 8)})
        rep.add_eval(len(recs))
        witness.append((recs, {"class": "reset", "origin": "domain-reset-mid-stream"}))

    # boundary lengths up to the maximum packet size (1024): good and corrupted CRC-32, with / without not-valid
    # words, each followed by a short good packet  (TLC's bit-serial CRC-32 costs a few ms per byte: four in quick, more in thorough)
    big = [(1024, True, 0.0), (1024, False, 0.05), (1023, True, 0.05), (1021, True, 0.0)]
    if not quick:
        big += [(n, g, gp) for n in (1024, 1023, 1022, 1021, 1020, 1019, 1017, 1000, 513, 512) for g in (True, False) for gp in (0.0, 0.05)]
    for n, good, gp in big:
        run([{"len": n, "c32": good, "follow": rng.choice(["none", "idle"])}, {"len": rng.randrange(1, 9)}], gp, False,
            "witness-A", "max-size-boundary")

    # spec -> code: streams generated by TLC from the model's Env (they contain good packets: witness class)
    sim_cfg = tlc.render_cfg(_cfg("MCDataRx.cfg.tmpl"), {"MaxLen": 9, "MaxPackets": 3, "MaxGaps": 4})
    sim_cfg = "\n".join(l for l in sim_cfg.splitlines() if not l.startswith("INVARIANT"))
    behs = tlc.simulate(SPEC_DIR, "MCDataRx", sim_cfg, num=25 if quick else 200, depth=60, seed=rep.seed, timeout=1200)
    for b in behs:
        st = [s_["in"]["iw"] for _, s_ in b[1:]] + [word(0, 0)] * 6
        run(None, 0.0, True, "witness-tlc", "tlc-simulate", stream=st)

    cfg = _cfg("DataRxTrace.cfg.tmpl")
    validate_group(rep, SPEC_DIR, "DataRxTrace", cfg, clean, classify=_guard(classify_rx), what_prefix="DataPacketReceiver (clean stimuli) ")
    validate_group(rep, SPEC_DIR, "DataRxTrace", cfg, witness, classify=_guard(classify_rx), what_prefix="DataPacketReceiver ")
    rep.notes.append("clean traces: %d, witness traces: %d" % (len(clean), len(witness)))
    if clean:
        rep.sample({"class": "clean", "first_records": clean[0][0][:8]})


# ================================================================================================
# C43  training ordered sets
# ================================================================================================
TS_SETS = {   # name of the TLA+ definition -> (set_data of the gateware, first word ctrl, has config)
    "TS1Words": ("TS1_SET_DATA", 0b1111, False),
    "TS1InvWords": ("INVERTED_TS1_SET_DATA", 0b1111, False),
    "TS2Words": ("TS2_SET_DATA", 0b1111, True),
    "TSEQWords": ("TSEQ_SET_DATA", 0b0001, False),
    "TinyWords": ((0xBCBCBCBC, 0x45450000), 0b1111, True),     # two-word set (the constructors take any set_data)
}


class TsBench:
    """A real TSEmitter and a real TSBurstDetector built from the same ordered set (set_data, first_word_ctrl,
    burst lengths and include_config are constructor parameters of both)."""

    def __init__(self, set_name, emit_n, det_n, ctrl=None, cfg=None):
        use_repo()
        from amaranth import Module, Elaboratable, ClockDomain
        from luna.gateware.usb.usb3.link import ordered_sets as osets
        data_name, dctrl, dcfg = TS_SETS[set_name]
        data = getattr(osets, data_name) if isinstance(data_name, str) else list(data_name)
        ctrl = dctrl if ctrl is None else ctrl
        has_cfg = dcfg if cfg is None else cfg
        self.ctrl = ctrl
        self.has_cfg = has_cfg
        self.set_words = [word(d, ctrl if k == 0 else 0) for k, d in enumerate(data)]

        class Top(Elaboratable):
            def __init__(self):
                self.cd = ClockDomain("ss")
                self.em = osets.TSEmitter(set_data=data, first_word_ctrl=ctrl, transmit_burst_length=emit_n,
                                          include_config=has_cfg)
                self.det = osets.TSBurstDetector(set_data=data, first_word_ctrl=ctrl, sets_in_burst=det_n,
                                                 include_config=has_cfg)

            def elaborate(self, platform):
                m = Module()
                m.domains.ss = self.cd
                m.submodules.em = self.em
                m.submodules.det = self.det
                return m
        self.top = Top()
        self.sim = StepSim(self.top)

    def run(self, stim, loop=False, rng=None):
        """stim: per-cycle dicts start, rdy, hr, lb, ns, iw (word for the detector when not looping)."""
        em, det = self.top.em, self.top.det
        recs = []

        async def bench(ctx):
            for st in stim:
                ctx.set(self.top.cd.rst, int(st.get("rst", False)))
                ctx.set(em.start, int(st["start"]))
                ctx.set(em.source.ready, int(st["rdy"]))
                if self.has_cfg:
                    ctx.set(em.request_hot_reset, int(st["hr"]))
                    ctx.set(em.request_loopback, int(st["lb"]))
                    ctx.set(em.request_no_scrambling, int(st["ns"]))
                ow = get_word(ctx, em.source)
                if loop:
                    iw = dict(ow, v=bool(ow["v"] and st["rdy"]))
                else:
                    iw = st.get("iw", NOWORD)
                set_word(ctx, det.sink, iw)
                r = {"start": bool(st["start"]), "rdy": bool(st["rdy"]), "hr": bool(st["hr"]), "lb": bool(st["lb"]),
                     "ns": bool(st["ns"]), "ow": ow, "done": bool(ctx.get(em.done)), "iw": iw, "rst": bool(st.get("rst", False)),
                     "det": bool(ctx.get(det.detected)),
                     "dhr": bool(ctx.get(det.hot_reset)) if self.has_cfg else False,
                     "dlb": bool(ctx.get(det.loopback_requested)) if self.has_cfg else False,
                     "dsd": bool(ctx.get(det.scrambling_disabled)) if self.has_cfg else False}
                recs.append(r)
                await ctx.tick("ss")
        self.sim.run(bench)
        return recs


class TsTransceiverBench:
    """The real TSTransceiver (TSEQ / TS1 / inverted TS1 / TS2 detectors and the three emitters as the library wires
    them).  One run gives one trace per detector (its own view of the common sink); with `loop` the word stream is
    what the transceiver itself emits for the selected burst."""
    VIEWS = [("TSEQWords", "tseq_detected", 32), ("TS1Words", "ts1_detected", 8), ("TS1InvWords", "inverted_ts1_detected", 8),
             ("TS2Words", "ts2_detected", 8)]

    class _View:        # what ts_words / ts_detector_stream need to know about a set
        def __init__(self, set_name):
            use_repo()
            from luna.gateware.usb.usb3.link import ordered_sets as osets
            data_name, self.ctrl, self.has_cfg = TS_SETS[set_name]
            self.set_words = [word(d, self.ctrl if k == 0 else 0) for k, d in enumerate(getattr(osets, data_name))]

    def __init__(self):
        use_repo()
        from luna.gateware.usb.usb3.link.ordered_sets import TSTransceiver
        self.dut = TSTransceiver()
        top, self.rst = with_ss_domain(self.dut)
        self.sim = StepSim(top)
        self.views = {name: self._View(name) for name, _, _ in self.VIEWS}

    def run(self, stim):
        """stim: per-cycle dicts: iw (word for the sink) or loop=('tseq'|'ts1'|'ts2', hr, lb, ns) to send a burst and
        feed the emitted words back; rdy."""
        dut = self.dut
        traces = {name: [] for name, _, _ in self.VIEWS}

        async def bench(ctx):
            for st in stim:
                lp = st.get("loop")
                for k in ("tseq", "ts1", "ts2"):
                    ctx.set(getattr(dut, "send_%s_burst" % k), int(bool(lp) and lp[0] == k))
                if lp:
                    ctx.set(dut.request_hot_reset, int(lp[1]))
                    ctx.set(dut.request_loopback, int(lp[2]))
                    ctx.set(dut.request_no_scrambling, int(lp[3]))
                ctx.set(dut.source.ready, int(st.get("rdy", True)))
                if lp:
                    ow = get_word(ctx, dut.source)
                    iw = dict(ow, v=bool(ow["v"] and st.get("rdy", True)))
                else:
                    iw = st.get("iw", NOWORD)
                set_word(ctx, dut.sink, iw)
                for name, sig, _ in self.VIEWS:
                    cfgv = name == "TS2Words"
                    traces[name].append(dict(EM_IDLE, ow=NOWORD, done=False, iw=iw, det=bool(ctx.get(getattr(dut, sig))),
                                             dhr=bool(ctx.get(dut.hot_reset_requested)) if cfgv else False,
                                             dlb=bool(ctx.get(dut.loopback_requested)) if cfgv else False,
                                             dsd=bool(ctx.get(dut.no_scrambling_requested)) if cfgv else False))
                await ctx.tick("ss")
        self.sim.run(bench)
        return traces


EM_IDLE = {"start": False, "rdy": True, "hr": False, "lb": False, "ns": False, "rst": False}


def ts_emitter_stim(rng, set_len, emit_n, bursts, has_cfg):
    """start pulses / holds (rising only while idle), ready patterns, request bits constant per burst."""
    stim = [dict(EM_IDLE)]
    for _ in range(bursts):
        cfg = {"hr": has_cfg and rng.random() < 0.4, "lb": has_cfg and rng.random() < 0.4, "ns": has_cfg and rng.random() < 0.4}
        p = rng.choice([0.0, 0.0, 0.3, 0.6])
        total = emit_n * set_len
        mode = rng.choice(["pulse", "hold_some", "hold_through"])
        hold = {"pulse": 1, "hold_some": rng.randrange(2, total + 1), "hold_through": 10 ** 6}[mode]
        chained = 2 if mode == "hold_through" else 1
        accepted = 0
        n = 0
        stim.append(dict(EM_IDLE, start=True, **cfg))        # request cycle (emitter idle)
        while accepted < total * chained:
            rdy = rng.random() >= p
            last_of_chain = accepted >= total * chained - 1
            stim.append(dict(EM_IDLE, rdy=rdy, start=(n + 1 < hold) and not (chained == 2 and accepted >= total), **cfg))
            if chained == 2 and accepted < total:
                stim[-1]["start"] = True
            accepted += rdy
            n += 1
        for _ in range(rng.randrange(1, 4)):
            stim.append(dict(EM_IDLE, **cfg))
    stim += [dict(EM_IDLE)] * 5
    return stim


def ts_words(bench, kind, rng, cfg=0):
    """The words of one whole set: 'm' matching; 'o' a set of another kind sharing the first word (TS2 for a TS1
    detector, ...: every later word differs); 'n1'..: near-miss, only word k (0-based, >= 1) differs in one bit or
    its ctrl mask; 'x' a set sharing nothing (e.g. TSEQ for a TS detector)."""
    sw = bench.set_words
    L = len(sw)
    out = []
    if kind.startswith("f"):      # fragment: the first j words of a set, then one foreign word (not set-aligned)
        j = int(kind[1:])
        frag = [{"d": list(sw[k]["d"]), "c": sw[k]["c"], "v": True} for k in range(j)]
        if bench.has_cfg and j > 1:
            frag[1]["d"][1] = cfg
        x = word(rng.getrandbits(32) | 0x01000000, 0)
        return frag + [x if x["d"] != sw[j]["d"] else word(0x01020304, 0)]
    if kind.startswith("g"):      # truncated set: the first j words only -- the next set's first word breaks it
        j = int(kind[1:])
        frag = [{"d": list(sw[k]["d"]), "c": sw[k]["c"], "v": True} for k in range(j)]
        if bench.has_cfg and j > 1:
            frag[1]["d"][1] = cfg
        return frag
    for k in range(L):
        w = {"d": list(sw[k]["d"]), "c": sw[k]["c"], "v": True}
        if bench.has_cfg and k == 1:
            w["d"][0] = rng.choice([0, 0, rng.getrandbits(8)])
            w["d"][1] = cfg
        if kind == "o" and k >= 1:
            w["d"] = [w["d"][0], w["d"][1], w["d"][2] ^ 0x0F, w["d"][3] ^ 0x0F]
        elif kind == "x":
            w["d"] = [b ^ 0x5A for b in w["d"]]
            w["c"] = 1 if k == 0 else 0
        elif kind == "n0" and k == 0:           # first word with the right symbols but the wrong K flags
            w["c"] = rng.choice([c for c in (0b1111, 0b0001, 0b0111, 0b0000) if c != sw[0]["c"]])
        elif kind.startswith("n") and k == int(kind[1:]):
            if rng.random() < 0.6:
                w["d"][3 if (bench.has_cfg and k == 1) else rng.randrange(4)] ^= 1 << rng.randrange(8)
            else:
                w["c"] = rng.choice([1, 8, 15])
        out.append(w)
    return out


def ts_detector_stream(rng, bench, det_n, events, hazards=()):
    """Word stream built from whole sets of several kinds in any order, idle gaps between and inside sets,
    and stray foreign words.  Without `hazards` it avoids the two situations in which the unrepaired
    detector is known to differ (open findings): 'gap_foreign' = a word that is not a first word arriving
    after an idle gap while sets are counted; 'adjacent' = a set beginning in the cycle right after a
    breaking word (or in the first cycle)."""
    sw = bench.set_words
    L = len(sw)
    out = [NOWORD] if "adjacent" not in hazards else []
    counting = False          # complete sets may be counted at this point
    after_break = not out     # the previous cycle held a breaking word (or nothing at all yet)
    gapped = True             # a not-valid cycle since the last valid word

    def gap(n=1):
        nonlocal after_break, gapped
        for _ in range(n):
            out.append(dict(rng.choice([NOWORD, sw[0], sw[-1], word(rng.getrandbits(32), 0)]), v=False))
        after_break, gapped = False, True

    def emit_set(kind, cfg, gp):
        nonlocal counting, after_break, gapped
        ws = ts_words(bench, kind, rng, cfg)
        first_matches = kind not in ("x", "n0")
        if after_break and first_matches and "adjacent" not in hazards:
            gap(1)
        if counting and gapped and not first_matches and "gap_foreign" not in hazards:
            # a foreign first word right behind the run is fine; after a gap it is the open finding's trigger
            return
        for k, w in enumerate(ws):
            out.append(w)
            gapped = False
            breaking = (kind == "o" and k == 1) or (kind in ("x", "n0") and k == 0 and counting) or \
                       (kind.startswith("n") and kind != "n0" and k == int(kind[1:]))
            after_break = breaking
            if breaking:
                counting = False
            if k < L - 1 and rng.random() < gp and (kind == "m" or not counting):
                gap(rng.choice([1, 1, 2, 4]))
        if kind == "m":
            counting = True
    kinds = ["m", "o", "x"] + ["n%d" % k for k in range(0, L)]
    for ev in range(events):
        r = rng.random()
        c = rng.choice([0, 1, 4, 8, 9, 13]) if bench.has_cfg else 0
        gp = rng.choice([0.0, 0.0, 0.2, 0.5])
        if r < 0.55:
            m = rng.choice([1, det_n - 1, det_n, det_n, det_n + 1, 2 * det_n, 2 * det_n + 1, max(1, det_n // 2)])
            for si in range(max(m, 1)):
                if bench.has_cfg and rng.random() < 0.15:
                    c = rng.choice([0, 1, 4, 8, 9, 13])
                emit_set("m", c, gp)
                if rng.random() < gp:
                    gap(rng.choice([1, 2, 5]))
        elif r < 0.9:
            for _ in range(rng.choice([1, 1, 2])):
                emit_set(rng.choice(kinds[1:]), c, gp)
                if rng.random() < 0.4 and (not counting or "gap_foreign" in hazards):
                    gap(rng.choice([1, 2]))
        elif r < 0.93 and "adjacent" in hazards:
            # truncated set: its first j words, the next set's first word arriving in place of word j + 1
            for w in ts_words(bench, "g%d" % rng.randrange(1, L), rng, c):
                out.append(w)
            counting, gapped = False, False
            for _ in range(rng.choice([1, det_n])):
                emit_set("m", c, 0.0)
        elif r < 0.96 and not (after_break and "adjacent" not in hazards):
            # fragment of a set cut off by a foreign word, the next set following directly
            j = rng.randrange(1, L)
            for w in ts_words(bench, "f%d" % j, rng, c):
                out.append(w)
            after_break, gapped, counting = True, False, False
            if "adjacent" not in hazards:
                gap(1)
        else:   # stray foreign word, not set-aligned
            if counting and gapped and "gap_foreign" not in hazards:
                continue
            w = word(rng.getrandbits(32), rng.choice([0, 0, 1]))
            if w["d"] != sw[0]["d"]:
                out.append(w)
                after_break, gapped, counting = True, False, False
    gap(4)
    return out


def ts_replay(trace, bench, det_n):
    """Ideal detector replayed over a recorded trace (classification of rejections only): for every cycle, how
    the count was last voided and whether the current run began in the cycle after a breaking word."""
    sw = bench.set_words
    L = len(sw)

    def is_word(w, k):
        if w["c"] != sw[k]["c"]:
            return False
        if bench.has_cfg and k == 1:
            return w["d"][2:] == sw[1]["d"][2:]
        return w["d"] == sw[k]["d"]
    k = cnt = 0
    info = []
    last_void = None          # "gap_foreign" if the last voiding word came after an idle gap at k = 0 with cnt > 0
    run_adjacent = True       # the run in progress began right after a breaking word / in the first cycle
    due_adjacent = False      # ... same, for the run that made the latest detection due
    prev_break = True
    prev_valid = False
    for r in trace:
        w = r["iw"]
        if w["v"]:
            if is_word(w, k):
                if k == 0 and cnt == 0:
                    run_adjacent = prev_break
                k += 1
                if k == L:
                    k, cnt = 0, (cnt + 1) % det_n
                    if cnt == 0:
                        due_adjacent = run_adjacent
                prev_break = False
            else:
                if cnt > 0 or k > 0:
                    last_void = "gap_foreign" if (k == 0 and not prev_valid) else "other"
                k, cnt = (1 if is_word(w, 0) else 0), 0
                prev_break = True
                if k == 1:
                    run_adjacent = True
        else:
            prev_break = False
        prev_valid = w["v"]
        info.append((last_void, due_adjacent))
    return info


_TS_BENCHES = {}


def classify_ts(trace, matched, status, meta):
    pattern = "other"
    bench = _TS_BENCHES.get((meta.get("set"), meta.get("emit_n"), meta.get("det_n"), meta.get("first_word_ctrl"),
                             meta.get("include_config")))
    if bench is not None and status in ("det_spurious", "det_missing") and 0 < matched <= len(trace):
        last_void, run_adjacent = ts_replay(trace[:matched], bench, meta["det_n"])[-1]
        if status == "det_spurious" and last_void == "gap_foreign":
            pattern = "run_not_voided_by_foreign_word_after_idle_gap"
        elif status == "det_missing" and run_adjacent:
            pattern = "set_right_after_breaking_word_not_counted"
    return {"clause": status, "pattern": pattern}


def check_C43(rep):
    quick = rep.tier == "quick"
    rng = rep.rng
    rep.rule = ("emitter bursts and detector word streams on real TSEmitter / TSBurstDetector instances, validated by "
                "TLC; distinct by (set, burst sizes, event kind or emitter hold mode, detections in the trace)")
    rep.assume("emitter: start rises only while idle (it may be held or dropped at any time; held over `done` starts "
               "the next burst), request bits change only while idle; up to 1 idle cycle before the first word is free")
    rep.assume("detector: `detected` 1..3 cycles after the last word; reported configuration = that of any counted set; "
               "any valid word that is not the next word of the set in progress voids the count (whole sets of another "
               "kind, near-miss sets, foreign words, set-aligned or not, behind an idle gap or not) and starts a new set "
               "if it is a first word; not-valid words are ignored everywhere")

    for sub, label in ([({"SetWords": "TinyWords", "FirstCtrl": 15, "HasCfg": "TRUE", "DetN": 2, "MaxSets": 4, "MaxGaps": 1, "MaxStray": 0}, "2-word sets of 5 kinds, x2"),
                        ({"SetWords": "TS2Words", "FirstCtrl": 15, "HasCfg": "TRUE", "DetN": 2, "MaxSets": 3, "MaxGaps": 1, "MaxStray": 0}, "TS2-shaped sets of 5 kinds, x2"),
                        ({"SetWords": "TinyWords", "FirstCtrl": 1, "HasCfg": "FALSE", "DetN": 1, "MaxSets": 3, "MaxGaps": 1, "MaxStray": 1}, "2-word sets, one K symbol in the first word (TSEQ-like), x1")]
                       + ([] if quick else [({"SetWords": "TinyWords", "FirstCtrl": 15, "HasCfg": "TRUE", "DetN": 2, "MaxSets": 5, "MaxGaps": 1, "MaxStray": 1}, "2-word sets, 5 sets"),
                                            ({"SetWords": "TinyWords", "FirstCtrl": 15, "HasCfg": "TRUE", "DetN": 3, "MaxSets": 5, "MaxGaps": 2, "MaxStray": 0}, "2-word sets x3")])):
        _mc(rep, "MCTsDetector", tlc.render_cfg(_cfg("MCTsDetector.cfg.tmpl"), sub), "MCTsDetector (%s)" % label, sub,
            allow_uncovered=("Stray",) if sub["MaxStray"] == 0 else ())
    for sub, label in [({"SetWords": "TS2Words", "FirstCtrl": 15, "HasCfg": "TRUE", "EmitN": 2, "MaxStartLat": 1, "MaxBursts": 2}, "TS2 x2"),
                       ({"SetWords": "TinyWords", "FirstCtrl": 15, "HasCfg": "TRUE", "EmitN": 3, "MaxStartLat": 1, "MaxBursts": 3}, "2-word set x3")]:
        _mc(rep, "MCTsEmitter", tlc.render_cfg(_cfg("MCTsEmitter.cfg.tmpl"), sub), "MCTsEmitter (%s)" % label, sub)

    # (set, emitter burst, detector burst, first_word_ctrl override, include_config override)
    configs = [("TS2Words", 3, 2, None, None), ("TS2Words", 16, 8, None, None), ("TS1Words", 16, 8, None, None),
               ("TS1Words", 2, 3, None, None), ("TS1InvWords", 2, 8, None, None),
               ("TSEQWords", 3, 32, None, None), ("TSEQWords", 2, 2, None, None), ("TSEQWords", 1, 1, None, None)]
    # parameter classes beyond the library's own instances: burst lengths 1, 2^k, 2^k +- 1, large; a first_word_ctrl
    # that is neither 1111 nor 0001; include_config on a TS1-shaped set and off on a TS2-shaped one; a 2-word set
    pool = [("TS1Words", 7, 9, None, None), ("TS1Words", 9, 7, None, None), ("TS2Words", 17, 15, None, None),
            ("TS2Words", 15, 17, None, None), ("TS1Words", 4, 4, 0b0011, None), ("TS1Words", 3, 2, None, True),
            ("TS2Words", 2, 2, None, False), ("TinyWords", 33, 31, None, None), ("TinyWords", 1, 16, 0b0101, None),
            ("TSEQWords", 5, 3, 0b1000, None), ("TS1Words", 1, 1, None, None), ("TS1InvWords", 8, 1, None, True)]
    if quick:
        k0 = (3 * rep.seed) % len(pool)
        configs += [pool[(k0 + i) % len(pool)] for i in range(3)]          # rotated by seed
    else:
        configs += pool + [("TS2Words", 5, 3, None, None), ("TSEQWords", 64, 4, None, None),
                           ("TinyWords", 65536, 4096, None, None)]
    # the transceiver as the library instantiates it: all four detectors on one sink, bursts looped back
    tb = TsTransceiverBench()
    tviews = {name: [] for name, _, _ in tb.VIEWS}
    for name, _, n_det in tb.VIEWS:
        for _ in range(1 if quick else 4):
            ws = ts_detector_stream(rng, tb.views[name], n_det, events=5, hazards=("adjacent", "gap_foreign"))
            for vn, tr in tb.run([{"iw": w} for w in ws]).items():
                tviews[vn].append((tr, {"dut": "TSTransceiver", "view": vn, "origin": "stream-for-" + name}))
    for kind, sets, L in (("ts1", 16, 4), ("ts2", 16, 4), ("tseq", 40, 8)):
        cfgbits = (rng.random() < 0.5, rng.random() < 0.5, rng.random() < 0.5)
        p_stall = rng.choice([0.0, 0.3])
        st = [{"iw": NOWORD}] + [{"loop": (kind,) + cfgbits, "rdy": rng.random() >= p_stall} for _ in range(int(sets * L * (1.6 if p_stall else 1.05)))]
        st += [{"iw": NOWORD}] * 6
        for vn, tr in tb.run(st).items():
            tviews[vn].append((tr, {"dut": "TSTransceiver", "view": vn, "origin": "loop-" + kind}))
    for name, _, n_det in tb.VIEWS:
        rep.add_eval(sum(len(t) for t, _ in tviews[name]))
        cfg = tlc.render_cfg(_cfg("TrainingSetsTrace.cfg.tmpl"),
                             {"SetWords": name, "FirstCtrl": tb.views[name].ctrl,
                              "HasCfg": "TRUE" if tb.views[name].has_cfg else "FALSE", "EmitN": 16, "DetN": n_det})
        validate_group(rep, SPEC_DIR, "TrainingSetsTrace", cfg, tviews[name], what_prefix="TSTransceiver ", classify=_guard())
        rep.nontriv(("transceiver", name, sum(r["det"] for t, _ in tviews[name] for r in t)))

    for set_name, emit_n, det_n, ctrl_o, cfg_o in configs:
        bench = TsBench(set_name, emit_n, det_n, ctrl_o, cfg_o)
        _TS_BENCHES[(set_name, emit_n, det_n, bench.ctrl, bench.has_cfg)] = bench
        L = len(bench.set_words)
        items = []
        extra_cfg = (set_name, emit_n, det_n, ctrl_o, cfg_o) in pool
        n_tr = ((1 if extra_cfg else 2) if quick else (4 if extra_cfg else 12))

        def add(recs, origin):
            rep.add_eval(len(recs))
            items.append((recs, {"set": set_name, "emit_n": emit_n, "det_n": det_n, "first_word_ctrl": bench.ctrl,
                                 "include_config": bench.has_cfg, "origin": origin}))
            rep.nontriv((set_name, emit_n, det_n, bench.ctrl, bench.has_cfg, origin, sum(r["det"] for r in recs),
                         sum(r["done"] for r in recs)))

        def feed(ws, origin):
            add(bench.run([dict(EM_IDLE, iw=w) for w in ws]), origin)
        def with_reset(lst, mk):
            """Clock-domain reset asserted for one cycle somewhere mid-operation (both units return to idle)."""
            if rng.random() < 0.35 and len(lst) > 6:
                lst = list(lst)
                lst.insert(rng.randrange(3, len(lst) - 2), mk())
            return lst
        if emit_n > 64 or det_n > 64:       # very long bursts: one burst looped into the detector, ready always
            st = [dict(EM_IDLE), dict(EM_IDLE, start=True)] + [dict(EM_IDLE)] * (emit_n * L + 8)
            add(bench.run(st, loop=True), "emitter->detector-long")
            cfg = tlc.render_cfg(_cfg("TrainingSetsTrace.cfg.tmpl"),
                                 {"SetWords": set_name, "FirstCtrl": bench.ctrl,
                                  "HasCfg": "TRUE" if bench.has_cfg else "FALSE", "EmitN": emit_n, "DetN": det_n})
            validate_group(rep, SPEC_DIR, "TrainingSetsTrace", cfg, items, classify=_guard(classify_ts),
                           what_prefix="TSEmitter/TSBurstDetector ", timeout=1800)
            continue
        for _ in range(n_tr):
            # emitter alone + looped into the detector
            st = ts_emitter_stim(rng, L, emit_n, bursts=rng.randrange(1, 4), has_cfg=bench.has_cfg)
            st = with_reset(st, lambda: dict(EM_IDLE, rst=True))
            if any(x["rst"] for x in st):      # a burst re-started after the reset (start still held) must be able to drain
                st = st + [dict(EM_IDLE)] * (emit_n * L + 8)
            add(bench.run(st, loop=True), "emitter->detector")
            # detector on streams composed of whole sets of several kinds, gaps, stray words
            ws = ts_detector_stream(rng, bench, det_n, events=rng.randrange(4, 10) if det_n <= 8 else 4,
                                    hazards=("adjacent", "gap_foreign") if rng.random() < 0.5 else ())
            st = with_reset([dict(EM_IDLE, iw=w) for w in ws], lambda: dict(EM_IDLE, iw=NOWORD, rst=True))
            add(bench.run(st), "detector-stream")
        # runs of matching sets split by whole sets of another kind / near-miss sets, back to back and with idle
        # gaps between the sets:  a x M, b x other, (N - a) x M  must not be reported;  then N x M must be
        for kind in ["o"] + ["n%d" % k for k in range(0, L)] + ["f%d" % k for k in range(1, L)] + ["g%d" % k for k in range(1, L)]:
            for gapped in ((rng.random() < 0.5,) if (extra_cfg and quick) else (False, True)):
                a = rng.randrange(1, det_n) if det_n > 1 else 1
                ws = [NOWORD]
                seq = ["m"] * a + [kind] * rng.choice([1, 2]) + ["m"] * (det_n - a if det_n > 1 else 0)
                seq += [kind] + ["m"] * det_n
                prev = None
                for q in seq:
                    brk_last = False      # (sets may follow a breaking word directly since the detector was repaired)
                    if (gapped and prev is not None and q != "x") or brk_last:
                        ws += [NOWORD] * (rng.choice([1, 2]) if gapped else 1)
                    ws += ts_words(bench, q, rng, 9 if bench.has_cfg else 0)
                    prev = q
                feed(ws + [NOWORD] * 5, "split-run-%s%s" % (kind, "-gaps" if gapped else ""))
        # witness stimuli of the two open findings (accepted once the detector is repaired)
        for _ in range(2 if quick else 8):
            a = rng.randrange(1, det_n) if det_n > 1 else 1
            ws = [NOWORD]
            for q in ["m"] * a:
                ws += ts_words(bench, q, rng)
            ws += [NOWORD] * rng.choice([1, 3]) + rng.choice([ts_words(bench, "x", rng), [word(rng.getrandbits(32) | 1, 0)]])
            ws += [NOWORD] * rng.choice([1, 2])
            for q in ["m"] * max(det_n - a, 1):
                ws += ts_words(bench, q, rng)
            feed(ws + [NOWORD] * 5, "witness-foreign-after-gap")
            ws = [NOWORD] + ts_words(bench, "n%d" % (L - 1), rng)
            for q in ["m"] * det_n:
                ws += ts_words(bench, q, rng)
            feed(ws + [NOWORD] * 5, "witness-set-right-after-break")
            feed(ts_detector_stream(rng, bench, det_n, events=6, hazards=("adjacent", "gap_foreign")), "witness-stream")
        cfg = tlc.render_cfg(_cfg("TrainingSetsTrace.cfg.tmpl"),
                             {"SetWords": set_name, "FirstCtrl": bench.ctrl,
                              "HasCfg": "TRUE" if bench.has_cfg else "FALSE", "EmitN": emit_n, "DetN": det_n})
        validate_group(rep, SPEC_DIR, "TrainingSetsTrace", cfg, items, classify=_guard(classify_ts),
                       what_prefix="TSEmitter/TSBurstDetector ")
        if items and len(rep.samples) < 3:
            rep.sample({"config": items[0][1], "records": [r for r in items[0][0] if r["ow"]["v"] or r["det"]][:6]})


# ================================================================================================
# C44  idle handshake and U0 link timers
# ================================================================================================
class IdleBench:
    def __init__(self):
        use_repo()
        from luna.gateware.usb.usb3.link.idle import IdleHandshakeHandler
        self.dut = IdleHandshakeHandler()
        top, self.rst = with_ss_domain(self.dut)
        self.sim = StepSim(top)

    def run(self, stim, reset_at=()):
        dut = self.dut
        recs = []

        async def bench(ctx):
            for i, (en, w) in enumerate(stim):
                ctx.set(self.rst, int(i in reset_at))
                ctx.set(dut.enable, int(en))
                set_word(ctx, dut.sink, w)
                recs.append({"en": bool(en), "iw": w, "cpl": bool(ctx.get(dut.idle_handshake_complete)),
                             "rst": i in reset_at})
                await ctx.tick("ss")
        self.sim.run(bench)
        return recs


IDLEW = word(0, 0)


def idle_stim(rng, n, clean):
    """(enable, word) per cycle.  clean: not-valid words never look like logical idle (the open finding's
    trigger) and the first word after reset is not idle (the reset value of the handler's word register is)."""
    def nonidle():
        return rng.choice([word(rng.getrandbits(32) | 1, 0), word(0, rng.choice([1, 8, 15])), word(1 << rng.randrange(32), 0)])

    def invalid():
        if clean or rng.random() < 0.3:
            return dict(nonidle(), v=False)
        return dict(IDLEW, v=False)
    out = [(rng.random() < 0.5, nonidle() if clean else rng.choice([IDLEW, dict(IDLEW, v=False)]))]
    en = out[0][0]
    while len(out) < n:
        mood = rng.choice(["idle_run", "one_idle", "noise", "gappy_idle", "toggle", "short_enable"])
        if mood == "toggle":
            en = not en
            out.append((en, rng.choice([IDLEW, nonidle()])))
        elif mood == "short_enable":        # enabled for 1..4 cycles with idle flowing, then off
            for _ in range(rng.randrange(1, 5)):
                out.append((True, IDLEW))
            en = False
            out.append((en, IDLEW))
        elif mood == "idle_run":
            for _ in range(rng.randrange(2, 8)):
                out.append((en, IDLEW))
        elif mood == "one_idle":
            out.append((en, IDLEW))
            out.append((en, nonidle()))
        elif mood == "gappy_idle":
            for _ in range(rng.randrange(1, 4)):
                out.append((en, IDLEW))
                for _ in range(rng.randrange(0, 3)):
                    out.append((en, invalid()))
        else:
            for _ in range(rng.randrange(1, 6)):
                out.append((en, rng.choice([nonidle(), invalid()])))
    return out[:n]


class TimersBench:
    def __init__(self, freq):
        use_repo()
        from luna.gateware.usb.usb3.link.timers import LinkMaintenanceTimers
        self.dut = LinkMaintenanceTimers(ss_clock_frequency=freq)
        top, self.rst = with_ss_domain(self.dut)
        self.sim = StepSim(top)

    def run(self, script, rng):
        """script: list of events {"dt": quiet cycles before, "en", "rx", "pkt", "tx"} (inputs of one cycle);
        "answer": after a schedule_keepalive strobe, transmit a link command that many cycles later (None: never)."""
        dut = self.dut
        recs = []

        async def bench(ctx):
            en = 0
            pending_tx = None

            def cycle(rx=0, pkt=0, tx=0, rst=0):
                ctx.set(self.rst, rst)
                ctx.set(dut.enable, en)
                ctx.set(dut.link_command_received, rx)
                ctx.set(dut.packet_received, pkt)
                ctx.set(dut.link_command_transmitted, tx)
                r = {"n": 1, "en": bool(en), "rx": bool(rx), "pkt": bool(pkt), "tx": bool(tx), "rst": bool(rst),
                     "ka": bool(ctx.get(dut.schedule_keepalive)), "rec": bool(ctx.get(dut.transition_to_recovery))}
                if recs and recs[-1]["n"] >= 1 and all(recs[-1][k] == r[k] for k in ("en", "rx", "pkt", "tx", "ka", "rec")) \
                        and not (r["rx"] or r["pkt"] or r["tx"] or r["ka"] or r["rec"] or r["rst"] or recs[-1]["rst"]):
                    recs[-1]["n"] += 1
                else:
                    recs.append(r)
                return r
            for ev in script:
                for _ in range(ev.get("dt", 0)):
                    tx = 0
                    if pending_tx is not None:
                        if pending_tx == 0:
                            tx, pending_tx = 1, None
                        else:
                            pending_tx -= 1
                    r = cycle(tx=tx)
                    if r["ka"] and pending_tx is None and ev.get("answer") is not None:
                        pending_tx = ev["answer"]
                    await ctx.tick("ss")
                if "en" in ev:
                    en = int(ev["en"])
                r = cycle(rx=int(ev.get("rx", 0)), pkt=int(ev.get("pkt", 0)), tx=int(ev.get("tx", 0)), rst=int(ev.get("rst", 0)))
                if r["ka"] and ev.get("answer") is not None:
                    pending_tx = ev["answer"]
                await ctx.tick("ss")
        self.sim.run(bench)
        return recs


def timers_script(rng, K, R, length):
    """Events placed around the thresholds: link commands sent / received just before, at and after the
    keepalive interval K and the recovery timeout R; disable / enable; unanswered keepalives."""
    sc = [{"dt": rng.randrange(0, 3), "en": True}]
    t = 0
    while t < length:
        kind = rng.choice(["tx_near_K", "rx_near_R", "answering", "silence_R", "disable", "burst", "pkt_near_R", "reset"])
        ans = rng.choice([0, 0, 1, 2, 5, None])
        if kind == "tx_near_K":
            dt = max(0, K + rng.choice([-3, -2, -1, 0, 1, 2, 5]))
            sc.append({"dt": dt, "tx": 1, "answer": ans})
        elif kind in ("rx_near_R", "pkt_near_R"):
            dt = max(0, R + rng.choice([-3, -2, -1, 0, 1, 3]))
            sc.append({"dt": dt, "rx": int(kind == "rx_near_R"), "pkt": int(kind != "rx_near_R"), "answer": rng.choice([0, 1, 3])})
        elif kind == "answering":
            sc.append({"dt": rng.randrange(K, 4 * K + 2), "answer": rng.choice([0, 1, 2, 5]), "tx": rng.randrange(2)})
        elif kind == "silence_R":
            sc.append({"dt": R + rng.randrange(2, 12), "answer": rng.choice([0, 1, None])})
            sc.append({"dt": 0, "en": False})
            sc.append({"dt": rng.randrange(0, 4), "en": True, "rx": rng.randrange(2)})
        elif kind == "reset":        # clock-domain reset mid-count: both timers start over
            sc.append({"dt": rng.choice([rng.randrange(0, K + 2), max(0, R - rng.randrange(1, 5))]), "rst": 1, "answer": ans})
        elif kind == "disable":
            sc.append({"dt": rng.randrange(0, K + 2), "en": False, "tx": rng.randrange(2), "rx": rng.randrange(2)})
            sc.append({"dt": rng.randrange(0, 4), "en": True})
        else:
            for _ in range(rng.randrange(2, 6)):
                sc.append({"dt": rng.randrange(0, 3), "tx": rng.randrange(2), "rx": rng.randrange(2), "pkt": rng.randrange(2), "answer": ans})
        t += sc[-1].get("dt", 0) + 1
    sc.append({"dt": 3})
    return sc


def classify_idle(trace, matched, status, meta):
    k = matched
    pattern = "other"
    if status == "idle_complete_without_8_valid_idle_symbols":
        zeros = [r for r in trace[:k] if not r["iw"]["v"] and r["iw"]["d"] == [0, 0, 0, 0] and r["iw"]["c"] == 0]
        first_idle = trace[0]["iw"]["v"] and trace[0]["iw"]["d"] == [0, 0, 0, 0] and trace[0]["iw"]["c"] == 0
        if zeros:
            pattern = "not_valid_zero_words_counted_as_idle"
        elif first_idle:
            pattern = "reset_value_of_word_register_counted_as_idle"
    return {"clause": status, "pattern": pattern}


def check_C44(rep):
    quick = rep.tier == "quick"
    rng = rep.rng
    rep.rule = ("cycles of the real IdleHandshakeHandler / LinkMaintenanceTimers validated by TLC; distinct by "
                "(module, clock, outcome events: completions, keepalives scheduled, recovery requests, event kinds)")
    rep.assume("idle handshake: safety only (complete => 16 symbols sent since enable and 8 consecutive valid idle "
               "symbols received, the last of them while enabled); not-valid words are no symbols")
    rep.assume("timers: keepalive interval 10 us and recovery timeout 1 ms in cycles of the constructor's clock; "
               "keepalive due in the interval's last cycle +-1 cycle, recovery due then or one cycle later, never earlier; "
               "after a timer fired and before it is re-armed (link command sent / received, disable) further strobes are free")

    _mc(rep, "MCIdleHandshake", tlc.render_cfg(_cfg("MCIdleHandshake.cfg.tmpl"), {"MaxCycles": 7 if quick else 8}),
        "MCIdleHandshake (all enable / word-class schedules)", {"MaxCycles": 7 if quick else 8})
    for K, R in ([(3, 5), (2, 4)] if quick else [(3, 5), (2, 4), (4, 9), (5, 7)]):
        _mc(rep, "MCLinkTimers", tlc.render_cfg(_cfg("MCLinkTimers.cfg.tmpl"), {"KeepCycles": K, "RecCycles": R}),
            "MCLinkTimers (scaled KeepCycles=%d RecCycles=%d)" % (K, R), {"KeepCycles": K, "RecCycles": R})

    # ---- idle handshake -----------------------------------------------------------------------------------
    ib = IdleBench()
    clean, witness = [], []
    for k in range(30 if quick else 200):
        recs = ib.run(idle_stim(rng, 120, clean=True), reset_at=set(rng.sample(range(5, 115), rng.choice([0, 1, 2]))))
        rep.add_eval(len(recs))
        clean.append((recs, {"dut": "IdleHandshakeHandler", "class": "clean"}))
        rep.nontriv(("idle", "clean", sum(1 for a, b in zip(recs, recs[1:]) if b["cpl"] and not a["cpl"])))
    # structured: enabled exactly 1..6 cycles with idle flowing; one idle word only; idle before enable only
    for n_en in range(1, 8):
        for pre in (0, 1, 3):
            st = [(False, word(5, 0))] + [(False, IDLEW)] * pre + [(True, IDLEW)] * n_en + [(False, IDLEW)] * 2
            recs = ib.run(st)
            rep.add_eval(len(recs))
            clean.append((recs, {"dut": "IdleHandshakeHandler", "class": "clean-structured"}))
    # clock-domain reset after the handshake completed, enable held: it must be earned again from scratch
    for k in (0, 1, 3, 6):
        st = [(True, word(7, 0))] + [(True, IDLEW)] * 3 + [(True, word(9, 0))] * (k + 2)
        recs = ib.run(st + [(True, word(9, 0))] * 8 + [(True, IDLEW)] * 3, reset_at={len(st) - 1})
        rep.add_eval(len(recs))
        clean.append((recs, {"dut": "IdleHandshakeHandler", "class": "clean-reset-after-complete"}))
    for k in range(10 if quick else 60):
        recs = ib.run(idle_stim(rng, 60, clean=False))
        rep.add_eval(len(recs))
        witness.append((recs, {"dut": "IdleHandshakeHandler", "class": "witness"}))
    for pre in (0, 2):          # a single valid idle word in the first cycle after reset, nothing idle afterwards
        st = [(pre == 0, IDLEW)] + [(False, word(3, 0))] * pre + [(True, word(9, 0))] * 7
        recs = ib.run([(True, IDLEW)] + [(True, word(9, 0))] * 7 if pre == 0 else st)
        rep.add_eval(len(recs))
        witness.append((recs, {"dut": "IdleHandshakeHandler", "class": "witness-reset-value"}))
    cfg = _cfg("IdleHandshakeTrace.cfg.tmpl")
    validate_group(rep, SPEC_DIR, "IdleHandshakeTrace", cfg, clean, classify=_guard(classify_idle), what_prefix="(clean stimuli) ")
    validate_group(rep, SPEC_DIR, "IdleHandshakeTrace", cfg, witness, classify=_guard(classify_idle))
    ncpl = sum(1 for t, _ in clean for a, b in zip(t, t[1:]) if b["cpl"] and not a["cpl"])
    rep.notes.append("idle handshakes completed in clean traces: %d" % ncpl)
    if ncpl == 0:
        raise tlc.TLCError("vacuous: the idle handshake never completed in any clean trace")

    # ---- link maintenance timers ---------------------------------------------------------------------------
    # ss_clock_frequency classes: cycle counts at powers of two and 2^k +- 1 (keepalive 2, 8, 16, 7, 9, 15, 17; recovery
    # 512, 1024, 2048, 511, 513, 1023, 1025), rotated by seed in quick, all in thorough
    fpool = [0.2e6, 0.8e6, 1.6e6, 0.9e6, 1.5e6, 1.7e6, 0.512e6, 1.024e6, 2.048e6, 0.511e6, 0.513e6, 1.023e6, 1.025e6]
    k0 = (2 * rep.seed) % len(fpool)
    extra = [(fpool[(k0 + i) % len(fpool)], 2) for i in range(2)] if quick else [(f, 1) for f in fpool]
    clocks = extra + [(1e6, 4 if quick else 6), (3e6, 3), (0.7e6, 3)] + ([(125e6, 1)] if quick else [(125e6, 1), (10e6, 2)])      # thorough runs 3x as many traces per clock
    nka = nrec = 0
    for freq, ntr in clocks:
        K = int(10 * freq) // 10 ** 6            # 10 us and 1 ms in cycles (from the property, not from the module)
        R = int(freq) // 1000
        tb = TimersBench(freq)
        items = []
        for _ in range(ntr if quick else 3 * ntr):
            recs = tb.run(timers_script(rng, K, R, length=(4 if freq < 1e8 else 1.3) * R), rng)
            rep.add_eval(sum(r["n"] for r in recs))
            items.append((recs, {"dut": "LinkMaintenanceTimers", "clock_hz": freq, "KeepCycles": K, "RecCycles": R}))
            nka += sum(r["ka"] for r in recs)
            nrec += sum(r["rec"] for r in recs)
            rep.nontriv(("timers", freq, sum(r["ka"] for r in recs), sum(r["rec"] for r in recs)))
        cfg = tlc.render_cfg(_cfg("LinkTimersTrace.cfg.tmpl"), {"KeepCycles": K, "RecCycles": R})
        validate_group(rep, SPEC_DIR, "LinkTimersTrace", cfg, items, steps_of=lambda t: len(t),
                       what_prefix="LinkMaintenanceTimers ", classify=_guard())
        if len(rep.samples) < 4:
            rep.sample({"clock_hz": freq, "KeepCycles": K, "RecCycles": R, "records": items[0][0][:8]})
    rep.notes.append("keepalives scheduled: %d, recovery requests: %d in validated timer traces" % (nka, nrec))
    if nka == 0 or nrec == 0:
        raise tlc.TLCError("vacuous: timers never fired in the recorded traces")


CHECKS = {"C35": check_C35, "C36": check_C36, "C40": check_C40, "C43": check_C43, "C44": check_C44}
