---------------------------- MODULE UlpiCommon ----------------------------
(***************************************************************************)
(* Byte-field helpers and the ULPI 1.1 encodings used by the three ULPI    *)
(* specifications (UlpiRx, UlpiTx, UlpiReg).  Written from the ULPI 1.1    *)
(* specification: RxCmd byte (Table 7), transmit command byte (Table 4/5), *)
(* Function Control (0x04) and OTG Control (0x0A) register maps.           *)
(***************************************************************************)
EXTENDS Naturals, Sequences

Bit(b, k)      == (b \div (2 ^ k)) % 2
Field(b, k, n) == (b \div (2 ^ k)) % (2 ^ n)        \* n bits starting at bit k

(* ---- link -> PHY command bytes: bits 7:6 select the command ---- *)
CmdKind(b) == Field(b, 6, 2)          \* 0 = NOP/idle, 1 = transmit, 2 = register write, 3 = register read
TxCmdNoPid    == 64                   \* 01 000000
TxCmdPid(pid) == 64 + (pid % 16)      \* 01 00 pppp : low nibble of the PID byte
RegWriteCmd(a) == 128 + a             \* 10 aaaaaa
RegAddr(b)     == b % 64

(* ---- RxCmd byte ---- *)
RxLineState(b) == Field(b, 0, 2)
RxVbus(b)      == Field(b, 2, 2)      \* 0 SessEnd, 1 (none), 2 SessValid, 3 VbusValid
RxEvent(b)     == Field(b, 4, 2)      \* 0 none, 1 RxActive, 3 RxActive+RxError, 2 HostDisconnect
RxActiveBit(b) == Bit(b, 4) = 1
RxIdBit(b)     == Bit(b, 6)

(* ---- PHY registers as functions of the UTMI-side control inputs ---- *)
\* Function Control: [1:0] XcvrSelect, [2] TermSelect, [4:3] OpMode, [5] Reset, [6] SuspendM (active low)
FunctionControl(c) == c.xcvr + 4 * c.term + 8 * c.opm + 64 * (1 - c.susp)
\* OTG Control: [0] IdPullup, [1] DpPulldown, [2] DmPulldown, [3] DischrgVbus, [4] ChrgVbus,
\*              [5] DrvVbus, [6] DrvVbusExternal, [7] UseExternalVbusIndicator
OtgControl(c) == c.idpu + 2 * c.dppd + 4 * c.dmpd + 8 * c.dischrg + 16 * c.chrg + 128 * c.extvbus

FunctionControlAddr == 4
OtgControlAddr      == 10
FunctionControlReset == 65            \* 0x41
OtgControlReset      == 6             \* 0x06

(* UTMI operating modes *)
OpModeNormal     == 0
OpModeNoBitStuff == 2

Max(a, b) == IF a > b THEN a ELSE b
Min(a, b) == IF a < b THEN a ELSE b
=============================================================================
