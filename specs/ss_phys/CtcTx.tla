-------------------------------- MODULE CtcTx --------------------------------
(***************************************************************************)
(* Reference specification of transmit clock-tolerance compensation         *)
(* (CTCSkipInserter and its wiring, property C33).  Grain: one clock cycle  *)
(* = one 4-symbol word taken from the link layer and one word handed to the *)
(* PHY (the transmit path never stalls).                                    *)
(*                                                                         *)
(*  Env : per cycle [w, idle]: the link layer's word and whether it is      *)
(*        logical-idle filler that may be replaced (can_send_skip).         *)
(*        Assumption IdleLegal: idle is only flagged on the idle word.      *)
(*  Ref : T counts transmitted symbols; one SKP ordered set (2 SKP symbols) *)
(*        is owed per Limit symbols, the remainder is carried over:         *)
(*          elapsed = T mod Limit (kept incrementally), owed = sets owed.   *)
(*        A SKP word (= two ordered sets) replaces the link word exactly    *)
(*        when the word is idle filler and owed >= 2 - i.e. at the first    *)
(*        idle opportunity; otherwise the link word goes out unchanged.     *)
(*        While a SKP word is inserted the scrambler is held.               *)
(*  Prop: (MCCtcTx) closed form owed + 2*inserted = T div Limit, only idle  *)
(*        is ever replaced, nothing dropped/reordered, insertion at every   *)
(*        opportunity, credit bounded for bounded bursts.                   *)
(***************************************************************************)
EXTENDS Naturals, Sequences

CONSTANT Limit                 \* symbols per owed SKP ordered set: 354 [USB3.2 6.4.3]

SKP  == 256 + 60
SKPW == <<SKP, SKP, SKP, SKP>>
IDLW == <<0, 0, 0, 0>>

IdleLegal(i) == i.idle => i.w = IDLW
\* Env assumption: bursts are bounded (<= 1416 symbols = 4 sets) and idle is offered often enough
\* afterwards, so that the debt never exceeds four sets plus the carry.
MaxOwed == 5

Insert(owed, i)     == i.idle /\ owed >= 2
Crossed(elapsed)    == elapsed + 4 >= Limit
ElapsedNext(elapsed) == IF Crossed(elapsed) THEN elapsed + 4 - Limit ELSE elapsed + 4
OwedNext(owed, elapsed, i) ==
    (owed + (IF Crossed(elapsed) THEN 1 ELSE 0)) - (IF Insert(owed, i) THEN 2 ELSE 0)
\* what the PHY is given for this link word (before scrambling)
OutWord(owed, i) == IF Insert(owed, i) THEN SKPW ELSE i.w
=============================================================================
