#!/usr/bin/env python3
"""usage: tools/seedtest_all.py [-j N] [name ...]  — run every seeded change (or the named ones) against the check(s) of its property."""
import json, os, subprocess, sys
from concurrent.futures import ThreadPoolExecutor
args = sys.argv[1:]
j = 4
if "-j" in args:
    i = args.index("-j"); j = int(args[i + 1]); del args[i:i + 2]
names = args or sorted(x for x in os.listdir("/verif/seeded") if os.path.isdir("/verif/seeded/" + x))
def run(n):
    d = "/verif/seeded/" + n
    meta = json.load(open(d + "/meta.json"))
    ids = meta.get("checks") or [meta["property"]]
    p = subprocess.run(["/verif/tools/seedtest.py", d + "/patch.diff"] + ids, stdout=subprocess.PIPE, stderr=subprocess.STDOUT, text=True)
    res = [l for l in p.stdout.splitlines() if ": exit=" in l]
    caught = [l.split(":")[0].strip() for l in res if "DETECTED" in l]
    if not res:          # the patch no longer applies to /repo HEAD (a later fix: commit rewrote its lines): keep the filed result
        return n, None, "%-8s patch does not apply to /repo HEAD any more (result kept as filed)" % n
    return n, caught, "%-8s %s" % (n, " ; ".join(res))
RP = "/verif/seeded/RESULTS.json"
results = json.load(open(RP)) if os.path.exists(RP) else {}
with ThreadPoolExecutor(j) as ex:
    for n, caught, line in ex.map(run, names):
        print(line, flush=True)
        if caught is None:
            continue
        e = results.setdefault(n, {})
        e["caught_by"] = ", ".join(caught) if caught else "MISSED"
        json.dump(results, open(RP, "w"), indent=1, sort_keys=True)
