------------------------------- MODULE FsPhy -------------------------------
(***************************************************************************)
(* Reference specification for property C25 -- the gateware full-speed PHY *)
(* (luna.gateware.interface.gateware_phy: TxPipeline, RxPipeline,          *)
(* GatewarePHY) encodes and decodes USB line signalling.                   *)
(*                                                                         *)
(* Written from the property statement, the GatewarePHY doc-string, the    *)
(* UTMI specification (op-mode encodings, TXValid/TXReady, RXActive/       *)
(* RXValid/RXError) and USB 2.0 chapter 7 (module LineCode).               *)
(*                                                                         *)
(* Grain: one step = one full-speed bit time on D+/D-.                     *)
(*   Env  : the packet handed to the transmitter (`vec.bytes`, any vector  *)
(*          of the bounded set Vectors) and, optionally, a channel fault   *)
(*          that turns the `vec.hit`-th stuffed zero into a one.           *)
(*   Ref  : a bit-serial transmitter (`tx`: shift queue, ones counter,     *)
(*          NRZI level, EOP sequencing) that puts one symbol per step on   *)
(*          `line`, and a bit-serial receiver (`rx`: NRZI decode, ones     *)
(*          counter / unstuff, SYNC check, byte assembly, active/error)    *)
(*          that consumes that symbol in the same step.                    *)
(*   Prop : the line equals the *functional* definition Encode(bytes);     *)
(*          the receiver returns exactly the bytes, framed by `active`;    *)
(*          a stuff violation raises `err`; transition density (7.1.9).    *)
(* The interface-level reference (what may be observed on the UTMI and io  *)
(* ports of the real PHY) is the constant-level part below; FsPhyTrace     *)
(* applies it, together with the two machines, to recorded executions.     *)
(***************************************************************************)
EXTENDS LineCode

CONSTANTS Alphabet,     \* byte alphabet of the exhaustive vector set
          MaxLen,       \* all sequences over Alphabet of length 1..MaxLen
          OnesRuns      \* plus runs of 0xFF of these lengths

-----------------------------------------------------------------------------
(* Interface-level reference: UTMI control inputs (UTMI 1.05 table 2;      *)
(* GatewarePHY doc-string).                                                *)
OpNormal     == 0     \* normal operation
OpNonDriving == 1     \* D+ / D- are not driven
OpNoEncoding == 2     \* bit stuffing and NRZI disabled
\* op_mode 3 is reserved.  The property constrains normal mode (line code) and non-driving
\* mode (never drive); what is driven in modes 2 and 3 is left free.
MayDrive(op) == op # OpNonDriving
PullUpRef(termSelect) == termSelect
PullDownRef(dpPulldown, dmPulldown) == dpPulldown \/ dmPulldown

-----------------------------------------------------------------------------
(* Env: the vectors. *)
Vectors == (UNION {[1..n -> Alphabet] : n \in 1..MaxLen}) \cup {[i \in 1..n |-> 255] : n \in OnesRuns}

Predicted(bytes, hit) == IF hit = 0 THEN Encode(bytes) ELSE EncodeStuffViolation(bytes, hit)

VARIABLES vec,    \* Env: [bytes, hit, syms] -- the packet, the corrupted stuff bit (0 = none),
                  \*      and the predicted line symbols (Encode / EncodeStuffViolation)
          tx,     \* Ref transmitter
          line,   \* symbols put on the wire so far, one per bit time
          rx      \* Ref receiver
vars == <<vec, tx, line, rx>>

-----------------------------------------------------------------------------
(* Ref transmitter: one bit time.  Returns the new state and the symbol.   *)
TxStart(bytes) == [st |-> "data", q |-> SyncBits \o BytesToBits(bytes), ones |-> 0, lvl |-> J, ns |-> 0]
TxIdle == [st |-> "done", q |-> <<>>, ones |-> 0, lvl |-> J, ns |-> 0]

\* kind of the next bit time
TxKind(t) == IF t.st = "data" THEN (IF t.q = <<>> THEN "se0a" ELSE "bit") ELSE t.st

\* corrupt = TRUE: the channel turns this stuffed zero into a one (only meaningful for kind "stuff")
TxBitTime(t, corrupt) ==
    LET k == TxKind(t) IN
    IF k = "bit" THEN
        LET b  == Head(t.q)
            l2 == IF b = 0 THEN Flip(t.lvl) ELSE t.lvl
            o2 == IF b = 1 THEN t.ones + 1 ELSE 0
        IN [t   |-> [t EXCEPT !.q = Tail(t.q), !.lvl = l2, !.ones = o2,
                              !.st = IF o2 = StuffAfter THEN "stuff" ELSE "data"],
            sym |-> l2]
    ELSE IF k = "stuff" THEN
        LET l2 == IF corrupt THEN t.lvl ELSE Flip(t.lvl)
        IN [t |-> [t EXCEPT !.lvl = l2, !.ones = 0, !.st = "data", !.ns = t.ns + 1], sym |-> l2]
    ELSE IF k = "se0a" THEN [t |-> [t EXCEPT !.st = "se0b"], sym |-> SE0]
    ELSE IF k = "se0b" THEN [t |-> [t EXCEPT !.st = "eopj"], sym |-> SE0]
    ELSE (* eopj *)         [t |-> [t EXCEPT !.st = "done", !.lvl = J], sym |-> J]

-----------------------------------------------------------------------------
(* Ref receiver: consumes one symbol per bit time.                          *)
(*   st: "sync" (collecting the first eight unstuffed bits), "data",        *)
(*       "eop2" / "eopj" (rest of the EOP), "done", "bad"                   *)
RxStart == [st |-> "sync", prev |-> J, ones |-> 0, cur |-> <<>>, bytes |-> <<>>,
            err |-> FALSE, active |-> FALSE]

RxShiftIn(r, bit) ==
    LET c2 == Append(r.cur, bit) IN
    IF Len(c2) < 8 THEN [r EXCEPT !.cur = c2]
    ELSE IF r.st = "sync"
         THEN IF c2 = SyncBits THEN [r EXCEPT !.cur = <<>>, !.st = "data", !.active = TRUE]
              ELSE [r EXCEPT !.st = "bad"]
         ELSE [r EXCEPT !.cur = <<>>, !.bytes = Append(r.bytes, ValLSB(c2))]

RxBitTime(r, sym) ==
    IF r.st \in {"sync", "data"} THEN
        IF sym \in {J, K} THEN
            LET bit == IF sym = r.prev THEN 1 ELSE 0
                r1  == [r EXCEPT !.prev = sym]
            IN IF r.ones = StuffAfter
               THEN IF bit = 1 THEN [r1 EXCEPT !.err = TRUE, !.ones = 0]     \* seventh one
                    ELSE [r1 EXCEPT !.ones = 0]                              \* stuffed zero discarded
               ELSE RxShiftIn([r1 EXCEPT !.ones = IF bit = 1 THEN r.ones + 1 ELSE 0], bit)
        ELSE IF sym = SE0 /\ r.st = "data" /\ (r.cur = <<>> \/ r.err)
             THEN [r EXCEPT !.st = "eop2", !.active = FALSE]
             ELSE [r EXCEPT !.st = "bad", !.active = FALSE]
    ELSE IF r.st = "eop2" THEN [r EXCEPT !.st = IF sym = SE0 THEN "eopj" ELSE "bad"]
    ELSE IF r.st = "eopj" THEN [r EXCEPT !.st = IF sym = J THEN "done" ELSE "bad"]
    ELSE r

-----------------------------------------------------------------------------
Init == /\ \E b \in Vectors : \E h \in 0..NumStuffed(b) :
               /\ vec = [bytes |-> b, hit |-> h, syms |-> Predicted(b, h)]
               /\ tx = TxStart(b)
        /\ line = <<>>
        /\ rx = RxStart

Emit(corrupt) == LET o == TxBitTime(tx, corrupt) IN
                 /\ tx' = o.t
                 /\ line' = Append(line, o.sym)
                 /\ rx' = RxBitTime(rx, o.sym)
                 /\ UNCHANGED vec

SendBit      == TxKind(tx) = "bit" /\ Emit(FALSE)
SendStuff    == TxKind(tx) = "stuff" /\ vec.hit # tx.ns + 1 /\ Emit(FALSE)
CorruptStuff == TxKind(tx) = "stuff" /\ vec.hit = tx.ns + 1 /\ Emit(TRUE)      \* Env: channel fault
SendSE0      == TxKind(tx) \in {"se0a", "se0b"} /\ Emit(FALSE)
SendEopJ     == TxKind(tx) = "eopj" /\ Emit(FALSE)

Next == SendBit \/ SendStuff \/ CorruptStuff \/ SendSE0 \/ SendEopJ
Spec == Init /\ [][Next]_vars

-----------------------------------------------------------------------------
(* Prop *)
Done == tx.st = "done"

\* the bit-serial transmitter follows the prediction symbol by symbol ...
LineFollowsPrediction == IsPrefixOf(line, vec.syms) /\ (Done => Len(line) = Len(vec.syms))
\* ... and the functional definition of the property: SYNC, NRZI(bit-stuffed LSB-first bits), SE0 SE0 J
TxIsEncode == Done /\ vec.hit = 0 => line = Encode(vec.bytes)

\* every packet is delivered as exactly its bytes; machine and functional decoder agree
RoundTrip == Done /\ vec.hit = 0 =>
                 /\ rx.st = "done" /\ rx.bytes = vec.bytes /\ ~rx.err /\ ~rx.active
                 /\ Decode(line) = [ok |-> TRUE, bytes |-> vec.bytes, why |-> "none"]

\* a bit-stuffing violation is reported as an error
StuffViolationReported == Done /\ vec.hit > 0 => rx.err /\ Decode(line).why = "stuff"
NoFalseError == vec.hit = 0 => ~rx.err

\* 7.1.9: at least one transition every seven bit times
TransitionDensity == vec.hit = 0 => MaxHold(line) <= StuffAfter + 1
\* the same, as a constant-cost condition on the newest symbols (an invariant of every prefix)
RecentTransition ==
    vec.hit = 0 /\ Len(line) >= StuffAfter + 2 =>
        \E i \in (Len(line) - StuffAfter - 1)..Len(line) : line[i] # line[Len(line)] \/ line[i] \notin {J, K}

\* receive-active framing: bytes are delivered only while active, active only after a full SYNC
Framing == /\ (rx.active => rx.st = "data")
           /\ (rx.st = "sync" => rx.bytes = <<>> /\ ~rx.active)
BytesOnlyWhileActive == [][rx'.bytes # rx.bytes => rx.active /\ rx'.active]_vars
BytesAppendOnly == [][IsPrefixOf(rx.bytes, rx'.bytes) /\ Len(rx'.bytes) <= Len(rx.bytes) + 1]_vars

\* while the packet is good the receiver has delivered exactly the bytes whose last bit is on the wire
DeliveredSoFar == vec.hit = 0 /\ rx.st = "data" => IsPrefixOf(rx.bytes, vec.bytes)

TypeOK == /\ line \in Seq(LineSymbols)
          /\ tx.st \in {"data", "stuff", "se0b", "eopj", "done"}
          /\ tx.ones \in 0..StuffAfter /\ rx.ones \in 0..StuffAfter
          /\ rx.st \in {"sync", "data", "eop2", "eopj", "done", "bad"}
=============================================================================
