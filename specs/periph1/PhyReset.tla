------------------------------ MODULE PhyReset ------------------------------
(***************************************************************************)
(* Reference specification of luna.gateware.architecture.car               *)
(* .PHYResetController (property C54), written from the doc-string and the *)
(* property.  The property is about the sequencing and the exact lengths   *)
(* of two pulses, so Ref is a three-phase sequencer with explicit counts.  *)
(*                                                                         *)
(* Grain: one step = one clock cycle.                                      *)
(*   Env  : the trigger input of the cycle (any value in any cycle) and the *)
(*          reset of the controller's clock domain (asserted at any cycle,  *)
(*          held for any number of cycles; e.g. ~pll_lock): while it is     *)
(*          held the outputs show the power-on state, and after its release *)
(*          the controller behaves as from power-on.                        *)
(*   Ref  : ph  = phase shown by the outputs in the cycle just taken       *)
(*          cnt = cycles spent in ph so far (the cycle just taken included)*)
(*          phy_reset = (ph = "reset"),  phy_stop = (ph # "idle").         *)
(*   Prop : reset pulse exactly R cycles, STP through the reset and exactly*)
(*          S cycles more, then idle; always finishes; re-triggerable.     *)
(*                                                                         *)
(* Freedom left to the implementation (the property does not fix it):      *)
(*   - a trigger seen in an idle cycle starts the reset 1..MaxLat cycles   *)
(*     later (`due` counts the cycles since that trigger);                 *)
(*   - a trigger that arrives while a sequence is running may be ignored   *)
(*     or remembered: if remembered, the new sequence starts within MaxLat *)
(*     cycles of the return to idle (`opt` = cycles left for that).        *)
(***************************************************************************)
EXTENDS Naturals

CONSTANTS MaxR, MaxS,   \* largest pulse lengths considered
          MaxLat        \* a trigger seen while idle is honoured within 1..MaxLat cycles

VARIABLES R, S,     \* configuration: reset / stop length in cycles
          por,      \* configuration: power-on reset
          ph,       \* "boot" (before the first cycle) | "reset" | "stop" | "idle"
          cnt,      \* cycles spent in ph, including the cycle just taken (kept 0 while idle)
          trg,      \* Env: trigger input of the cycle just taken
          rst,      \* Env: the clock domain's reset was asserted in the cycle just taken
          due,      \* 0, or cycles since an idle-time trigger that has not started its reset yet
          seen,     \* a trigger was seen while the running sequence was in progress
          opt       \* cycles left in which a remembered trigger may still start a sequence

vars == <<R, S, por, ph, cnt, trg, rst, due, seen, opt>>

PhyReset == ph = "reset"
PhyStop  == ph \in {"reset", "stop"}

InitCfg(r, s, p) ==
    /\ R = r /\ S = s /\ por = p
    /\ ph = "boot" /\ cnt = 0 /\ trg = FALSE /\ rst = FALSE /\ due = 0 /\ seen = FALSE /\ opt = 0

Init == \E r \in 1..MaxR, s \in 1..MaxS, p \in BOOLEAN : InitCfg(r, s, p)

\* The phases the next cycle may show.
Allowed ==
    CASE rst \/ ph = "boot" -> IF por THEN {"reset"} ELSE {"idle"}     \* as from power-on
      [] ph = "reset" -> IF cnt < R THEN {"reset"} ELSE {"stop"}
      [] ph = "stop"  -> IF cnt < S THEN {"stop"} ELSE {"idle"}
      [] ph = "idle"  -> IF due > 0 THEN {"reset"} \cup (IF due < MaxLat THEN {"idle"} ELSE {})
                         ELSE IF opt > 0 THEN {"idle", "reset"}
                         ELSE {"idle"}

\* One clock cycle: the cycle shows phase p and carries trigger input t and domain-reset input x.
\* A cycle in which the domain reset is asserted does not count (cnt = 0): the cycle after it shows
\* the power-on state again and, once the reset is released, the pulse lengths are counted afresh.
Step(t, x, p) ==
    /\ p \in Allowed
    /\ ph' = p
    /\ cnt' = IF p = "idle" \/ x THEN 0
              ELSE IF rst THEN 1
              ELSE IF p = ph THEN cnt + 1 ELSE 1
    /\ trg' = t
    /\ rst' = x
    /\ due' = IF p # "idle" \/ x THEN 0
              ELSE IF due > 0 THEN due + 1
              ELSE IF t THEN 1 ELSE 0
    /\ seen' = IF p = "idle" \/ x THEN FALSE
               ELSE IF p = "reset" /\ (ph # "reset" \/ rst) THEN t
               ELSE seen \/ t
    /\ opt' = IF p # "idle" \/ x THEN 0
              ELSE IF ph = "stop" /\ ~rst THEN (IF seen THEN MaxLat ELSE 0)
              ELSE IF opt > 0 THEN opt - 1 ELSE 0
    /\ UNCHANGED <<R, S, por>>

Next == \E t \in BOOLEAN, x \in BOOLEAN, p \in {"reset", "stop", "idle"} : Step(t, x, p)

Spec == Init /\ [][Next]_vars
FairSpec == Spec /\ WF_vars(Next)

-----------------------------------------------------------------------------
(* Prop *)
TypeOK == /\ R \in 1..MaxR /\ S \in 1..MaxS /\ por \in BOOLEAN
          /\ ph \in {"boot", "reset", "stop", "idle"}
          /\ cnt \in 0..(IF MaxR > MaxS THEN MaxR ELSE MaxS) + 1
          /\ due \in 0..MaxLat /\ opt \in 0..MaxLat

\* STP is asserted whenever the PHY reset is.
StopCoversReset == PhyReset => PhyStop

\* The reset pulse lasts exactly R cycles and is followed by the stop phase.
ResetNeverLonger == ph = "reset" => cnt <= R
ResetExact == [][(ph = "reset" /\ ph' # "reset" /\ ~rst) => (cnt = R /\ ph' = "stop")]_vars
\* ... also when it (re)starts because the clock domain was reset: counted from the release of that reset.
ResetExactAfterDomainReset == [][(rst /\ ~rst' /\ por) => (ph' = "reset" /\ cnt' = 1)]_vars

\* STP stays asserted exactly S cycles after the reset, then the controller is idle.
StopNeverLonger == ph = "stop" => cnt <= S
StopExact == [][(ph = "stop" /\ ph' # "stop" /\ ~rst) => (cnt = S /\ ph' = "idle")]_vars

\* A reset pulse only ever starts at power-on or because of a trigger.
ResetHasCause == [][(ph' = "reset" /\ ph # "reset") =>
                      (((ph = "boot" \/ rst) /\ por) \/ (ph = "idle" /\ (due > 0 \/ opt > 0)))]_vars
\* The stop phase only ever follows a reset pulse.
StopFollowsReset == [][(ph' = "stop" /\ ph # "stop") => (ph = "reset" /\ ~rst)]_vars

\* Every sequence finishes (for every pair of lengths, including S > R) ...
\* (unless the environment keeps resetting the clock domain for ever)
AlwaysFinishes == ([]<>rst) \/ ((ph \in {"reset", "stop"}) ~> (ph = "idle"))
\* ... and the idle controller is ready for the next trigger.
Retriggerable == (ph = "idle" /\ trg /\ ~rst) ~> (ph = "reset" \/ rst)
PowerOnReset == (ph = "boot" /\ por) ~> (ph = "reset")
=============================================================================
