---------------------------- MODULE UlpiTxTrace ----------------------------
(***************************************************************************)
(* Trace validation for UlpiTx.  Per-cycle records of the real             *)
(* UTMITranslator; fields used: dir, nxt (PHY), txv, txd, opm (UTMI side), *)
(* do, oe, stp, txr (link outputs observed in the same cycle).             *)
(***************************************************************************)
EXTENDS UlpiTx, TLC, TLCExt, Json, IOUtils

Logs == JsonDeserialize(IOEnv.TRACE_FILE)

VARIABLES tid, l, status
tvars == <<xvars, tid, l, status>>

ASSUME \A i \in 1..Len(Logs) : TLCSet(i, <<0, "ok">>)

InOf(r)  == [dir |-> r.dir, nxt |-> r.nxt, txv |-> r.txv, txd |-> r.txd, opm |-> r.opm]
OutOf(r) == [do |-> r.do, oe |-> r.oe, stp |-> r.stp, txr |-> r.txr]

TInit == TxInit /\ tid \in 1..Len(Logs) /\ l = 1 /\ status = "ok"

TNext == /\ status = "ok"
         /\ l <= Len(Logs[tid])
         /\ LET r == Logs[tid][l] IN
              /\ TxStep(InOf(r), OutOf(r))
              /\ status' = IF ~LegalPhy(InOf(r)) THEN "env_illegal_phy"
                           ELSE IF ~LegalUtmi(InOf(r)) THEN "env_illegal_utmi"
                           ELSE Failing(InOf(r), OutOf(r))
         /\ l' = l + 1
         /\ UNCHANGED tid

TSpec == TInit /\ [][TNext]_tvars

TraceProp == PacketDelivered /\ InFlightConsistent

Verdict == IF status # "ok" THEN status ELSE IF TraceProp THEN "ok" ELSE "prop_invariant"
\* a failing step stops the trace here, so the recorded verdict is not overwritten by later steps
Progress == TLCSet(tid, <<l - 1, Verdict>>) /\ Verdict = "ok"

Verdicts == JsonSerialize(IOEnv.VERDICT_FILE, [i \in 1..Len(Logs) |-> TLCGet(i)])
=============================================================================
