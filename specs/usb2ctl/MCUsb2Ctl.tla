----------------------------- MODULE MCUsb2Ctl -----------------------------
(* Bounded instance of Usb2Ctl for exhaustive exploration and for behaviour generation (-simulate). *)
EXTENDS Usb2Ctl, TLC

CONSTANTS SetupIdx,      \* which rows of SetupTable the host may send
          Addrs,         \* addresses the host puts into tokens (addresses the device can get + a foreign one)
          ForeignAddr    \* an address the device never has

(* bmRequestType, bRequest, wValue(lo,hi), wIndex(lo,hi), wLength(lo,hi) *)
SetupTable == <<
    <<128, 6, 0, 1, 0, 0, 3, 0>>,      \*  1 GET_DESCRIPTOR(device), 3 bytes = two packets of MaxPkt0 = 2
    <<128, 0, 0, 0, 0, 0, 2, 0>>,      \*  2 GET_STATUS
    <<0, 5, 5, 0, 0, 0, 0, 0>>,        \*  3 SET_ADDRESS(5)
    <<0, 9, 1, 0, 0, 0, 0, 0>>,        \*  4 SET_CONFIGURATION(1)
    <<192, 5, 5, 0, 0, 0, 2, 0>>,      \*  5 vendor IN, bRequest = 5 (looks like SET_ADDRESS if the type bits are ignored)
    <<128, 8, 0, 0, 0, 0, 1, 0>>,      \*  6 GET_CONFIGURATION
    <<0, 1, 1, 0, 0, 0, 0, 0>>,        \*  7 CLEAR_FEATURE(DEVICE_REMOTE_WAKEUP): not implemented -> STALL at status
    <<0, 7, 0, 1, 0, 0, 2, 0>>,        \*  8 SET_DESCRIPTOR: unsupported, host-to-device data stage
    <<128, 6, 0, 6, 0, 0, 2, 0>>,      \*  9 GET_DESCRIPTOR(device qualifier): no such descriptor -> STALL
    <<2, 1, 0, 0, 129, 0, 0, 0>>,      \* 10 CLEAR_FEATURE(ENDPOINT_HALT, ep 0x81)
    <<64, 9, 1, 0, 0, 0, 0, 0>>,       \* 11 vendor, no data, bRequest = 9 (looks like SET_CONFIGURATION)
    <<129, 10, 0, 0, 0, 0, 1, 0>>,     \* 12 GET_INTERFACE: unsupported standard, device-to-host
    <<0, 5, 85, 0, 0, 0, 0, 0>>,       \* 13 SET_ADDRESS(0x55)
    <<0, 9, 0, 0, 0, 0, 0, 0>>,        \* 14 SET_CONFIGURATION(0)
    <<128, 0, 0, 0, 0, 0, 1, 0>> >>    \* 15 GET_STATUS with wLength = 1: non-canonical ("gray")
Setups == {SetupTable[i] : i \in SetupIdx}

Bytes9 == <<128, 6, 0, 1, 0, 0, 8, 0, 0>>
AnySetup == SetupTable[1]

(* Env alphabets.  Tokens to the foreign address are all alike for the device: one IN, one OUT, one SETUP. *)
TokActs ==
    {Tok(p, ad, e, TRUE) : p \in {"IN", "OUT"}, ad \in Addrs, e \in {0, 1, 2}}
    \cup {Tok("IN", ad, 3, TRUE) : ad \in Addrs}                          \* an endpoint the device does not have
    \cup {Tok("SETUP", ad, 0, TRUE) : ad \in Addrs}
    \cup {Tok("PING", ad, e, TRUE) : ad \in Addrs, e \in {0, 2}}
    \cup {Tok("IN", ForeignAddr, 0, TRUE), Tok("OUT", ForeignAddr, 0, TRUE), Tok("SETUP", ForeignAddr, 0, TRUE)}
    \cup {Tok("IN", 0, 0, FALSE), Tok("SETUP", 0, 0, FALSE)}               \* corrupted / truncated tokens
DataActs ==
    {Dat("DATA0", s, TRUE) : s \in Setups}
    \cup {Dat("DATA0", AnySetup, FALSE),                                   \* CRC-corrupted 8-byte payload
          Dat("DATA0", SubSeq(AnySetup, 1, 7), TRUE), Dat("DATA0", Bytes9, TRUE),   \* short / long SETUP payload
          Dat("DATA0", Bytes9, FALSE),                                     \* long corrupted packet
          Dat("DATA1", <<>>, TRUE), Dat("DATA1", <<>>, FALSE),             \* status-stage ZLP, good / corrupted
          Dat("DATA0", <<1, 2, 3>>, TRUE)}
HsActs == {Hs("ACK")}
HostActs == TokActs \cup DataActs \cup HsActs \cup {Other("sof"), Other("junk"), Other("reset")}

DevResps ==
    {RNone, RHs("ACK"), RHs("NAK"), RHs("STALL")}
    \cup {RData(t, p) : t \in {0, 1}, p \in {<<>>, <<0>>, <<1>>, <<0, 0>>, <<7>>, <<7, 7>>}}

(* Only these kinds of action can be answered at all (for every other kind Judge accepts exactly RNone); *)
(* enumerating the full response alphabet only for them is an evaluation short-cut, not a restriction.    *)
Answerable == {"setup_data", "in0", "out0_data", "in_ep", "out_ep_data", "in_none", "out_none_data"}
DoStep(a) == /\ EnvOK(a)
             /\ \E r \in (IF Kind(a) \in Answerable THEN DevResps ELSE {RNone}) : Judge(a, r) = "ok" /\ Step(a, r)

(* The step relation, split by what the host action means, so that TLC's per-action coverage shows *)
(* that every branch of Ref is exercised (an action never taken fails the run as vacuous).          *)
ASetupTok     == \E a \in TokActs : Kind(a) = "setup_tok" /\ DoStep(a)
ASetupGood    == \E a \in DataActs : Kind(a) = "setup_data" /\ ValidSetupData(a) /\ DoStep(a)
ASetupBad     == \E a \in DataActs : Kind(a) = "setup_data" /\ ~ValidSetupData(a) /\ DoStep(a)
AIn0Data      == \E a \in TokActs : Kind(a) = "in0" /\ StageForIn(xf) = "din" /\ DoStep(a)
AIn0Status    == \E a \in TokActs : Kind(a) = "in0" /\ StageForIn(xf) = "sin" /\ DoStep(a)
AIn0Other     == \E a \in TokActs : Kind(a) = "in0" /\ StageForIn(xf) \notin {"din", "sin"} /\ DoStep(a)
AOut0Tok      == \E a \in TokActs : Kind(a) \in {"out0_tok", "ping0"} /\ DoStep(a)
AOut0Status   == \E a \in DataActs : Kind(a) = "out0_data" /\ StageForOut(xf) = "sout" /\ DoStep(a)
AOut0Other    == \E a \in DataActs : Kind(a) = "out0_data" /\ StageForOut(xf) # "sout" /\ DoStep(a)
AAckData      == \E a \in HsActs : Kind(a) = "ack" /\ ctx.ep = 0 /\ xf.st = "din" /\ DoStep(a)
ACommitAddr   == \E a \in HsActs : Commits(a) /\ xf.req = 5 /\ DoStep(a)
ACommitCfg    == \E a \in HsActs : Commits(a) /\ xf.req = 9 /\ DoStep(a)
AAckStatus    == \E a \in HsActs : Commits(a) /\ xf.req \notin {5, 9} /\ DoStep(a)
AAckOther     == \E a \in HsActs : Kind(a) = "ack" /\ ctx.ep # 0 /\ DoStep(a)
AForeignAck   == \E a \in HsActs : Kind(a) = "foreign_ack" /\ DoStep(a)
AEpTok        == \E a \in TokActs : Kind(a) \in {"in_ep", "in_none", "ping_ep", "out_ep_tok", "out_none_tok"} /\ DoStep(a)
AEpData       == \E a \in DataActs : Kind(a) \in {"out_ep_data", "out_none_data"} /\ DoStep(a)
AForeign      == \E a \in TokActs : Kind(a) = "foreign" /\ DoStep(a)
AStrayData    == \E a \in DataActs : Kind(a) = "stray_data" /\ DoStep(a)
ANoise        == DoStep(Other("sof")) \/ DoStep(Other("junk"))
AReset        == DoStep(Other("reset"))

MCNext == \/ ASetupTok \/ ASetupGood \/ ASetupBad \/ AIn0Data \/ AIn0Status \/ AIn0Other
          \/ AOut0Tok \/ AOut0Status \/ AOut0Other \/ AAckData \/ ACommitAddr \/ ACommitCfg \/ AAckStatus
          \/ AAckOther \/ AForeignAck \/ AEpTok \/ AEpData \/ AForeign \/ AStrayData \/ ANoise \/ AReset
MCSpec == Init /\ [][MCNext]_vars

(* For behaviour generation (-simulate): a bound on the length is given on the command line. *)
=============================================================================
