#!/usr/bin/env python3
"""usage: tools/run_checks.py [-j N] [--tier T] ID...   — run checks (in /verif against /repo), print one summary line each."""
import subprocess, sys, time
from concurrent.futures import ThreadPoolExecutor
args = sys.argv[1:]
j = 3
tier = "quick"
if "-j" in args:
    i = args.index("-j"); j = int(args[i + 1]); del args[i:i + 2]
if "--tier" in args:
    i = args.index("--tier"); tier = args[i + 1]; del args[i:i + 2]
def run(pid):
    t = time.time()
    p = subprocess.run(["/verif/check", pid, "--tier", tier], cwd="/verif", stdout=subprocess.PIPE, stderr=subprocess.STDOUT, text=True)
    lines = [l for l in p.stdout.splitlines() if "condarc" not in l]
    kf = sum(1 for l in lines if l.startswith("KNOWN-FINDING"))
    vio = [l for l in lines if l.startswith("VIOLATION") or l.startswith("ERROR")]
    return "%s exit=%d wall=%.0fs known=%d %s | %s" % (pid, p.returncode, time.time() - t, kf, (vio[0][:200] if vio else ""), lines[-1][:160] if lines else "")
with ThreadPoolExecutor(j) as ex:
    for r in ex.map(run, args):
        print(r, flush=True)
