------------------------------ MODULE MCUlpiTx ------------------------------
(* Bounded instance of UlpiTx: every UTMI transmitter / PHY schedule with at most MaxPkts packets of
   1..MaxLen bytes, NXT delays 0..MaxDelay at every position, up to MaxDirUps DIR interruptions
   (anywhere except inside a data phase), every output the reference relation allows. *)
EXTENDS UlpiTx, TLC

CONSTANTS TxBytes, OpModes, MaxPkts, MaxLen, MaxDelay, MaxDirUps, MaxDirRun

VARIABLES stall, dirUps, dirRun
mvars == <<xvars, stall, dirUps, dirRun>>

Inputs == [dir : {0, 1}, nxt : {0, 1}, txv : {0, 1}, txd : TxBytes \cup {0}, opm : OpModes]
\* The reference link as a function of state and inputs; its single freedom is when to present the TXCMD.
Outs(i) ==
    LET oe   == 1 - i.dir
        quiet == [do |-> 0, oe |-> oe, stp |-> 0, txr |-> 0]
        cmd   == [do |-> ExpectedCmd(i), oe |-> oe, stp |-> 0, txr |-> B(i.nxt = 1 /\ ~NoPid(i.opm))]
    IN IF ts = "idle" THEN
          (IF i.dir = 1 \/ i.txv = 0 \/ pdir = 1 THEN {quiet}
           ELSE IF pdir = 0 /\ startAge >= MaxStart THEN {cmd} ELSE {quiet, cmd})
       ELSE IF ts = "cmd" THEN (IF i.dir = 1 THEN {quiet} ELSE {cmd})
       ELSE IF ts = "data" THEN
          (IF i.txv = 1 THEN {[do |-> i.txd, oe |-> oe, stp |-> 0, txr |-> i.nxt]}
           ELSE {[do |-> IF NoPid(i.opm) THEN 255 ELSE 0, oe |-> oe, stp |-> 1, txr |-> 0]})
       ELSE {quiet}

Owed == pphase \in {"wait", "txd"}

MCLegal(i) ==
    /\ LegalIn(i)
    /\ i.txv = 0 => i.txd = 0
    /\ i.txv = 1 => i.txd \in TxBytes
    /\ (hold.v = 0 /\ i.txv = 1) => npkts < MaxPkts
    /\ (hold.v = 1 /\ hold.r = 1 /\ i.txv = 1) => Len(utmiAcc) < MaxLen
    /\ (hold.v = 0 /\ i.txv = 0) => i.opm = hold.m
    /\ (i.dir = 0 /\ Owed /\ i.nxt = 0) => stall < MaxDelay
    /\ (i.dir = 1 /\ pdir = 0) => dirUps < MaxDirUps
    /\ (i.dir = 1 /\ pdir = 1) => dirRun < MaxDirRun

Drive(i, o) == /\ TxStep(i, o)
               /\ stall' = IF i.dir = 0 /\ Owed /\ i.nxt = 0 THEN stall + 1 ELSE 0
               /\ dirUps' = IF i.dir = 1 /\ pdir = 0 THEN dirUps + 1 ELSE dirUps
               /\ dirRun' = IF i.dir = 1 THEN dirRun + 1 ELSE 0

BusIdle      == \E i \in Inputs : i.dir = 0 /\ ts = "idle" /\ MCLegal(i) /\
                   \E o \in Outs(i) : CmdKind(o.do) = 0 /\ Drive(i, o)
PresentCmd   == \E i \in Inputs : i.dir = 0 /\ ts = "idle" /\ MCLegal(i) /\
                   \E o \in Outs(i) : CmdKind(o.do) = 1 /\ Drive(i, o)
HoldCmd      == \E i \in Inputs : i.dir = 0 /\ ts = "cmd" /\ i.nxt = 0 /\ MCLegal(i) /\
                   \E o \in Outs(i) : Drive(i, o)
CmdAccepted  == \E i \in Inputs : i.dir = 0 /\ ts = "cmd" /\ i.nxt = 1 /\ MCLegal(i) /\
                   \E o \in Outs(i) : Drive(i, o)
DataStalled  == \E i \in Inputs : ts = "data" /\ i.txv = 1 /\ i.nxt = 0 /\ MCLegal(i) /\
                   \E o \in Outs(i) : Drive(i, o)
DataAccepted == \E i \in Inputs : ts = "data" /\ i.txv = 1 /\ i.nxt = 1 /\ MCLegal(i) /\
                   \E o \in Outs(i) : Drive(i, o)
Stop         == \E i \in Inputs : ts = "data" /\ i.txv = 0 /\ MCLegal(i) /\
                   \E o \in Outs(i) : Drive(i, o)
DirHigh      == \E i \in Inputs : i.dir = 1 /\ ts = "idle" /\ MCLegal(i) /\
                   \E o \in Outs(i) : Drive(i, o)
DirAbortsCmd == \E i \in Inputs : i.dir = 1 /\ ts = "cmd" /\ MCLegal(i) /\
                   \E o \in Outs(i) : Drive(i, o)

MCInit == TxInit /\ stall = 0 /\ dirUps = 0 /\ dirRun = 0
Next == BusIdle \/ PresentCmd \/ HoldCmd \/ CmdAccepted \/ DataStalled \/ DataAccepted \/ Stop
        \/ DirHigh \/ DirAbortsCmd
Spec == MCInit /\ [][Next]_mvars

\* every allowed behaviour keeps the handshake live: a packet in the data phase is never stuck
NoSilentStall == stall <= MaxDelay
=============================================================================
