----------------------------- MODULE LtssmTrace -----------------------------
(***************************************************************************)
(* Trace validation for Ltssm.  A trace recorded from the real             *)
(* LTSSMController is [loosen |-> constructor parameter, steps |-> ...],   *)
(* steps being a sequence of event-compressed records                      *)
(*   [n   : number of consecutive cycles the record stands for,            *)
(*    i   : the input vector applied in the first of them (the others      *)
(*          have the quiet vector Quieten(i); n > 1 only if i is quiet),   *)
(*    o   : the public outputs observed in every one of the n cycles       *)
(*          (sampled after the inputs settled, before the clock edge),     *)
(*    fsm : name of the real FSM state in these cycles (DRIFT info only)]  *)
(*                                                                         *)
(* Two passes over the same traces (constant Lockstep):                    *)
(*  FALSE - verdict pass: only the Prop monitors run (ghost g, fed with    *)
(*          logged inputs and logged outputs); status = name of the first  *)
(*          violated property clause.                                      *)
(*  TRUE  - drift pass: the reference machine runs in lock-step; status =  *)
(*          first output (or the FSM state name) that differs from the     *)
(*          prediction.  Reported as DRIFT, never as a violation.          *)
(* Batch recipe: Logs is an array of traces; register tid holds            *)
(* <<records matched, status>>.                                            *)
(***************************************************************************)
EXTENDS Ltssm, TLCExt, Json, IOUtils

CONSTANT Lockstep

Logs == JsonDeserialize(IOEnv.TRACE_FILE)

VARIABLES ref, g, tid, l, status,
          w      \* work variable: result of the step, computed once (TLC evaluation cost only)
tvars == <<ref, g, tid, l, status, w>>

ASSUME \A t \in 1..Len(Logs) : TLCSet(t, <<0, "ok">>)

BigCap == 1000000000      \* run-length ghosts are effectively uncapped in trace validation (45 M cycles = 360 ms at 125 MHz)

OutFields == <<"lr", "eu0", "txi", "term", "rxd", "slfps", "stseq", "teq", "sts1", "sts2",
               "rhot", "rnscr", "scr", "pidle", "loopb", "inv">>

InputOf(r) == [f \in DOMAIN NoInput |-> r.i[f]]

EnvOK(r) == /\ LegalInput(InputOf(r))
            /\ r.n >= 1
            /\ (r.n > 1 => ~AnyStrobe(InputOf(r)) /\ ~r.i.rst /\ ~r.i.drst)

\* --- verdict pass --------------------------------------------------------
MonStep(r) ==
    LET v  == Viol(g, r.o)
        g1 == G1(g, InputOf(r), r.o, BigCap)
    IN [status |-> IF ~EnvOK(r) THEN "env_illegal_input" ELSE IF v # "ok" THEN v ELSE ViolRep(g1, r.n - 1),
        g      |-> GRep(g1, r.n - 1, BigCap),
        ref    |-> ref]

\* --- drift pass ------------------------------------------------------------
RECURSIVE FirstDiff(_, _, _)
FirstDiff(a, b, k) == IF k > Len(OutFields) THEN "ok"
                      ELSE IF a[OutFields[k]] # b[OutFields[k]] THEN "drift_" \o OutFields[k]
                      ELSE FirstDiff(a, b, k + 1)

SameOut(a, b) == \A k \in 1..Len(OutFields) : a[OutFields[k]] = b[OutFields[k]]

DRIFTED == "DRIFTED"

RECURSIVE RunChk(_, _, _, _)
\* reference machine after n more quiet cycles during all of which its outputs must equal o
RunChk(s, q, n, o) ==
  IF n = 0 THEN s
  ELSE IF ~SameOut(Out(s, q), o) THEN [s EXCEPT !.st = DRIFTED]
  ELSE LET d == StayFor(s, q, n) IN
       IF d = 0 THEN RunChk(Step1(s, q), q, n - 1, o)
       ELSE RunChk([Step1(s, q) EXCEPT !.cyc = IF TimeoutOf(s.st) > 0 THEN s.cyc + d ELSE 0], q, n - d, o)

LockStep(r) ==
    LET d  == FirstDiff(Out(ref, InputOf(r)), r.o, 1)
        ra == RunChk(Step1(ref, InputOf(r)), Quieten(InputOf(r)), r.n - 1, r.o)
    IN [status |-> IF ~EnvOK(r) THEN "env_illegal_input"
                   ELSE IF r.fsm # ref.st THEN "drift_fsm_state"
                   ELSE IF d # "ok" THEN d
                   ELSE IF ra.st = DRIFTED THEN "drift_within_quiet_run"
                   ELSE "ok",
        g      |-> g,
        ref    |-> ra]

-----------------------------------------------------------------------------
Rec == Logs[tid].steps[l]

TInit == /\ tid \in 1..Len(Logs)
         /\ ref = RefInit(Logs[tid].loosen) /\ g = GInit(Logs[tid].loosen)
         /\ l = 1
         /\ status = "ok"
         /\ w = [status |-> "ok", g |-> g, ref |-> ref]

TNext == /\ status = "ok"
         /\ l <= Len(Logs[tid].steps)
         /\ w' = IF Lockstep THEN LockStep(Rec) ELSE MonStep(Rec)
         /\ status' = w'.status /\ g' = w'.g /\ ref' = w'.ref
         /\ l' = l + 1
         /\ UNCHANGED tid

TSpec == TInit /\ [][TNext]_tvars

\* All Prop clauses are folded into `status` by MonStep (named clauses), so there is no separate invariant.
Verdict == status

\* FALSE after a failure: the trace is not followed further and a later step cannot overwrite the verdict.
Progress == TLCSet(tid, <<l - 1, Verdict>>) /\ Verdict = "ok"

Verdicts == JsonSerialize(IOEnv.VERDICT_FILE, [t \in 1..Len(Logs) |-> TLCGet(t)])
=============================================================================
