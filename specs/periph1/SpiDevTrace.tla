---------------------------- MODULE SpiDevTrace ----------------------------
(***************************************************************************)
(* Trace validation for SpiDev.  A trace is                                *)
(*   [cfg |-> [ws, cpol, cpha, msb],                                       *)
(*    steps |-> << [cs, sck, sdi, wout, wc, win, sdo], ... >>]             *)
(* one record per device clock cycle from power-on: the four inputs applied *)
(* in the cycle (cs = chip selected, logical) and word_complete, word_in,  *)
(* sdo observed in the same cycle.  The first record must equal the initial *)
(* input state (deselected, SCK idle).                                     *)
(***************************************************************************)
EXTENDS SpiDev, TLC, TLCExt, Json, IOUtils

Logs == JsonDeserialize(IOEnv.TRACE_FILE)

VARIABLES tid, l, status
tvars == <<vars, tid, l, status>>

ASSUME \A i \in 1..Len(Logs) : TLCSet(i, <<0, "ok">>)

TInit == /\ tid \in 1..Len(Logs)
         /\ l = 1
         /\ status = "ok"
         /\ LET c == Logs[tid].cfg IN InitCfg(c.ws, c.cpol, c.cpha, c.msb)

TNext == /\ status = "ok"
         /\ l <= Len(Logs[tid].steps)
         /\ LET r == Logs[tid].steps[l]
                i == [cs |-> r.cs, sck |-> r.sck, sdi |-> r.sdi, wout |-> r.wout]
                o == [wc |-> r.wc, win |-> r.win, sdo |-> r.sdo]
                x == Outcome(i, o) IN
              /\ status' = x.err
              /\ IF x.err = "ok" THEN StepR(i, o, x) ELSE UNCHANGED vars
         /\ l' = l + 1
         /\ UNCHANGED tid

TSpec == TInit /\ [][TNext]_tvars

TraceProp == WholeWords /\ ReportedOnce /\ ReportPrompt /\ DeselectedIdle

\* at the end of a trace every completed word must have been reported (the harness appends idle cycles)
Drained == (l = Len(Logs[tid].steps) + 1 /\ status = "ok") => pend = <<>>

Progress == TLCSet(tid, <<l - 1, IF ~TraceProp THEN "prop_invariant"
                                 ELSE IF ~Drained THEN "word_not_reported" ELSE status>>)

Verdicts == JsonSerialize(IOEnv.VERDICT_FILE, [i \in 1..Len(Logs) |-> TLCGet(i)])
=============================================================================
