----------------------------- MODULE MCCrcUnit -----------------------------
(* Bounded instance of CrcUnit: every schedule of clear / advance(chunk) / idle / clear-with-data  *)
(* over a small chunk alphabet, up to MaxBits message bits.                                         *)
EXTENDS CrcUnit, TLC

CONSTANTS ModelUnits,       \* the units explored in this run (subset of Units)
          Alphabet,         \* "small" | "large": which chunk alphabet the model feeds
          MaxBitsOf         \* unit -> bound on the ghost message (keeps the state space finite)

\* the data chunks the model may feed (byte sequences; cfg files cannot hold tuples, so they live here).
\* They put a one at either end of a chunk, all ones and all zeroes, and (payload unit) every tail size.
Chunks ==
    CASE unit = "usb2_crc16" ->
            IF Alphabet = "small" THEN {<<0>>, <<1>>, <<128>>, <<255>>}
            ELSE {<<0>>, <<1>>, <<128>>, <<255>>, <<165>>, <<90>>}
      [] unit = "usb3_hdr16" ->
            IF Alphabet = "small" THEN {<<0, 0, 0, 0>>, <<1, 0, 0, 128>>, <<255, 255, 255, 255>>}
            ELSE {<<0, 0, 0, 0>>, <<1, 0, 0, 128>>, <<255, 255, 255, 255>>, <<0, 128, 1, 0>>, <<165, 90, 60, 195>>}
      [] unit = "usb3_crc32" ->
            IF Alphabet = "small" THEN {<<128>>, <<1, 128>>, <<255, 0, 1>>, <<1, 0, 0, 128>>, <<255, 255, 255, 255>>}
            ELSE {<<128>>, <<1>>, <<1, 128>>, <<255, 255>>, <<255, 0, 1>>, <<1, 0, 0, 128>>, <<255, 255, 255, 255>>, <<0, 0, 0, 0>>}

ChunksOK == \A c \in Chunks : Len(c) \in ChunkSizes
MaxBits == MaxBitsOf[unit]

\* bounds used by the cfg files (cfg files cannot hold functions)
BitsQuick    == [u \in Units |-> CASE u = "usb2_crc16" -> 24 [] u = "usb3_hdr16" -> 96 [] u = "usb3_crc32" -> 48]
BitsThorough == [u \in Units |-> CASE u = "usb2_crc16" -> 32 [] u = "usb3_hdr16" -> 96 [] u = "usb3_crc32" -> 56]
BitsSim      == [u \in Units |-> 4096]

Pad(bits)    == bits \o ZeroVec(DataBits - Len(bits))
InputOf(clr, c) == [clear |-> clr, n |-> Len(c), bits |-> Pad(BytesToBits(c))]
NoData(clr)  == [clear |-> clr, n |-> 0, bits |-> ZeroVec(DataBits)]

Idle         == Len(msg) >= 0 /\ Step(NoData(FALSE))
Advance      == \E c \in Chunks : Len(msg) + 8 * Len(c) <= MaxBits /\ Step(InputOf(FALSE, c))
Clear        == Len(msg) > 0 /\ Step(NoData(TRUE))
\* clear wins over a simultaneous advance (one chunk of every size is enough: the data is ignored)
ClearAndData == \E c \in {CHOOSE x \in Chunks : Len(x) = n : n \in {Len(y) : y \in Chunks}} :
                    Len(msg) > 0 /\ Step(InputOf(TRUE, c))

Next == Idle \/ Advance \/ Clear \/ ClearAndData
MCInit == UInit /\ unit \in ModelUnits
Spec == MCInit /\ [][Next]_uvars

EnvOK == LegalInput(in) /\ ChunksOK

\* the one-bit-flip theorem costs W*W shifts per state: evaluated on the short messages only
FlippedFieldRejectedShort == Len(msg) <= 16 => FlippedFieldRejected
=============================================================================
