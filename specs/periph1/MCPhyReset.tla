----------------------------- MODULE MCPhyReset -----------------------------
(* Exhaustive instance of PhyReset: every (R, S) in 1..MaxR x 1..MaxS, with and without *)
(* power-on reset (chosen in Init), every trigger pattern, every permitted start latency. *)
EXTENDS PhyReset, TLC
=============================================================================
