----------------------------- MODULE SsRxTrace -----------------------------
(***************************************************************************)
(* Trace validation for SsRx.  A trace is the event log of one run of the  *)
(* real HeaderPacketReceiver against the word-level link-partner model:    *)
(*   {e:"up"} {e:"down", reset} {e:"reset"}                 enable / USB reset *)
(*   {e:"reset_up"}   usb_reset strobed while enable was high; logged after the  *)
(*                    outputs of the following cycle (a command the dispatcher   *)
(*                    committed to before the strobe is presented by then)       *)
(*   {e:"hdr", h:k}   a header's last word arrived; its words are row k of the  *)
(*                    header table (HDR_FILE: 8 x 16-bit limbs of DW0..DW3)      *)
(*   {e:"lc_rx", lo, hi, ctrl}                     a link command word arrived  *)
(*   {e:"consume", w:[limbs of DW0..DW2, link control word]}  queue.valid&ready *)
(*   {e:"retry_req"} {e:"ka_req"}                  request strobes              *)
(*   {e:"txs"}                                     DUT presents LCSTART         *)
(*   {e:"txe", lo, hi, ctrl}                       DUT's command word accepted  *)
(*   {e:"quiet", qv}                               DUT idle for long; queue.valid *)
(* in the order they happened (inputs before outputs within a cycle).      *)
(* CRC validity of every header and link command is decided here, with the *)
(* bit-serial definitions of LinkCrc.tla (= CRC.tla, see MCSsRx) -- not by the partner model.          *)
(***************************************************************************)
EXTENDS SsRx, LinkCrc, TLC, TLCExt, Json, IOUtils

Logs == JsonDeserialize(IOEnv.TRACE_FILE)
Hdrs == JsonDeserialize(IOEnv.HDR_FILE)       \* distinct headers the partner sent, shared by all traces

VARIABLES tid, l, status
tvars == <<vars, tid, l, status>>

ASSUME \A i \in 1..Len(Logs) : TLCSet(i, <<0, "ok">>)

Rec == Logs[tid][l]

(* ---- decoding of logged words ------------------------------------------ *)
\* link control word = low 11 bits of DW3's upper half, CRC-5 above it [USB3.2 7.2.1.1.3]
HdrKind(w) == IF LinkCrc5(w[8] % 2048) # w[8] \div 2048 THEN "bad5"
              ELSE IF LinkCrc16(SubSeq(w, 1, 6)) # w[7] THEN "bad16"
              ELSE "good"
HdrSeq(w) == w[8] % 8
HdrContent(w) == <<w[1], w[2], w[3], w[4], w[5], w[6], w[8] % 2048>>
\* constant-level, evaluated once per TLC run: CRC verdict of every row of the header table
HdrKinds == [i \in 1..Len(Hdrs) |-> HdrKind(Hdrs[i])]

\* link command word [USB3.2 7.2.2.1]: two identical 16-bit copies, 11 information bits + CRC-5, no K symbols
LcValid(r) == r.ctrl = 0 /\ r.lo = r.hi /\ LinkCrc5(r.lo % 2048) = r.lo \div 2048
LcCmd(r) == (r.lo \div 128) % 16
LcSub(r) == r.lo % 16

(* ---- judging one record: name of the first failing clause, or "ok" ------ *)
Judge(r, k) ==
    CASE r.e = "up"     -> IF enabled THEN "env_up_while_up" ELSE "ok"
      [] r.e = "down"   -> IF ~enabled THEN "env_down_while_down" ELSE "ok"
      [] r.e = "reset"  -> IF enabled THEN "env_reset_while_up" ELSE "ok"
      [] r.e = "reset_up" -> "ok"
      [] r.e = "dreset" -> "ok"
      [] r.e = "hdr"    -> IF HdrLegal(k, (HdrSeq(Hdrs[r.h]) + 8 - expSeq) % 8) THEN "ok"
                           ELSE "env_hdr_illegal"
      [] r.e = "lc_rx"  -> IF LcValid(r) /\ LcCmd(r) = LRTY /\ (~enabled \/ lbadOwed)
                           THEN "env_lrty_illegal" ELSE "ok"
      [] r.e = "consume" -> IF buf = <<>> THEN "consume_nothing_buffered"
                            ELSE IF Head(buf).c # r.w THEN "consume_wrong_header" ELSE "ok"
      [] r.e = "retry_req" -> IF enabled THEN "ok" ELSE "env_req_while_down"
      [] r.e = "ka_req"    -> IF enabled THEN "ok" ELSE "env_req_while_down"
      [] r.e = "txs"    -> IF cur = "none" THEN "ok" ELSE "tx_overlap"
      [] r.e = "txe"    -> IF cur = "none" THEN "tx_without_start"
                           ELSE IF ~LcValid(r) THEN "tx_malformed"
                           ELSE IF cur = "stale_up" THEN "ok"
                           ELSE IF cur = "stale" THEN (IF enabled THEN "stale_command_after_up" ELSE "ok")
                           ELSE TxJudge(LcCmd(r), LcSub(r))
      [] r.e = "quiet"  -> IF QuietJudge # "ok" THEN QuietJudge
                           ELSE IF r.qv # (buf # <<>>) THEN "quiet_queue_valid" ELSE "ok"
      [] OTHER -> "unknown_record"

Apply(r, k) ==
    CASE r.e = "up"     -> LinkUp
      [] r.e = "down"   -> LinkDown(r.reset)
      [] r.e = "reset"  -> UsbReset
      [] r.e = "reset_up" -> IF enabled THEN ResetUp ELSE UsbReset      \* (enable fell in the meantime)
      [] r.e = "dreset" -> DomainReset
      [] r.e = "hdr"    -> HdrArrive(k, (HdrSeq(Hdrs[r.h]) + 8 - expSeq) % 8, HdrContent(Hdrs[r.h]))
      [] r.e = "lc_rx"  -> IF LcValid(r) /\ LcCmd(r) = LRTY THEN PartnerLrty ELSE UNCHANGED vars
      [] r.e = "consume" -> Consume
      [] r.e = "retry_req" -> RetryReq
      [] r.e = "ka_req" -> KeepaliveReq
      [] r.e = "txs"    -> TxStart
      [] r.e = "txe"    -> IF cur \in {"stale", "stale_up"} THEN TxEndStale ELSE TxEndFresh(LcCmd(r), LcSub(r))
      [] r.e = "quiet"  -> Quiet

TInit == /\ Init
         /\ tid \in 1..Len(Logs)
         /\ l = 1
         /\ status = "ok"

TNext == /\ status = "ok"
         /\ l <= Len(Logs[tid])
         /\ LET r == Rec
                k == IF r.e = "hdr" THEN HdrKinds[r.h] ELSE "none"
                j == Judge(r, k) IN
              /\ status' = j
              /\ IF j = "ok" THEN Apply(r, k) ELSE UNCHANGED vars
         /\ l' = l + 1
         /\ UNCHANGED tid

TSpec == TInit /\ [][TNext]_tvars

\* Prop theorems are evaluated on every state of every observed execution.
TraceProp == /\ TypeOK /\ CreditConservation /\ BufferedPlusAdvertised /\ DeliveredInOrder
             /\ LgoodNumbers /\ LcrdLetters /\ LbadOnlyWhenIgnoring /\ AdvFirst

Verdict == IF status # "ok" THEN status ELSE IF TraceProp THEN "ok" ELSE "prop_invariant"
Progress == TLCSet(tid, <<l - 1, Verdict>>) /\ Verdict = "ok"

Verdicts == JsonSerialize(IOEnv.VERDICT_FILE, [i \in 1..Len(Logs) |-> TLCGet(i)])
=============================================================================
