"""Bench for the composition engine `ss_linklayer`: the real, whole `USB3LinkLayer` (luna/gateware/usb/usb3/link/layer.py)
driven at its PHY-facing interface by a reactive link-partner model and at its protocol-facing interfaces by a simple
header producer / consumer; records the event-compressed trace described in specs/ss_linklayer/LinkLayerTrace.tla.

What is real and what is a model
  real    USB3LinkLayer with everything it instantiates (LTSSM, TSTransceiver, IdleHandshakeHandler, LinkMaintenanceTimers,
          HeaderPacketReceiver, PacketTransmitter, DataPacket{Receiver,Transmitter}, arbiters, compliance emitter) and all of
          the wiring of layer.py; a real CTCSkipInserter observing the layer's transmit stream and `can_send_skp` exactly as
          USB3PhysicalLayer connects them (so the SKP ordered sets it inserts are seen replacing real words of that stream).
  scaled  ss_clock_frequency (constructor parameter) so that the 10 us / 1 ms / 2 ms / 12 ms / 360 ms time-outs are short;
          the TSEQ burst the TS unit emits in Polling.RxEQ is shortened from 65536 to TSEQ_SETS ordered sets (the emitter class
          is wrapped while the layer is elaborated -- the TS unit itself is the subject of C43, not of this engine).
  model   `PhyStub` = the signals of the physical layer the link layer reads / drives; the partner below.

The partner only keeps the *stimulus* inside the environment assumptions; everything verdict-bearing (CRC validity, what was
owed, timing rules) is decided by TLC on the recorded trace.
"""
import random

from .. import sim as _sim          # noqa: F401  (installs the RuntimeWarning filter for never-run testbenches)
from . import ss_partner as P

TSEQ_SETS = 4            # scaled TSEQ burst (sets of 8 words)
QUIET_CYCLES = 26        # the DUT showed nothing but idle / keep-alives for this long -> `quiet`
MAX_STALL = 2

COMW = (0xBCBCBCBC, 0xF)
TSEQ0 = (0xC017FFBC, 0x1)
DPEND = (P._word(P.END, P.END, P.END, P.EPF), 0xF)


def ts_set(kind, hot=0, loop=0, nscr=0):
    """One TS1 / TS2 / inverted TS1 ordered set as 4 (data, ctrl) words [USB3.2 Table 6-4, 6-5]."""
    ident = {"ts1": 0x4A, "ts2": 0x45, "its1": 0xB5}[kind]
    cfg = (hot & 1) | ((loop & 1) << 2) | ((nscr & 1) << 3)
    w1 = (cfg << 8) | (ident << 16) | (ident << 24)
    fill = ident * 0x01010101
    return [COMW, (w1, 0), (fill, 0), (fill, 0)]


class PhyStub:
    """The attributes of USB3PhysicalLayer that USB3LinkLayer touches, as bare signals."""

    def __init__(self, Signal, Stream):
        self.sink = Stream()
        self.source = Stream()
        self.raw_source = Stream()
        for n, w in [("ready", 1), ("engage_terminations", 1), ("tx_deemph", 2), ("tx_electrical_idle", 1),
                     ("tx_ones_zeros", 1), ("invert_rx_polarity", 1), ("train_equalizer", 1), ("vbus_present", 1),
                     ("enable_scrambling", 1), ("perform_rx_detection", 1), ("link_partner_detected", 1),
                     ("no_link_partner_detected", 1), ("send_lfps_polling", 1), ("lfps_cycles_sent", 16),
                     ("lfps_ping_detected", 1), ("lfps_polling_detected", 1), ("lfps_reset_detected", 1),
                     ("can_send_skp", 1)]:
            setattr(self, n, Signal(w, name="phy_" + n))


class TxStreamParser:
    """Classifies every word the link layer hands to the PHY (valid & ready): training sets, link commands, header
    packets, data packet payloads, idle filler, anything else."""

    def __init__(self):
        self.state = "idle"      # idle | ts | lc | hp | dpp
        self.left = 0
        self.kind = None
        self.words = []
        self.tshot = 0

    def feed(self, data, ctrl, up=True):
        """-> (cls, event) ; cls = class of this word: idle|ts|lc|hp|dpp|other ; event = None or tuple.
        While the link is not up (`up` False) words that belong to no link command / packet are training data: the TS
        emitters may resume in the middle of a set after an interrupted burst, so torn sets are not judged."""
        w = (data, ctrl)
        if self.state == "ts" and not up and w in (COMW, TSEQ0, (0, 0)):
            self.state = "idle"                   # a torn set (no word of a training set is all zero): resynchronise
        if self.state == "idle":
            if w == (0, 0):
                return "idle", None
            if w == COMW:
                self.state, self.left, self.kind = "ts", 3, "ts?"
                return "ts", None
            if w == TSEQ0:
                self.state, self.left, self.kind = "ts", 7, "tseq"
                return "ts", ("ts_first", "tseq", 0)
            if w == P.LCSTART:
                self.state = "lc"
                return "lc", ("lc_first",)
            if w == P.HPSTART:
                self.state, self.words = "hp", []
                return "hp", ("hp_first",)
            if w == P.DPSTART:
                self.state = "dpp"
                return "dpp", ("dpp_first",)
            if not up:
                return "ts", None
            return "other", ("other", data, ctrl)
        if self.state == "ts":
            ev = None
            if self.kind == "ts?":
                hi = data & 0xFFFF0000
                if ctrl == 0 and hi == 0x4A4A0000:
                    self.kind = "ts1"
                elif ctrl == 0 and hi == 0x45450000:
                    self.kind = "ts2"
                else:
                    self.kind = "tsx"
                self.tshot = (data >> 8) & 1
                ev = ("ts_first", self.kind, self.tshot, (data >> 11) & 1)
            self.left -= 1
            if self.left == 0:
                self.state = "idle"
                ev = ("ts_set", self.kind, self.tshot)
            return "ts", ev
        if self.state == "lc":
            self.state = "idle"
            return "lc", ("lc", data, ctrl)
        if self.state == "hp":
            self.words.append(w)
            if len(self.words) == 4:
                self.state = "idle"
                return "hp", ("hp", [x for x, _ in self.words], [c for _, c in self.words])
            return "hp", None
        if self.state == "dpp":
            # payload until the word that carries the End Packet Framing symbol
            for i in range(4):
                if (ctrl >> i) & 1 and ((data >> (8 * i)) & 0xFF) == P.EPF:
                    self.state = "idle"
                    return "dpp", ("dpp_end", data, ctrl)
            return "dpp", None
        raise AssertionError(self.state)


class LinkBench:
    """One elaboration of the whole link layer; `run(script, seed, **opts)` replays a script from power-on."""

    def __init__(self, freq=1e6, tseq_sets=TSEQ_SETS):
        from ..core import use_repo
        use_repo()
        from amaranth import Elaboratable, Module, Signal
        from amaranth.sim import Simulator
        from luna.gateware.usb.stream import USBRawSuperSpeedStream
        from luna.gateware.usb.usb3.link import ordered_sets as osets
        from luna.gateware.usb.usb3.link.layer import USB3LinkLayer
        from luna.gateware.usb.usb3.physical.ctc import CTCSkipInserter
        import math

        self.freq = freq
        # the time constants exactly as the gateware computes them from its clock frequency
        self.K = int(10e-6 * freq)
        self.R = int(1e-3 * freq)
        self.T12 = int(math.ceil(12e-3 * freq))
        self.T2 = int(math.ceil(2e-3 * freq))
        self.T360 = int(math.ceil(360e-3 * freq))

        phy = PhyStub(Signal, USBRawSuperSpeedStream)
        layer = USB3LinkLayer(physical_layer=phy, ss_clock_frequency=freq)
        ctc = CTCSkipInserter()

        class Top(Elaboratable):
            def elaborate(self, platform):
                m = Module()
                m.submodules.layer = layer
                m.submodules.ctc = ctc
                m.d.comb += [
                    # as in USB3PhysicalLayer (minus the scrambler, which does not change which words are replaced)
                    ctc.sink.valid.eq(phy.sink.valid & phy.sink.ready),
                    ctc.sink.data.eq(phy.sink.data),
                    ctc.sink.ctrl.eq(phy.sink.ctrl),
                    ctc.can_send_skip.eq(phy.can_send_skp),
                    ctc.source.ready.eq(1),
                ]
                return m

        # Polling.RxEQ: scaled TSEQ burst (see module doc-string); the wrapper is only in place while the design is elaborated
        orig = osets.TSEmitter

        class ScaledTSEmitter(orig):
            def __init__(self, *a, transmit_burst_length=1, **kw):
                if transmit_burst_length >= 1024:
                    transmit_burst_length = tseq_sets
                super().__init__(*a, transmit_burst_length=transmit_burst_length, **kw)

        # pysim's code generator recomputes Operator.shape() recursively for every sub-expression (quadratic in the depth
        # of the parallel CRC equations): memoise it while the design is compiled (values are immutable, shape() is pure)
        from amaranth.hdl import _ast
        orig_shape = _ast.Operator.shape
        memo = {}

        def shape(op):
            r = memo.get(id(op))
            if r is None or r[0] is not op:
                r = (op, orig_shape(op))
                memo[id(op)] = r
            return r[1]

        osets.TSEmitter = ScaledTSEmitter
        _ast.Operator.shape = shape
        try:
            self.sim = Simulator(Top())
        finally:
            osets.TSEmitter = orig
            _ast.Operator.shape = orig_shape
            memo.clear()
        self.phy, self.layer, self.ctc = phy, layer, ctc
        self.sim.add_clock(1.0 / freq, domain="ss")
        self._first = True
        self._job = None
        self._out = None
        self.cycles = 0
        self.sim.add_testbench(self._bench)

    # -------------------------------------------------------------------------------------------------
    def run(self, script, seed, stall_p=0.0, max_cycles=60000, probe=None):
        """probe: names of internal signals (harness.sim.internal_signals) sampled every cycle into info["probe"]
        together with the transmit word -- diagnosis / DRIFT only, never verdict-bearing."""
        self._probe = probe
        self._job = (script, random.Random(seed), stall_p, max_cycles)
        if not self._first:
            self.sim.reset()
        self._first = False
        self.sim.run()
        return self._out

    # -------------------------------------------------------------------------------------------------
    async def _bench(self, ctx):
        script, rng, stall_p, max_cycles = self._job
        phy, dut, ctc = self.phy, self.layer, self.ctc
        K = self.K
        ev = []
        info = {"skipped": 0, "lc": [], "hp": [], "up_t": [], "down_t": [], "marks": {}}
        parser = TxStreamParser()
        st = {
            "cycle": 0, "last_act": 0, "stall": 0, "ei_prev": 1, "up": False, "rst": False,
            # DUT transmit phase as seen on the wire
            "ph": None, "idlerun": 0, "skp_in_unit": 0, "cs_in_unit": 0, "ns": 0, "unit": None,
            "dts": [None, 0],           # [kind, consecutive sets] the DUT sent
            # partner: training
            "lfps_sent": 0, "pts": None, "pts_n": 0, "pidle_run": 0, "plast_ts": None,
            # partner mirror, receive side of the DUT (what the partner sent / may send)
            "exp": 0, "ignore": False, "lbad_owed": False, "credits": 0, "inflight_good": 0,
            # partner mirror, transmit side of the DUT
            "bringup": False, "next_ack": 0, "sent_unacked": [], "letter": 0, "held": 0, "given": 0,
            "p_ignoring": False, "adv_rx": None,
            # protocol layer
            "offer": None, "want": 0, "auto": 0.0, "dp": None,
            # partner automatic behaviour in U0
            "auto_ack": None, "auto_ka": None, "last_prx": 0, "ackq": [],
            "last_word": -100, "hp_t0": None,
        }
        words = []          # partner words to deliver: (data, ctrl, tag)
        cache = {}
        probes = None
        if self._probe:
            from ..sim import internal_signals
            sigs = internal_signals(self.sim)
            probes = [sigs[n] for n in self._probe]
            info["probe"] = []

        def setsig(sig, v):
            if cache.get(id(sig)) != v:
                cache[id(sig)] = v
                ctx.set(sig, v)

        def log(rec, quiet_reset=True):
            rec["t"] = st["cycle"]
            ev.append(rec)
            if quiet_reset:
                st["last_act"] = st["cycle"]

        # ---- partner word builders ---------------------------------------------------------------------
        def q_lc(cmd, sub, corrupt=None):
            lc = P.link_command(cmd, sub, bad_crc=(corrupt == "crc"), replica_mismatch=(corrupt == "replica"))
            lo, hi = P.limbs(lc[1][0])
            words.append((lc[0][0], lc[0][1], None))
            words.append((lc[1][0], lc[1][1], {"e": "lc_rx", "lo": lo, "hi": hi, "ctrl": lc[1][1]}))

        def q_hdr(kind, d, opts):
            if not st["up"]:
                return None
            acceptable = kind == "good" and d == 0 and not st["ignore"]
            if acceptable and st["credits"] - st["inflight_good"] <= 0:
                return None
            dw = [rng.getrandbits(32) for _ in range(3)]
            dw[0] = (dw[0] & ~0x1F) | rng.choice([0, 4, 4, 12])          # never a data packet header
            seq = (st["exp"] + st["inflight_good"] + d) % 8
            pkt = P.header_packet(dw[0], dw[1], dw[2], seq, delayed=opts.get("dl", rng.getrandbits(1)),
                                  deferred=opts.get("df", 0), hub_depth=opts.get("hub", 0),
                                  bad_crc5=(kind == "bad5"), bad_crc16=(kind == "bad16"),
                                  crc5_xor=1 << rng.randrange(5), crc16_xor=1 << rng.randrange(16))
            lim = []
            for w, _ in pkt[1:]:
                lim += P.limbs(w)
            if opts.get("sep", True):
                words.append((0, 0, None))
            for i, (w, c) in enumerate(pkt):
                words.append((w, c, {"e": "hdr", "w": lim, "_g": acceptable} if i == 4 else None))
            if acceptable:
                st["inflight_good"] += 1
            return True

        def q_ts(kind, nsets, hot=0, nscr=0):
            for i in range(nsets):
                s = ts_set(kind, hot=hot, nscr=nscr)
                for j, (w, c) in enumerate(s):
                    words.append((w, c, ("ts", kind, hot, nscr, j == 3)))

        # ---- partner mirrors (stimulus legality only) ---------------------------------------------------
        def mirror_sent(tag):
            if tag["e"] == "hdr":
                w = tag["w"]
                dw = [w[0] | (w[1] << 16), w[2] | (w[3] << 16), w[4] | (w[5] << 16)]
                dw3 = w[6] | (w[7] << 16)
                f = P.parse_dw3(dw3)
                good = dw3 == P.header_dw3(dw[0], dw[1], dw[2], f["seq"], delayed=f["dl"], deferred=f["deferred"],
                                           hub_depth=f["hub_depth"])
                if st["ignore"] or not st["up"]:
                    return
                if not good:
                    st["ignore"] = True
                    st["lbad_owed"] = True
                elif f["seq"] == st["exp"]:
                    st["exp"] = (st["exp"] + 1) % 8
                    st["credits"] -= 1
            elif tag["e"] == "lc_rx":
                pc = P.parse_link_command_word(tag["lo"] | (tag["hi"] << 16))
                if not (pc["ok"] and tag["ctrl"] == 0) or not st["up"]:
                    return
                if pc["cmd"] == P.LRTY:
                    st["ignore"] = False
                elif pc["cmd"] == P.LGOOD:
                    if not st["bringup"]:
                        st["bringup"] = True
                        st["next_ack"] = (pc["sub"] + 1) % 8
                    elif st["sent_unacked"] and pc["sub"] == st["sent_unacked"][0]:
                        st["sent_unacked"].pop(0)
                        st["next_ack"] = (st["next_ack"] + 1) % 8
                        st["held"] += 1
                elif pc["cmd"] == P.LCRD:
                    if pc["sub"] == st["letter"]:
                        st["letter"] = (st["letter"] + 1) % 4
                        st["given"] += 1
                elif pc["cmd"] == P.LBAD:
                    st["p_ignoring"] = True
                    st["sent_unacked"] = []

        def resolve_sub(cmd, sub):
            """'ok' -> what a well-behaved partner would send now (None: nothing to send)."""
            if isinstance(sub, tuple):            # ("rel", d): d away from what the DUT expects
                base = st["next_ack"] if cmd == P.LGOOD else st["letter"]
                if sub[1] == 0:
                    sub = "ok"
                else:
                    return (base + sub[1]) % (8 if cmd == P.LGOOD else 4)
            if sub != "ok":
                return sub
            if cmd == P.LGOOD:
                if not st["bringup"]:
                    return 7 if st["adv_rx"] is None else st["adv_rx"]
                return st["sent_unacked"][0] if st["sent_unacked"] and not st["p_ignoring"] else None
            if cmd == P.LBAD:
                return 0 if st["bringup"] and st["sent_unacked"] and not st["p_ignoring"] else None
            if cmd == P.LCRD:
                if not st["bringup"] or st["given"] - st["held"] >= 4:
                    return None
                return st["letter"]
            return 0

        def link_lost():
            st.update(ignore=False, lbad_owed=False, credits=0, inflight_good=0, bringup=False, sent_unacked=[],
                      letter=0, held=0, given=0, p_ignoring=False, ackq=[])
            st["offer"] = None

        # ---- one clock cycle ---------------------------------------------------------------------------
        async def cycle():
            c = st["cycle"]
            if c >= max_cycles:
                raise _Abort()
            # --- partner: receiver detection and LFPS (reactive)
            if ctx.get(phy.perform_rx_detection) and st.get("present", True) and not st["rst"]:
                if st.get("det_wait", 0) <= 0:
                    setsig(phy.link_partner_detected, 1)
                    log({"e": "det"})
                    st["det_wait"] = 3
                else:
                    st["det_wait"] -= 1
                    setsig(phy.link_partner_detected, 0)
            else:
                setsig(phy.link_partner_detected, 0)
            lf = 0
            if ctx.get(phy.send_lfps_polling):
                st["lfps_sent"] += 1
                setsig(phy.lfps_cycles_sent, st["lfps_sent"] & 0xFFFF)
                if st.get("lfps_on", True) and st["lfps_sent"] % 3 == 0:
                    lf = 1
                    log({"e": "lfps"})
            setsig(phy.lfps_polling_detected, lf)
            # --- partner word / idle
            tag = None
            if words:
                data, ctrl, tag = words.pop(0)
                st["last_word"] = c
                if (data, ctrl) == P.HPSTART:
                    st["hp_t0"] = c
            else:
                data, ctrl = 0, 0
            for s in (phy.source, phy.raw_source):
                setsig(s.valid, 1)
                setsig(s.data, data)
                setsig(s.ctrl, ctrl)
            # partner idle run (logged once when it reaches two words after non-idle traffic while the link is down)
            if (data, ctrl) == (0, 0):
                st["pidle_run"] += 1
                if st["pidle_run"] == 2 and not st["up"]:
                    log({"e": "pidle"}, quiet_reset=False)
            else:
                st["pidle_run"] = 0
            if isinstance(tag, tuple):            # a word of a partner training set
                if tag[4]:                        # ... its last one: one more complete set
                    key = tag[1:4]
                    if st["pts"] == key:
                        st["pts_n"] += 1
                    else:
                        st["pts"], st["pts_n"] = key, 1
                    if st["pts_n"] == 8:          # eight consecutive identical sets = what a TS detector reports
                        st["pts_n"] = 0
                        log({"e": "ts", "k": tag[1], "hot": bool(tag[2]), "nscr": bool(tag[3])})
                tag = None
            else:
                st["pts"], st["pts_n"] = None, 0
            # --- PHY ready: as USB3PhysicalLayer drives it -- a word is taken every cycle, except in electrical idle
            #     (sink.ready = registered ~tx_electrical_idle through the scrambler / CTC stage).  Optional bounded
            #     stalls (stall_p) exist for experiments only; the checks do not use them.
            if st["ei_prev"] or (stall_p and st["stall"] < MAX_STALL and rng.random() < stall_p):
                st["stall"] += 1
                setsig(phy.sink.ready, 0)
                rdy = 0
            else:
                st["stall"] = 0
                setsig(phy.sink.ready, 1)
                rdy = 1
            # --- protocol layer: consumer
            qr = 1 if (st["want"] > 0 or (st["auto"] and rng.random() < st["auto"])) else 0
            setsig(dut.header_source.ready, qr)
            # --- protocol layer: producer
            o = st["offer"]
            if o is not None:
                setsig(dut.header_sink.valid, 1)
                if not o.get("driven"):
                    h = dut.header_sink.header
                    ctx.set(h.dw0, o["dw"][0]); ctx.set(h.dw1, o["dw"][1]); ctx.set(h.dw2, o["dw"][2])
                    ctx.set(h.sequence_number, o["seq_in"]); ctx.set(h.hub_depth, o["hub"])
                    ctx.set(h.delayed, 0); ctx.set(h.deferred, o["df"])
                    o["driven"] = True
            else:
                setsig(dut.header_sink.valid, 0)
            # --- protocol layer: data packet producer (data_sink)
            dp = st["dp"]
            if dp is not None and dp["i"] < len(dp["words"]):
                w, vm = dp["words"][dp["i"]]
                setsig(dut.data_sink.valid, vm)
                setsig(dut.data_sink.data, w)
                setsig(dut.data_sink.first, 1 if dp["i"] == 0 else 0)
                setsig(dut.data_sink.last, 1 if dp["i"] == len(dp["words"]) - 1 else 0)
                if not dp["logged"]:
                    dp["logged"] = True
                    log({"e": "dp_offer", "n": dp["n"]})
            else:
                setsig(dut.data_sink.valid, 0)
                setsig(dut.data_sink.first, 0)
                setsig(dut.data_sink.last, 0)
            if dp is not None and dp.get("zlp"):
                setsig(dut.data_sink_send_zlp, 1)
                dp["zlp"] = False
                dp["logged"] = True
                log({"e": "dp_offer", "n": 0})
            else:
                setsig(dut.data_sink_send_zlp, 0)
            # --- input events of this cycle
            if tag is not None:
                if tag["e"] == "hdr":
                    tag["t0"] = st["hp_t0"]
                    if tag.pop("_g", False):
                        st["inflight_good"] -= 1
                log(tag)
                mirror_sent(tag)
                st["last_prx"] = c
            # --- DUT outputs: link state
            tr = ctx.get(dut.trained)
            if tr and not st["up"]:
                st["up"] = True
                info["up_t"].append(c)
                log({"e": "up"})
                st["last_prx"] = c
                st["adv_due"] = c + st.get("adv_delay", 2)
            elif not tr and st["up"]:
                st["up"] = False
                info["down_t"].append(c)
                log({"e": "down"})
                link_lost()
                words[:] = [x for x in words if isinstance(x[2], tuple)]       # the partner stops U0 traffic
            # --- DUT outputs: transmit stream
            ei = ctx.get(phy.tx_electrical_idle)
            st["ei_prev"] = ei
            v = ctx.get(phy.sink.valid)
            cs = ctx.get(phy.can_send_skp)
            sk = ctx.get(ctc.sending_skip)
            if ei:
                if parser.state in ("lc", "hp", "dpp"):
                    # the transmitter went to electrical idle in the middle of a unit: it is never completed
                    log({"e": "tx_abort"})
                    parser.state = "idle"
                    st["cs_in_unit"] = st["skp_in_unit"] = 0
                elif parser.state == "ts":
                    parser.state = "idle"
                ph = "LFPS" if ctx.get(phy.send_lfps_polling) else "EI"
                if ph != st["ph"]:
                    st["ph"] = ph
                    log({"e": "txph", "ph": ph, "hot": False}, quiet_reset=False)
                st["idlerun"] = 0
            elif v and rdy:
                d, k = ctx.get(phy.sink.data), ctx.get(phy.sink.ctrl)
                cls, x = parser.feed(d, k, st["up"])
                if cls == "idle":
                    st["idlerun"] += 1
                    if not cs:
                        st["ns"] += 1
                    if sk:
                        st["skp_idle"] = st.get("skp_idle", 0) + 1
                    if st["idlerun"] == 3 and st["ph"] != "LI":
                        st["ph"] = "LI"
                        log({"e": "txph", "ph": "LI", "hot": False, "t1": c - 2}, quiet_reset=False)
                else:
                    st["idlerun"] = 0
                    if cs:
                        st["cs_in_unit"] += 1
                    if sk:
                        st["skp_in_unit"] += 1
                if x is not None:
                    kind = x[0]
                    if kind == "ts_first":
                        ph = {"tseq": "TSEQ", "ts1": "TS1", "ts2": "TS2", "tsx": "TSX"}[x[1]]
                        hot = bool(x[2]) and x[1] == "ts2"
                        if (ph, hot) != (st["ph"], st.get("phhot", False)):
                            st["ph"], st["phhot"] = ph, hot
                            log({"e": "txph", "ph": ph, "hot": hot}, quiet_reset=False)
                            if hot:
                                st["exp"] = 0          # the partner, too, restarts its sequence numbers after a hot reset
                    elif kind == "ts_set":
                        if st["dts"][0] == x[1]:
                            st["dts"][1] += 1
                        else:
                            st["dts"] = [x[1], 1]
                        if st["cs_in_unit"] or st["skp_in_unit"]:
                            log({"e": "ts_skp", "cs": st["cs_in_unit"], "sk": st["skp_in_unit"]})
                            st["cs_in_unit"] = st["skp_in_unit"] = 0
                    elif kind == "lc_first":
                        log({"e": "txs", "ns": st["ns"]}, quiet_reset=False)
                        st["ns"] = 0
                        info["lc"].append([c, None, None])
                    elif kind == "lc":
                        lo, hi = P.limbs(x[1])
                        pc = P.parse_link_command_word(x[1])
                        is_ka = pc["ok"] and pc["cmd"] in (P.LUP, P.LDN)
                        log({"e": "txe", "lo": lo, "hi": hi, "ctrl": x[2], "cs": st["cs_in_unit"],
                             "sk": st["skp_in_unit"]}, quiet_reset=not is_ka)
                        st["cs_in_unit"] = st["skp_in_unit"] = 0
                        if info["lc"]:
                            info["lc"][-1][1] = c
                            info["lc"][-1][2] = x[1]
                        if st["up"] and pc["ok"]:
                            if pc["cmd"] == P.LCRD:
                                st["credits"] += 1
                            elif pc["cmd"] == P.LBAD:
                                st["lbad_owed"] = False
                                if st["auto_ack"] is not None:
                                    st["ackq"].append([c + st["auto_ack"] + 2, "lrty"])
                            elif pc["cmd"] == P.LRTY:
                                st["p_ignoring"] = False
                            elif pc["cmd"] == P.LGOOD and st["adv_rx"] is None:
                                pass
                    elif kind == "hp_first":
                        log({"e": "hps", "ns": st["ns"], "w": [0] * 8, "dph": False})
                        st["hps_rec"] = ev[-1]
                        st["ns"] = 0
                        info["hp"].append([c, None])
                        st["hp_in_u0"] = st["up"]
                    elif kind == "hp":
                        lim = []
                        for w in x[1]:
                            lim += P.limbs(w)
                        log({"e": "hpe", "w": lim, "ctrl": max(x[2]), "cs": st["cs_in_unit"], "sk": st["skp_in_unit"]})
                        if st.get("hps_rec") is not None:
                            # the start record learns what the packet turned out to be (DW0[4:0] = 8: data packet header)
                            st["hps_rec"]["w"] = lim
                            st["hps_rec"]["dph"] = (x[1][0] & 0x1F) == 8
                            st["hps_rec"] = None
                        st["cs_in_unit"] = st["skp_in_unit"] = 0
                        if info["hp"]:
                            info["hp"][-1][1] = c
                        f = P.parse_dw3(x[1][3])
                        if st["up"] and st.get("hp_in_u0") and not st["p_ignoring"] \
                                and f["seq"] not in st["sent_unacked"]:
                            st["sent_unacked"].append(f["seq"])
                            if st["auto_ack"] is not None:
                                st["ackq"].append([c + st["auto_ack"], "ack"])
                    elif kind == "dpp_first":
                        log({"e": "dps", "ns": st["ns"]})
                        st["ns"] = 0
                    elif kind == "dpp_end":
                        log({"e": "dpe", "cs": st["cs_in_unit"], "sk": st["skp_in_unit"]})
                        st["cs_in_unit"] = st["skp_in_unit"] = 0
                        info["dp_done"] = info.get("dp_done", 0) + 1
                    elif kind == "other":
                        log({"e": "tx_other", "lo": x[1] & 0xFFFF, "hi": x[1] >> 16, "ctrl": x[2]})
            # --- protocol layer events
            if ctx.get(dut.header_source.valid) and qr:
                h = dut.header_source.header
                lcw = (ctx.get(h.sequence_number) | (ctx.get(h.dw3_reserved) << 3) | (ctx.get(h.hub_depth) << 6)
                       | (ctx.get(h.delayed) << 9) | (ctx.get(h.deferred) << 10))
                lim = []
                for w in (ctx.get(h.dw0), ctx.get(h.dw1), ctx.get(h.dw2)):
                    lim += P.limbs(w)
                log({"e": "consume", "w": lim + [lcw]})
                if st["want"] > 0:
                    st["want"] -= 1
            if o is not None and ctx.get(dut.header_sink.ready):
                lcw = (o["seq_in"] & 7) | ((o["hub"] & 7) << 6) | ((o["df"] & 1) << 10)
                lim = []
                for w in o["dw"]:
                    lim += P.limbs(w)
                log({"e": "acc", "w": lim + [lcw]})
                st["offer"] = None
            if dp is not None and dp["i"] < len(dp["words"]) and ctx.get(dut.data_sink.ready):
                dp["i"] += 1
            await ctx.tick("ss")
            st["cycle"] = c + 1
            if probes is not None:
                info["probe"].append((c, ei, v, cs, ctx.get(phy.sink.data), ctx.get(phy.sink.ctrl))
                                     + tuple(ctx.get(x) for x in probes))
            # --- partner automatic behaviour in U0 (acts for the following cycles)
            if st["up"] and not words and not st.get("hold_auto"):
                if st.get("adv_due") is not None and st["cycle"] >= st["adv_due"] and st.get("auto_adv", True):
                    st["adv_due"] = None
                    n = st.get("adv_n")
                    q_lc(P.LGOOD, rng.randrange(8) if n is None else n)
                    for x in range(st.get("adv_credits", 4)):
                        q_lc(P.LCRD, x)
                elif st["ackq"] and st["ackq"][0][0] <= st["cycle"]:
                    what = st["ackq"].pop(0)[1]
                    if what == "ack":
                        s = resolve_sub(P.LGOOD, "ok")
                        if s is not None and st["bringup"]:
                            q_lc(P.LGOOD, s)
                            # the credit follows once the LGOOD went out (the buffer is held from its delivery on)
                            st["ackq"].insert(0, [st["cycle"] + 3 + st.get("crd_delay", 0), "crd"])
                    elif what == "crd":
                        x = resolve_sub(P.LCRD, "ok")
                        if x is not None:
                            q_lc(P.LCRD, x)
                    elif what == "lrty":
                        if not st["lbad_owed"]:
                            q_lc(P.LRTY, 0)
                elif st["auto_ka"] is not None and st["cycle"] - st["last_prx"] >= st["auto_ka"]:
                    q_lc(P.LDN, 0)
                    st["last_prx"] = st["cycle"]

        # ---- script interpreter -------------------------------------------------------------------------
        async def wait_until(pred, limit):
            n = 0
            while not pred() and n < limit:
                await cycle()
                n += 1
            return pred()

        async def train(opts, stage):
            """Cooperative (reactive) partner for Polling / Recovery / Hot Reset: TS1 groups while the DUT sends TS1,
            then TS2 groups (the first `hot` groups with the Hot Reset bit, as long as the DUT has not echoed it),
            then logical idle.  Delays are in groups of 8 sets."""
            limit = opts.get("limit", 1500)
            n = 0
            sent_ts2 = 0
            hot_left = opts.get("hot", 0)
            extra_ts1 = opts.get("ts1_extra", 0)
            extra_ts2 = opts.get("ts2_extra", 0)
            nscr = opts.get("nscr", 0)
            st["dts"] = [None, 0]
            seen_dut_ts2 = 0
            while n < limit and not st["up"]:
                if not words:
                    ph = st["ph"]
                    if stage == "wait":
                        if ph in ("TS1", "TS2") or opts.get("initiate"):
                            stage = "ts1"
                    if stage == "ts1":
                        # our TS1 until we have received eight TS1 / TS2 from the DUT (and the extra groups are spent)
                        if (st["dts"][0] in ("ts1", "ts2") and st["dts"][1] >= 8 or ph == "TS2") and extra_ts1 <= 0:
                            # (skip_ts2: an uncooperative partner that goes idle without ever sending TS2)
                            stage = "idle" if opts.get("skip_ts2") and ph == "TS2" else \
                                    "ts1" if opts.get("skip_ts2") else "ts2"
                            if stage == "ts1":
                                q_ts(opts.get("ts1_kind", "ts1"), 8)
                        else:
                            q_ts(opts.get("ts1_kind", "ts1"), 8)
                            if st["dts"][0] in ("ts1", "ts2") and st["dts"][1] >= 8 or ph == "TS2":
                                extra_ts1 -= 1
                    if stage == "ts2":
                        dut_ts2 = st["dts"][0] == "ts2" and st["dts"][1] >= 8
                        if hot_left > 0:
                            q_ts("ts2", 8, hot=1, nscr=nscr)
                            if st.get("phhot") and st["ph"] == "TS2":
                                hot_left -= 1
                        elif (dut_ts2 or ph == "LI") and sent_ts2 >= 2 and extra_ts2 <= 0 and not opts.get("never_idle"):
                            stage = "idle"
                        else:
                            q_ts("ts2", 8, nscr=nscr)
                            sent_ts2 += 1
                            if dut_ts2 or ph == "LI":
                                extra_ts2 -= 1
                await cycle()
                n += 1
            return st["up"]

        async def run_ops(ops):
            for op in ops:
                k = op[0]
                if k == "power_on":
                    setsig(phy.ready, 1)
                    setsig(phy.vbus_present, 1)
                    for _ in range(op[1] if len(op) > 1 else 2):
                        await cycle()
                elif k == "config":
                    st.update(op[1])
                elif k == "train":
                    await train(op[1] if len(op) > 1 else {}, "wait")
                elif k == "recover":
                    # the partner enters Recovery: TS1 until the DUT has left U0, then the cooperative handshake
                    o2 = dict(op[1] if len(op) > 1 else {})
                    o2["initiate"] = True
                    st["hold_auto"] = True            # the partner finishes the packet / command it is sending
                    while words:
                        await cycle()
                    for _ in range(o2.get("lead", 3)):
                        await cycle()
                    n = 0
                    while st["up"] and n < 80:
                        if not words:
                            q_ts("ts1", 8)
                        await cycle()
                        n += 1
                    st["hold_auto"] = False
                    if st["up"]:
                        info["skipped"] += 1          # the DUT ignored eight TS1 sets (judged by the specification)
                    else:
                        await train(o2, "wait")
                elif k == "warm_reset":
                    st["hold_auto"] = True
                    while words or st["cycle"] - st["last_word"] < 9:   # Env: no partner word shortly before
                        await cycle()
                    st["hold_auto"] = False
                    setsig(phy.lfps_reset_detected, 1)
                    st["rst"] = True
                    log({"e": "rst", "on": True})
                    st["exp"] = 0
                    st["lfps_sent"] = 0
                    for _ in range(max(1, op[1])):
                        await cycle()
                    setsig(phy.lfps_reset_detected, 0)
                    st["rst"] = False
                    log({"e": "rst", "on": False})
                    await cycle()
                elif k == "wait":
                    for _ in range(op[1]):
                        await cycle()
                elif k == "wait_down":
                    await wait_until(lambda: not st["up"], op[1])
                elif k == "wait_up":
                    await wait_until(lambda: st["up"], op[1])
                elif k == "wait_ready":
                    await wait_until(lambda: bool(ctx.get(dut.ready)), op[1] if len(op) > 1 else 60)
                elif k == "sync":
                    # wait for the next DUT link command (op[1] = "lc_start" | "lc_end") / header packet start
                    what = op[1]
                    n0 = len(info["lc"])
                    h0 = len(info["hp"])
                    if what == "lc_start":
                        await wait_until(lambda: len(info["lc"]) > n0, op[2] if len(op) > 2 else 60)
                    elif what == "lc_end":
                        await wait_until(lambda: len(info["lc"]) > n0 and info["lc"][-1][1] is not None,
                                         op[2] if len(op) > 2 else 60)
                    elif what == "hp_start":
                        await wait_until(lambda: len(info["hp"]) > h0, op[2] if len(op) > 2 else 60)
                elif k == "quiet":
                    n = 0
                    while (st["cycle"] - st["last_act"] < QUIET_CYCLES or words or st["ackq"]
                           or parser.state != "idle") and n < 600:
                        await cycle()
                        n += 1
                    log({"e": "quiet", "qv": bool(ctx.get(dut.header_source.valid)),
                         "qr": bool(ctx.get(dut.header_sink.ready)), "ns": st["ns"]})
                    st["ns"] = 0
                elif k == "hdr":
                    kind, d = op[1], op[2]
                    opts = op[3] if len(op) > 3 else {}
                    if not st["up"]:
                        info["skipped"] += 1
                        continue
                    acceptable = kind == "good" and d == 0 and not st["ignore"]
                    n = 0
                    while acceptable and st["credits"] - st["inflight_good"] <= 0 and n < 80 and st["up"]:
                        await cycle()
                        n += 1
                    if q_hdr(kind, d, opts) is None:
                        info["skipped"] += 1
                        continue
                    if not opts.get("nowait"):
                        while words and st["up"]:
                            await cycle()
                        for _ in range(opts.get("gap", 1)):
                            await cycle()
                elif k == "lc":
                    if not st["up"]:
                        info["skipped"] += 1
                        continue
                    cmd = op[1]
                    if cmd == P.LRTY:
                        n = 0
                        while st["lbad_owed"] and n < 80:
                            await cycle()
                            n += 1
                        if st["lbad_owed"]:
                            info["skipped"] += 1
                            continue
                        sub = 0
                    else:
                        sub = resolve_sub(cmd, op[2] if len(op) > 2 else "ok")
                    if sub is None:
                        info["skipped"] += 1
                        continue
                    q_lc(cmd, sub, op[3] if len(op) > 3 else None)
                    if not (len(op) > 4 and op[4] == "nowait"):
                        while words and st["up"]:
                            await cycle()
                        await cycle()
                elif k == "adv":
                    # the partner's own advertisement, by hand (config auto_adv False)
                    if not st["up"]:
                        info["skipped"] += 1
                        continue
                    q_lc(P.LGOOD, op[1])
                    for x in range(op[2] if len(op) > 2 else 4):
                        q_lc(P.LCRD, x)
                    while words and st["up"]:
                        await cycle()
                elif k == "consume":
                    st["want"] = op[1]
                    n = 0
                    while st["want"] > 0 and n < 40:
                        await cycle()
                        n += 1
                    st["want"] = 0
                elif k == "offer":
                    opts = op[1] if len(op) > 1 else {}
                    dw0 = (rng.getrandbits(32) & ~0x1F) | rng.choice([0, 4, 4, 4, 12])
                    st["offer"] = {"dw": [dw0, rng.getrandbits(32), rng.getrandbits(32)], "seq_in": rng.getrandbits(3),
                                   "hub": rng.getrandbits(3), "df": rng.getrandbits(1)}
                    if not opts.get("nowait"):
                        n = 0
                        while st["offer"] is not None and n < opts.get("limit", 40):
                            await cycle()
                            n += 1
                        if st["offer"] is not None:
                            st["offer"] = None          # withdrawn (never accepted)
                            info["skipped"] += 1
                elif k == "dp":
                    # the protocol layer sends a data packet of op[1] bytes (0: zero-length packet strobe)
                    if not st["up"] or st["offer"] is not None:
                        info["skipped"] += 1
                        continue
                    n = op[1]
                    by = [rng.getrandbits(8) for _ in range(n)]
                    wl = []
                    for i in range(0, n, 4):
                        chunk = by[i:i + 4]
                        wl.append((sum(b << (8 * j) for j, b in enumerate(chunk)), (1 << len(chunk)) - 1))
                    setsig(dut.data_sink_length, n)
                    setsig(dut.data_sink_sequence_number, rng.getrandbits(5))
                    setsig(dut.data_sink_endpoint_number, rng.randrange(1, 16))
                    setsig(dut.data_sink_direction, 1)
                    setsig(dut.current_address, rng.randrange(1, 128))
                    st["dp"] = {"words": wl, "i": 0, "n": n, "logged": False, "zlp": n == 0}
                    d0 = info.get("dp_done", 0)
                    nn = 0
                    while (info.get("dp_done", 0) == d0 or st["dp"]["i"] < len(wl)) and nn < 60 + len(wl) * 2 and st["up"]:
                        await cycle()
                        nn += 1
                    if info.get("dp_done", 0) == d0:
                        info["skipped"] += 1
                    st["dp"] = None
                elif k == "mark":
                    info["marks"][op[1]] = st["cycle"]
                else:
                    raise ValueError("unknown op %r" % (op,))

        for s in (phy.ready, phy.vbus_present, phy.lfps_reset_detected, phy.link_partner_detected,
                  phy.no_link_partner_detected, phy.lfps_polling_detected, phy.lfps_ping_detected):
            setsig(s, 0)
        try:
            await run_ops(script)
        except _Abort:
            info["aborted"] = True
        self.cycles += st["cycle"]
        info["cycles"] = st["cycle"]
        self._out = (ev, info)


class _Abort(Exception):
    pass
