--------------------------- MODULE FrameNumTrace ---------------------------
(***************************************************************************)
(* Trace validation for FrameNum.  A trace is a record                      *)
(*   [init  |-> [frame, micro]      -- values reported before any packet    *)
(*    steps |-> list of [bytes, nf, sd, frame, micro]]                      *)
(* one step per packet the host put on the bus of a real USBDevice.         *)
(***************************************************************************)
EXTENDS FrameNum, TLC, TLCExt, Json, IOUtils

Logs == JsonDeserialize(IOEnv.TRACE_FILE)

VARIABLES tid, l, status
tvars == <<vars, tid, l, status>>

ASSUME \A i \in 1..Len(Logs) : TLCSet(i, <<0, "ok">>)

TInit == /\ tid \in 1..Len(Logs)
         /\ InitWith(Logs[tid].init.frame, Logs[tid].init.micro)
         /\ l = 1 /\ status = "ok"

TNext == /\ status = "ok"
         /\ l <= Len(Logs[tid].steps)
         /\ LET e == Logs[tid].steps[l]
                f == Failing(e)
            IN /\ status' = f
               /\ IF f = "ok" THEN Step(e) ELSE UNCHANGED vars
         /\ l' = l + 1
         /\ UNCHANGED tid

TSpec == TInit /\ [][TNext]_tvars

TraceProp == TypeOK /\ FrameIsLastSof /\ MicroCountsRepeats /\ StrobeIffChange /\ StrobeOnce

\* (the constraint is FALSE after a failure, so the trace is not followed further and the verdict stays)
Verdict == IF status # "ok" THEN status ELSE IF TraceProp THEN "ok" ELSE "prop_invariant"
Progress == TLCSet(tid, <<l - 1, Verdict>>) /\ Verdict = "ok"

Verdicts == JsonSerialize(IOEnv.VERDICT_FILE, [i \in 1..Len(Logs) |-> TLCGet(i)])
=============================================================================
