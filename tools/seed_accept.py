#!/venv/bin/python
"""Confirm a sub-agent's seeded change independently and file it under /verif/seeded/<ID>-<n>/.

usage: tools/seed_accept.py <ID> <n> [--keep-agent-wt]
Confirms in a *fresh* scratch worktree of /repo HEAD: patch applies, unedited test-suite still passes (93),
demo exits 0 on /repo and 1 on the patched tree.  Removes the scratch worktree and the agent's worktree."""
import json
import os
import shutil
import subprocess
import sys
import tempfile
import time

pid, n = sys.argv[1], sys.argv[2]
src = "/tmp/seedwt-%s-%s" % (pid, n)
dst = "/verif/seeded/%s-%s" % (pid, n)
demo = "demo_%s.py" % pid


def sh(cmd, **kw):
    return subprocess.run(cmd, stdout=subprocess.PIPE, stderr=subprocess.STDOUT, text=True, **kw)


patch = open(os.path.join(src, "patch.diff")).read()
meta = json.load(open(os.path.join(src, "meta.json")))
wt = tempfile.mkdtemp(prefix="seedchk-")
os.rmdir(wt)
ok = True
ran = []
try:
    sh(["git", "-C", "/repo", "worktree", "add", "--detach", "-q", wt, "HEAD"])
    r = sh(["git", "-C", wt, "apply", os.path.join(src, "patch.diff")])
    ran.append("git apply patch.diff on /repo HEAD %s: rc=%d" % (sh(["git", "-C", "/repo", "rev-parse", "--short", "HEAD"]).stdout.strip(), r.returncode))
    ok &= r.returncode == 0
    t = sh(["/venv/bin/python", "-m", "pytest", "-q", "-p", "no:cacheprovider", "tests/"], cwd=wt,
           env=dict(os.environ, PYTHONPATH=wt))
    last = [l for l in t.stdout.splitlines() if "passed" in l or "failed" in l][-1:]
    ran.append("pytest tests/ with change: %s" % last)
    ok &= bool(last) and "93 passed" in last[0] and "failed" not in last[0]
    shutil.copy(os.path.join(src, demo), os.path.join(wt, demo))
    d0 = sh(["/venv/bin/python", demo, "/repo"], cwd=wt)
    d1 = sh(["/venv/bin/python", demo, wt], cwd=wt)
    ran.append("demo on /repo: exit %d; demo on patched tree: exit %d" % (d0.returncode, d1.returncode))
    ok &= d0.returncode == 0 and d1.returncode == 1
    print("\n".join(ran))
    if not ok:
        print("NOT CONFIRMED\n", d0.stdout[-800:], "\n", d1.stdout[-800:], t.stdout[-500:])
        sys.exit(1)
    os.makedirs(dst, exist_ok=True)
    open(os.path.join(dst, "patch.diff"), "w").write(patch)
    shutil.copy(os.path.join(src, demo), os.path.join(dst, demo))
    meta["property"] = pid
    meta["confirmed_by_integrator"] = ran
    meta["confirmed_at"] = time.strftime("%Y-%m-%d %H:%M")
    meta["demo_cmd"] = "/venv/bin/python %s <tree>   (exit 0 on the unchanged tree, 1 with patch.diff applied)" % demo
    json.dump(meta, open(os.path.join(dst, "meta.json"), "w"), indent=1)
    print("CONFIRMED ->", dst)
finally:
    sh(["git", "-C", "/repo", "worktree", "remove", "--force", wt])
    shutil.rmtree(wt, ignore_errors=True)
    if "--keep-agent-wt" not in sys.argv and ok:
        sh(["git", "-C", "/repo", "worktree", "remove", "--force", src])
        shutil.rmtree(src, ignore_errors=True)
