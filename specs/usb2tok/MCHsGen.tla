------------------------------- MODULE MCHsGen -------------------------------
(* Bounded instance of HsGen: every combination of the three request strobes and tx_ready in every   *)
(* cycle, every output Ref allows, up to MaxReq accepted requests.                                    *)
EXTENDS HsGen, TLC

CONSTANTS MaxReq, MaxResets

VARIABLE nrst
mcvars == <<vars, nrst>>

Inputs == [ack : BOOLEAN, nak : BOOLEAN, stall : BOOLEAN, ready : BOOLEAN, rst : {FALSE}]
Outputs(i) == {o \in [valid : BOOLEAN, data : {0} \cup BytesOf(Kinds) \cup {byte}] :
                 /\ OutViolation(i, o) = "ok"
                 /\ (~o.valid => o.data = 0)}               \* tx_data is a don't-care while tx_valid is low

Cycle(i) == \E o \in Outputs(i) : Step(i, o)

IdleNoRequest   == \E i \in Inputs : st = "idle" /\ Requested(i) = {} /\ Cycle(i) /\ UNCHANGED nrst
IdleRequest     == \E i \in Inputs : st = "idle" /\ Requested(i) # {} /\ Len(reqLog) < MaxReq /\ Cycle(i) /\ UNCHANGED nrst
PendingCycle    == \E i \in Inputs : st = "pending" /\ Cycle(i) /\ UNCHANGED nrst
SendingStalled  == \E i \in Inputs : st = "sending" /\ ~i.ready /\ Cycle(i) /\ UNCHANGED nrst
SendingAccepted == \E i \in Inputs : st = "sending" /\ i.ready /\ Cycle(i) /\ UNCHANGED nrst
Reset           == \E i \in Inputs : nrst < MaxResets /\ Cycle([i EXCEPT !.rst = TRUE]) /\ nrst' = nrst + 1

Next == IdleNoRequest \/ IdleRequest \/ PendingCycle \/ SendingStalled \/ SendingAccepted \/ Reset
MCInit == Init /\ nrst = 0
Spec == MCInit /\ [][Next]_mcvars

TypeOK == /\ st \in {"idle", "pending", "sending"} /\ kinds \subseteq Kinds /\ age \in 0..GLat
          /\ (st = "pending" <=> kinds # {}) /\ (st = "sending" => byte \in BytesOf(Kinds))

\* the three handshake bytes of [USB2.0 8.3.1]: ACK D2, NAK 5A, STALL 1E
ASSUME HsByte("ack") = 210 /\ HsByte("nak") = 90 /\ HsByte("stall") = 30
=============================================================================
