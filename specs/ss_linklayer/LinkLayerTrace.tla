-------------------------- MODULE LinkLayerTrace --------------------------
(***************************************************************************)
(* Trace validation for LinkLayer.  A trace is the event log of one run of *)
(* the real USB3LinkLayer (hosts/ss_linklayer_bench.py), every record with *)
(* its clock cycle `t`:                                                    *)
(*   {e:"rst",on} {e:"det"} {e:"lfps"} {e:"ts",k,hot,nscr} {e:"pidle"}     *)
(*   {e:"hdr",h}      a header's last word arrived; its words are row h of *)
(*                    the header table (HDR_FILE: 8 x 16-bit limbs)         *)
(*   {e:"lc_rx",lo,hi,ctrl}     a link command word arrived                *)
(*   {e:"acc",w} {e:"consume",w}   header_sink / header_source handshakes  *)
(*                    (w = limbs of DW0..DW2 + link control word)          *)
(*   {e:"up"} {e:"down"} {e:"txph",ph,hot}                                 *)
(*   {e:"txs",ns} {e:"txe",lo,hi,ctrl,cs,sk}                               *)
(*   {e:"hps",ns,w,dph} {e:"hpe",w,ctrl,cs,sk} {e:"dps",ns} {e:"dpe",cs,sk} *)
(*   {e:"dp_offer",n}                                                      *)
(*   {e:"ts_skp",cs,sk} {e:"tx_other",..} {e:"quiet",qv,qr,ns}             *)
(* in the order they happened (inputs before outputs within a cycle).      *)
(* The raw words are decoded here; CRC validity of every header and link   *)
(* command is decided here (LinkCrc.tla = lib/CRC.tla, see MCSsRx of       *)
(* engine ss_linkb), not by the partner model.                             *)
(***************************************************************************)
EXTENDS LinkLayer, LinkCrc, TLC, TLCExt, Json, IOUtils

Logs == JsonDeserialize(IOEnv.TRACE_FILE)
Hdrs == JsonDeserialize(IOEnv.HDR_FILE)       \* distinct headers the partner sent, shared by all traces

VARIABLES tid, l, now, status, rec
tvars == <<vars, tid, l, now, status, rec>>

ASSUME \A i \in 1..Len(Logs) : TLCSet(i, <<0, "ok">>)

(* ---- decoding of logged words ------------------------------------------ *)
HdrKind(w) == IF LinkCrc5(w[8] % 2048) # w[8] \div 2048 THEN "bad5"
              ELSE IF LinkCrc16(SubSeq(w, 1, 6)) # w[7] THEN "bad16"
              ELSE "good"
HdrSeq(w) == w[8] % 8
HdrContent(w) == <<w[1], w[2], w[3], w[4], w[5], w[6], w[8] % 2048>>
HdrKinds == [i \in 1..Len(Hdrs) |-> HdrKind(Hdrs[i])]       \* constant-level: each CRC computed once per run

LcValid(r) == r.ctrl = 0 /\ r.lo = r.hi /\ LinkCrc5(r.lo % 2048) = r.lo \div 2048
LcCmd(r) == (r.lo \div 128) % 16
LcSub(r) == r.lo % 16

\* what the protocol layer handed over: DW0..DW2 and, of the link control word, everything but the sequence
\* number and the Delayed bit, which the link layer owns
KeepLcw(lcw) == lcw - (lcw % 8) - (IF (lcw \div 512) % 2 = 1 THEN 512 ELSE 0)
AccContent(w) == <<w[1], w[2], w[3], w[4], w[5], w[6], KeepLcw(w[7])>>
HpContent(w) == <<w[1], w[2], w[3], w[4], w[5], w[6], KeepLcw(w[8] % 2048)>>
HpCrcOk(w) == LinkCrc5(w[8] % 2048) = w[8] \div 2048 /\ LinkCrc16(SubSeq(w, 1, 6)) = w[7]
ConsContent(w) == <<w[1], w[2], w[3], w[4], w[5], w[6], w[7]>>

\* the abstract record of LinkLayer for a logged record (dt = cycles since the previous record)
Abs(x, dt) ==
    CASE x.e = "rst"   -> [e |-> "rst", dt |-> dt, on |-> x.on]
      [] x.e = "ts"    -> [e |-> "ts", dt |-> dt, k |-> x.k, hot |-> x.hot, nscr |-> x.nscr]
      [] x.e = "hdr"   -> [e |-> "hdr", dt |-> dt, kind |-> HdrKinds[x.h],
                           d |-> (HdrSeq(Hdrs[x.h]) + 8 - r_expSeq) % 8, c |-> HdrContent(Hdrs[x.h])]
      [] x.e = "lc_rx" -> [e |-> "lc", dt |-> dt, valid |-> LcValid(x), cmd |-> LcCmd(x), sub |-> LcSub(x)]
      [] x.e = "acc"   -> [e |-> "acc", dt |-> dt, c |-> AccContent(x.w)]
      [] x.e = "consume" -> [e |-> "consume", dt |-> dt, c |-> ConsContent(x.w)]
      [] x.e = "txph"  -> [e |-> "txph", dt |-> dt, ph |-> x.ph, hot |-> x.hot]
      [] x.e = "txs"   -> [e |-> "txs", dt |-> dt, ns |-> x.ns]
      [] x.e = "txe"   -> [e |-> "txe", dt |-> dt, valid |-> LcValid(x), cmd |-> LcCmd(x), sub |-> LcSub(x),
                           cs |-> x.cs, sk |-> x.sk]
      [] x.e = "hps"   -> [e |-> "hps", dt |-> dt, ns |-> x.ns]
      [] x.e = "hpe"   -> [e |-> "hpe", dt |-> dt, ok |-> (x.ctrl = 0 /\ HpCrcOk(x.w)), s |-> x.w[8] % 8,
                           dl |-> ((x.w[8] \div 512) % 2 = 1), c |-> HpContent(x.w), cs |-> x.cs, sk |-> x.sk,
                           dph |-> (x.w[1] % 32 = 8)]
      [] x.e = "dps"   -> [e |-> "dps", dt |-> dt, ns |-> x.ns]
      [] x.e = "dpe"   -> [e |-> "dpe", dt |-> dt, cs |-> x.cs, sk |-> x.sk]
      [] x.e = "ts_skp" -> [e |-> "ts_skp", dt |-> dt, cs |-> x.cs, sk |-> x.sk]
      [] x.e = "quiet" -> [e |-> "quiet", dt |-> dt, qv |-> x.qv, qr |-> x.qr, ns |-> x.ns]
      [] OTHER         -> [e |-> x.e, dt |-> dt]          \* det lfps pidle up down tx_other

TInit == /\ Init
         /\ tid \in 1..Len(Logs)
         /\ l = 1
         /\ now = 0
         /\ status = "ok"
         /\ rec = [e |-> "init"]

\* Internal steps first (the LBAD -> retry coupling; the keep-alive timer before the record of a link command
\* start), then the record.
TNext ==
    /\ status = "ok"
    /\ l <= Len(Logs[tid])
    /\ UNCHANGED tid
    /\ LET x  == Logs[tid][l]
           dt == IF x.t >= now THEN x.t - now ELSE 0 IN
       IF todo # <<>> THEN Tau /\ UNCHANGED <<l, now, status, rec>>
       ELSE IF x.e = "txs" /\ KaDue(Adv(lk, dt)) /\ r_enabled THEN KaReq(dt) /\ UNCHANGED <<l, now, status, rec>>
       \* a data packet header (the start record carries the words of the complete packet) with nothing queued before it
       ELSE IF x.e = "hps" /\ x.dph /\ lk.dpPend /\ lk.up /\ t_rp >= Len(t_unacked) /\ Tx!AcceptJudge = "ok"
            THEN DpAccept(HpContent(x.w)) /\ UNCHANGED <<l, now, status, rec>>
       ELSE /\ l' = l + 1
            /\ now' = IF x.t >= now THEN x.t ELSE now
            \* (assigned first, so that TLC decodes / judges the record once)
            /\ rec' = Abs(x, dt)
            /\ status' = IF x.t < now THEN "log_time_not_monotonic" ELSE Judge(rec')
            /\ IF status' = "ok" THEN Apply(rec') ELSE UNCHANGED vars

TSpec == TInit /\ [][TNext]_tvars

\* The theorems of the composition are evaluated on every state of every observed execution.
TraceProp == /\ LkTypeOK /\ EnabledAgree /\ UpOnlyTrained /\ NothingWhileDown /\ BusyAgree /\ AdvertisementFirst
             /\ SkpOnlyReplacesIdle /\ KeepaliveBounded /\ RecoveryBounded /\ RxTheorems /\ TxTheorems
             /\ RetryCoupling

Verdict == IF status # "ok" THEN status ELSE IF TraceProp THEN "ok" ELSE "prop_invariant"
Progress == TLCSet(tid, <<l - 1, Verdict>>) /\ Verdict = "ok"

Verdicts == JsonSerialize(IOEnv.VERDICT_FILE, [i \in 1..Len(Logs) |-> TLCGet(i)])
=============================================================================
