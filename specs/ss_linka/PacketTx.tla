------------------------------ MODULE PacketTx ------------------------------
(***************************************************************************)
(* Transmission of header packets and data packets (C36):                  *)
(* RawPacketTransmitter (transmitter.py), alone and inside                 *)
(* PacketTransmitter fed by DataPacketTransmitter (data.py).               *)
(*                                                                         *)
(* Wire format, from [USB3.2 7.2.1]:                                       *)
(*   header packet = HPSTART (SHP SHP SHP EPF), 12 header bytes (DW0..2),  *)
(*     CRC-16 over those 12 bytes, link control word: bits 2:0 header      *)
(*     sequence number, 5:3 reserved, 8:6 hub depth, 9 delayed, 10         *)
(*     deferred, 15:11 CRC-5 over bits 10:0;                               *)
(*   a data packet header (type 01000b in DW0[4:0]) is followed by its     *)
(*   payload: DPPSTART (SDP SDP SDP EPF), the data bytes, CRC-32 over the  *)
(*   data bytes, DPPEND (END END END EPF) -- a byte stream, so the CRC     *)
(*   starts in the byte lane right after the last data byte; on the 32-bit *)
(*   interface the last word is filled up with logical idle (D0.0);        *)
(*   a delayed (retried) data header gets DPPSTART DPPABORT(EDB EDB EDB    *)
(*   EPF) instead.                                                         *)
(*                                                                         *)
(* Grain: one step = one "ss" clock cycle (record e = "cyc"), or one       *)
(* report of what the real link receivers made of the packet just sent     *)
(* (e = "rx").                                                             *)
(*  Env : start request (a one-cycle strobe) with header and payload, PHY   *)
(*        ready, presentation of the payload words on the data stream;     *)
(*        after the strobe the header input may change to any other header *)
(*        (the packet is the one requested at the strobe).                 *)
(*  Ref : expected word sequence (a function of header and payload),       *)
(*        position in it, payload bytes consumed; free: up to maxlat idle  *)
(*        cycles before HPSTART, when payload words are taken.             *)
(*  Prop: MCPacketTx (round trip through a receiver written from the       *)
(*        standard), and the rx records on real traces.                    *)
(***************************************************************************)
EXTENDS SsLink

\* the three CRCs: bit-serial definitions of CRC.tla (overridable by tables built from them, see MCPacketTx)
Crc5(v11) == Usb3Crc5(v11)
HdrCrc16(dw) == Usb3Crc16(dw)
Crc32Of(pl) == Crc32Stream(pl)        \* = Usb3Crc32Bytes(pl), see SsLink

LinkCtl(seq, rsv, hub, dl, df) == seq + 8 * rsv + 64 * hub + 512 * dl + 1024 * df
LinkCtlWord16(lc) == lc + 2048 * Crc5(lc)
HdrType(dw) == dw[1] % 32
IsDataHeader(dw) == HdrType(dw) = 8

Dw3(crc16, lc) == W(BytesOf16(crc16) \o BytesOf16(LinkCtlWord16(lc)), 0)
HeaderWords(dw, crc16, lc) ==
    <<HPSTART, W(SubSeq(dw, 1, 4), 0), W(SubSeq(dw, 5, 8), 0), W(SubSeq(dw, 9, 12), 0), Dw3(crc16, lc)>>

\* the payload part as a stream of <<symbol, isK>> pairs, then packed four to a word
\* (crc = Crc32Of(pl) is passed in as a value: callers bind it once, TLC would otherwise re-evaluate it per use)
DppSyms(pl, crc) ==
    [i \in 1..Len(pl) |-> <<pl[i], 0>>] \o <<<<crc[1], 0>>, <<crc[2], 0>>, <<crc[3], 0>>, <<crc[4], 0>>>>
      \o <<<<END, 1>>, <<END, 1>>, <<END, 1>>, <<EPF, 1>>>>
PadToWord(sy) == sy \o [i \in 1..((4 - (Len(sy) % 4)) % 4) |-> <<IDL, 0>>]
PackWords(sy) ==
    [j \in 1..(Len(sy) \div 4) |->
        W(<<sy[4 * j - 3][1], sy[4 * j - 2][1], sy[4 * j - 1][1], sy[4 * j][1]>>,
          sy[4 * j - 3][2] + 2 * sy[4 * j - 2][2] + 4 * sy[4 * j - 1][2] + 8 * sy[4 * j][2])]

\* everything after the header for a data header
DppWords(delayed, pl, crc) ==
    <<DPPSTART>> \o (IF delayed THEN <<DPPABORT>> ELSE PackWords(PadToWord(DppSyms(pl, crc))))

\* the data header DataPacketTransmitter composes from its parameters (DW0: type, route string 0,
\* device address; DW1: data sequence, EOB 0, direction, endpoint, setup 0, length; DW2: 0)
DataHeaderBytes(addr, ep, dseq, len, dir) ==
    <<8, 0, 0, 2 * addr,
      dseq + 128 * dir, ep, len % 256, len \div 256,
      0, 0, 0, 0>>

-----------------------------------------------------------------------------
(* Transmitter reference.                                                  *)
(* Cycle record r: gen, rdy, ow, done, dsv (payload stream valid mask),    *)
(* dsd (its 4 data bytes), dsr (its ready, observed); on a start cycle     *)
(* also hdr = [dw, seq, rsv, hub, dl, df] (or params = [addr, ep, dseq,   *)
(* len, dir]), pl (payload bytes), free (sequence number assigned by the   *)
(* DUT, not by the Env), maxlat, nodone (the DUT has no `done` output).    *)
NWords(y) == 5 + Len(y.tail)      \* words of the packet in progress
TxInit == [st |-> "idle", dw |-> <<>>, crc16 |-> 0, lc |-> 0, free |-> FALSE, pl |-> <<>>,
           isdata |-> FALSE, delayed |-> FALSE, tail |-> <<>>, k |-> 0, lat |-> 0, maxlat |-> 0,
           consumed |-> 0, obsseq |-> 0, npk |-> 0, nodone |-> FALSE]

\* a start record carries either the header itself or the parameters DataPacketTransmitter builds it from
HdrOf(r) == IF "params" \in DOMAIN r
            THEN [dw |-> DataHeaderBytes(r.params.addr, r.params.ep, r.params.dseq, r.params.len, r.params.dir),
                  seq |-> 0, rsv |-> 0, hub |-> 0, dl |-> 0, df |-> 0]
            ELSE r.hdr

Load(x, r, crc) ==
    LET h  == HdrOf(r)
        dp == IsDataHeader(h.dw)
        tl == IF dp THEN DppWords(h.dl = 1, r.pl, crc) ELSE <<>>
    IN [x EXCEPT !.st = "busy", !.dw = h.dw, !.crc16 = HdrCrc16(h.dw),
                 !.lc = LinkCtl(h.seq, h.rsv, h.hub, h.dl, h.df), !.free = r.free, !.pl = r.pl,
                 !.isdata = dp, !.delayed = (h.dl = 1), !.tail = tl, !.k = 1,
                 !.lat = 0, !.maxlat = r.maxlat, !.consumed = 0, !.npk = x.npk + 1, !.nodone = r.nodone]

\* state in which the outputs of the cycle are judged: a request is accepted in its own cycle
Eff(x, r, crc) == IF x.st = "idle" /\ r.gen THEN Load(x, r, crc) ELSE x
\* the CRC-32 a start record needs (the payload's, when a payload will be sent)
StartCrc(x, r) == IF r.e = "cyc" /\ x.st = "idle" /\ r.gen /\ IsDataHeader(HdrOf(r).dw) /\ HdrOf(r).dl = 0
                  THEN Crc32Of(r.pl) ELSE <<0, 0, 0, 0>>

\* link control word expected in DW3: the sequence number is the observed one when the DUT assigns it
LcFor(y, w) == IF y.free THEN y.lc - (y.lc % 8) + (Hi16(w) % 8) ELSE y.lc

\* which part of the payload section differs (first differing symbol)
DppClause(y, j, w) ==
    LET e == y.tail[j]
        i == 4 * (j - 2) + (CHOOSE q \in 1..4 : (w.d[q] # e.d[q] \/ BitOf(w.c, q - 1) # BitOf(e.c, q - 1))
                                                /\ \A p \in 1..(q - 1) : w.d[p] = e.d[p] /\ BitOf(w.c, p - 1) = BitOf(e.c, p - 1))
        L == Len(y.pl)
    IN IF j = 1 THEN "tx_dppstart"
       ELSE IF y.delayed THEN "tx_dpp_abort"
       ELSE IF i <= L THEN "tx_payload_byte"
       ELSE IF i <= L + 4 THEN "tx_crc32"
       ELSE IF i <= L + 8 THEN "tx_dpp_end_framing"
       ELSE "tx_idle_padding"

WordClause(y, w) ==
    IF y.k = 1 THEN (IF SameWord(w, HPSTART) THEN "ok" ELSE "tx_hpstart")
    ELSE IF y.k <= 4 THEN
        (IF SameWord(w, W(SubSeq(y.dw, 4 * y.k - 7, 4 * y.k - 4), 0)) THEN "ok" ELSE "tx_header_dw")
    ELSE IF y.k = 5 THEN
        (IF w.c # 0 THEN "tx_header_dw"
         ELSE IF Lo16(w) # y.crc16 THEN "tx_crc16"
         ELSE IF Hi16(w) % 2048 # LcFor(y, w) THEN "tx_link_control_word"
         ELSE IF Hi16(w) \div 2048 # Crc5(Hi16(w) % 2048) THEN "tx_crc5"
         ELSE "ok")
    ELSE IF SameWord(w, y.tail[y.k - 5]) THEN "ok" ELSE DppClause(y, y.k - 5, w)

\* payload stream: what a taken word must carry
TakeClause(y, r) ==
    LET m == MaskLen(r.dsv) IN
    IF ~r.dsr \/ r.dsv = 0 THEN "ok"
    ELSE IF y.st = "idle" THEN "tx_payload_taken_while_idle"
    ELSE IF ~y.isdata \/ y.delayed THEN "tx_payload_taken_without_payload_to_send"
    ELSE IF m = 99 \/ y.consumed + m > Len(y.pl) THEN "env_payload_presentation"
    ELSE IF SubSeq(r.dsd, 1, m) # SubSeq(y.pl, y.consumed + 1, y.consumed + m) THEN "env_payload_presentation"
    ELSE IF m < 4 /\ y.consumed + m # Len(y.pl) THEN "env_payload_presentation"
    ELSE "ok"

TxFailingE(y, r) ==
    IF y.st = "idle" THEN
        (IF r.ow.v THEN "tx_output_while_idle" ELSE IF r.done THEN "tx_done_while_idle" ELSE TakeClause(y, r))
    ELSE IF ~r.ow.v THEN
        (IF y.k = 1 /\ y.lat < y.maxlat THEN (IF r.done THEN "tx_done_early" ELSE TakeClause(y, r))
         ELSE IF y.k = 1 THEN "tx_start_latency" ELSE "tx_gap_in_packet")
    ELSE IF WordClause(y, r.ow) # "ok" THEN WordClause(y, r.ow)
    ELSE IF ~y.nodone /\ r.done # (y.k = NWords(y) /\ r.rdy) THEN "tx_done"
    ELSE IF TakeClause(y, r) # "ok" THEN TakeClause(y, r)
    ELSE IF y.k = NWords(y) /\ r.rdy /\ y.isdata /\ ~y.delayed
            /\ y.consumed + (IF r.dsr THEN MaskLen(r.dsv) ELSE 0) # Len(y.pl) THEN "tx_payload_not_consumed"
    ELSE "ok"

TxNextE(y, r) ==
    LET tk  == IF r.dsr /\ r.dsv # 0 THEN MaskLen(r.dsv) ELSE 0
        y1  == [y EXCEPT !.consumed = y.consumed + tk]
    IN IF y.st = "idle" THEN y
       ELSE IF ~r.ow.v THEN [y1 EXCEPT !.lat = y.lat + 1]
       ELSE IF ~r.rdy THEN y1
       ELSE LET y2 == IF y.k = 5 THEN [y1 EXCEPT !.obsseq = Hi16(r.ow) % 8] ELSE y1
            IN IF y.k = NWords(y) THEN [y2 EXCEPT !.st = "idle"] ELSE [y2 EXCEPT !.k = y.k + 1]

-----------------------------------------------------------------------------
(* Round trip on the real receivers (record e = "rx", taken after the      *)
(* packet's words were replayed, contiguously, into the real               *)
(* RawHeaderPacketReceiver and DataPacketReceiver):                        *)
(*   hp_new hp_bad hp_badseq   strobe counts of the header receiver        *)
(*   hp = [dw, seq, rsv, hub, dl, df]   its packet output                  *)
(*   dp_reports  sequence of "good"/"bad" strobes of the data receiver     *)
(*   dp_payload  bytes it streamed; dp_dw header bytes it shows            *)
(* x still holds the packet just completed.                                *)
RxFailing(x, r) ==
    IF x.st # "idle" \/ x.npk = 0 THEN "env_rx_report_without_packet"
    ELSE IF r.hp_bad # 0 THEN "rt_header_crc_rejected"
    ELSE IF r.hp_badseq # 0 THEN "rt_header_sequence"
    ELSE IF r.hp_new # 1 THEN "rt_header_not_received"
    ELSE IF r.hp.dw # x.dw THEN "rt_header_words"
    ELSE IF LinkCtl(r.hp.seq, r.hp.rsv, r.hp.hub, r.hp.dl, r.hp.df)
              # (IF x.free THEN x.lc - (x.lc % 8) + x.obsseq ELSE x.lc) THEN "rt_link_control_word"
    ELSE IF ~x.isdata \/ x.delayed THEN "ok"
    ELSE IF r.dp_reports = <<>> THEN "rt_data_not_reported"
    ELSE IF r.dp_reports[1] # "good" THEN "rt_data_reported_bad"
    ELSE IF r.dp_dw # x.dw THEN "rt_data_header_words"
    ELSE IF r.dp_payload # x.pl THEN "rt_payload"
    ELSE "ok"

\* verdict (first failing clause or "ok") and successor state of one record
\* (y = Eff(x, r) is passed in, bound once by the caller: loading a packet computes its CRCs)
JudgeE(x, y, r) ==
    IF r.e = "rx" THEN [f |-> RxFailing(x, r), n |-> x]
    ELSE [f |-> TxFailingE(y, r), n |-> TxNextE(y, r)]
EffOf(x, r, crc) == IF r.e = "rx" THEN x ELSE Eff(x, r, crc)

-----------------------------------------------------------------------------
(* A receiver written from the standard, for the round-trip theorem on the *)
(* specification: parse the accepted word sequence ws of one packet.       *)
SymsOf(ws) == [i \in 1..(4 * Len(ws)) |-> <<ws[((i - 1) \div 4) + 1].d[((i - 1) % 4) + 1],
                                            BitOf(ws[((i - 1) \div 4) + 1].c, (i - 1) % 4)>>]
RxParse(ws) ==
    IF Len(ws) < 5 \/ ~SameWord(ws[1], HPSTART) THEN [ok |-> FALSE, why |-> "framing"]
    ELSE
      LET dw  == ws[2].d \o ws[3].d \o ws[4].d
          hok == /\ ws[2].c = 0 /\ ws[3].c = 0 /\ ws[4].c = 0 /\ ws[5].c = 0
                 /\ Lo16(ws[5]) = Usb3Crc16(dw)
                 /\ Hi16(ws[5]) \div 2048 = Usb3Crc5(Hi16(ws[5]) % 2048)
          lc  == Hi16(ws[5]) % 2048
      IN IF ~hok THEN [ok |-> FALSE, why |-> "header_crc"]
         ELSE IF ~IsDataHeader(dw) THEN
              (IF Len(ws) = 5 THEN [ok |-> TRUE, dw |-> dw, lc |-> lc, data |-> FALSE, pl |-> <<>>, aborted |-> FALSE]
               ELSE [ok |-> FALSE, why |-> "trailing"])
         ELSE IF Len(ws) < 7 \/ ~SameWord(ws[6], DPPSTART) THEN [ok |-> FALSE, why |-> "dppstart"]
         ELSE IF SameWord(ws[7], DPPABORT) THEN
              [ok |-> Len(ws) = 7, dw |-> dw, lc |-> lc, data |-> TRUE, pl |-> <<>>, aborted |-> TRUE, why |-> "abort"]
         ELSE
           LET sy  == SymsOf(SubSeq(ws, 7, Len(ws)))
               nd  == CHOOSE n \in 0..Len(sy) : (n = Len(sy) \/ sy[n + 1][2] = 1) /\ \A i \in 1..n : sy[i][2] = 0
               db  == [i \in 1..nd |-> sy[i][1]]
           IN IF nd < 4 \/ nd + 4 > Len(sy) THEN [ok |-> FALSE, why |-> "dpp_length"]
              ELSE IF <<sy[nd + 1], sy[nd + 2], sy[nd + 3], sy[nd + 4]>> # <<<<END, 1>>, <<END, 1>>, <<END, 1>>, <<EPF, 1>>>>
                   THEN [ok |-> FALSE, why |-> "dppend"]
              ELSE IF \E i \in (nd + 5)..Len(sy) : sy[i] # <<IDL, 0>> THEN [ok |-> FALSE, why |-> "padding"]
              ELSE IF Len(sy) - (nd + 4) >= 4 THEN [ok |-> FALSE, why |-> "padding"]
              ELSE LET pl == SubSeq(db, 1, nd - 4) IN
                   IF SubSeq(db, nd - 3, nd) # Usb3Crc32Bytes(pl) THEN [ok |-> FALSE, why |-> "crc32"]
                   ELSE [ok |-> TRUE, dw |-> dw, lc |-> lc, data |-> TRUE, pl |-> pl, aborted |-> FALSE]
=============================================================================
