-------------------------------- MODULE SsRx --------------------------------
(***************************************************************************)
(* Reference specification of the receive side of the USB3 link layer's    *)
(* header-packet flow control (luna ... usb3/link/receiver.py,             *)
(* HeaderPacketReceiver), properties C37 and C38.  Written from            *)
(* [USB3.2 7.2.4.1] and the module doc-string, at EVENT grain:             *)
(*                                                                         *)
(*  Env  (what the link partner / protocol layer / LTSSM may do)           *)
(*    HdrArrive(kind, d, c)  a complete header packet arrived; kind =      *)
(*                  "good" | "bad5" | "bad16" (CRC-5 / CRC-16 corrupted),  *)
(*                  d = its sequence number minus the expected one (mod 8) *)
(*    PartnerLrty   the partner's LRTY (retry) link command arrived        *)
(*    Consume       the protocol layer takes the offered header            *)
(*    RetryReq / KeepaliveReq   requests to send LRTY / a keep-alive       *)
(*    LinkDown(reset) / LinkUp  `enable` falls / rises, USB reset          *)
(*    ResetUp       a USB reset strobe while `enable` stays high           *)
(*  Dut  (observable reactions of the receiver; Ref says which are legal)  *)
(*    TxStart       a link command starts to be presented to the PHY       *)
(*    TxEnd(cmd, sub)  its command word has been handed to the PHY         *)
(*                                                                         *)
(* Ref keeps the *obligations* of [7.2.4.1]: which LGOODs are owed (acks), *)
(* how many LCRDs (credOwed) with which letter next, an owed LBAD, the     *)
(* ignore-until-retry flag, the buffered headers and the credits the       *)
(* partner currently holds (adv).  A transmitted command is legal iff it   *)
(* discharges an obligation; latencies and the relative order of LGOOD,    *)
(* LCRD, LBAD, LRTY and keep-alives are left free, except that after the   *)
(* link came up the sequence-number advertisement precedes everything.     *)
(* `Quiet` (the DUT has been idle for a long time) demands that no         *)
(* obligation is left.                                                     *)
(*                                                                         *)
(* Commands in flight when the link goes down (or presented while it is    *)
(* down) are `stale`: they may still complete while the link is down (the  *)
(* property does not speak about them) but never after it came up again.   *)
(***************************************************************************)
EXTENDS Naturals, Sequences

CONSTANTS NBuf,         \* number of header buffers / credits (buffer_count; 4: A B C D)
          KaCmd         \* link command used as keep-alive: 8 = LUP (upstream-facing port), 11 = LDN (downstream_facing)

VARIABLES enabled,      \* `enable` (link in U0)
          expSeq,       \* Rx Header Sequence Number: the number the next accepted header must carry
          pendRst,      \* a USB reset happened since the link went down (sequence restarts at 0)
          buf,          \* accepted headers not yet consumed by the protocol layer: <<[s, c]>> oldest first
          acks,         \* sequence numbers for which an LGOOD is owed, oldest first
          advPending,   \* the head of acks is the sequence-number advertisement (nothing may precede it)
          credOwed,     \* LCRDs owed for freed buffers
          nextCred,     \* letter of the next LCRD (0 = A)
          adv,          \* credits advertised to the partner and not yet used by an accepted header
          ignore,       \* a header was corrupted: ignore headers until the partner's LRTY
          lbadOwed,     \* an LBAD is owed
          lrtyOwed, lrtyMay,   \* an LRTY is owed (must be sent) / may still be sent
          kaOwed, kaMay,       \* same for a keep-alive (LUP)
          cur,          \* command currently being transmitted: "none" | "fresh" | "stale"
          ev,           \* the event that led to this state (for behaviour generation / replay)
          \* ghost history of the current U0 epoch
          gAcc,         \* contents of accepted headers, in order
          gDel,         \* contents of headers delivered to the protocol layer, in order
          gGood,        \* sequence numbers of the LGOODs sent (fresh ones), in order
          gAdv,         \* sequence number that had to be advertised in this epoch
          gCred,        \* letters of the LCRDs sent, in order
          gRecov        \* a header with an unexpected sequence number was seen (link must recover)

rvars == <<enabled, expSeq, pendRst, buf, acks, advPending, credOwed, nextCred, adv, ignore, lbadOwed,
           lrtyOwed, lrtyMay, kaOwed, kaMay, cur>>
gvars == <<gAcc, gDel, gGood, gAdv, gCred, gRecov>>
vars  == <<rvars, ev, gvars>>

LGOOD == 0    LCRD == 1    LRTY == 2    LBAD == 3    LUP == KaCmd
Kinds == {"good", "bad5", "bad16"}
Prev(s) == (s + 7) % 8

-----------------------------------------------------------------------------
Init == /\ enabled = FALSE /\ expSeq = 0 /\ pendRst = FALSE
        /\ buf = <<>> /\ acks = <<>> /\ advPending = FALSE
        /\ credOwed = 0 /\ nextCred = 0 /\ adv = 0
        /\ ignore = FALSE /\ lbadOwed = FALSE
        /\ lrtyOwed = FALSE /\ lrtyMay = FALSE /\ kaOwed = FALSE /\ kaMay = FALSE
        /\ cur = "none"
        /\ ev = [e |-> "init"]
        /\ gAcc = <<>> /\ gDel = <<>> /\ gGood = <<>> /\ gAdv = 7 /\ gCred = <<>> /\ gRecov = FALSE

(* ---- Env ---------------------------------------------------------------- *)

\* Environment assumption: the partner sends a header that would be accepted only while it
\* holds a credit.  Headers arrive only while the link is up.
HdrLegal(kind, d) == enabled /\ ((kind = "good" /\ d = 0 /\ ~ignore) => adv > 0)

HdrArrive(kind, d, c) ==
    /\ HdrLegal(kind, d)
    /\ ev' = [e |-> "hdr", kind |-> kind, d |-> d]
    /\ IF ignore THEN UNCHANGED <<rvars, gvars>>                      \* dropped silently
       ELSE IF kind # "good"                                          \* corrupted: LBAD, then ignore
         THEN /\ lbadOwed' = TRUE /\ ignore' = TRUE
              /\ UNCHANGED <<enabled, expSeq, pendRst, buf, acks, advPending, credOwed, nextCred, adv,
                             lrtyOwed, lrtyMay, kaOwed, kaMay, cur, gvars>>
       ELSE IF d # 0                                                  \* lost sequence: not accepted
         THEN /\ gRecov' = TRUE
              /\ UNCHANGED <<rvars, gAcc, gDel, gGood, gAdv, gCred>>
       ELSE /\ buf'    = Append(buf, [s |-> expSeq, c |-> c])         \* accepted
            /\ acks'   = Append(acks, expSeq)
            /\ expSeq' = (expSeq + 1) % 8
            /\ adv'    = adv - 1
            /\ gAcc'   = Append(gAcc, c)
            /\ UNCHANGED <<enabled, pendRst, advPending, credOwed, nextCred, ignore, lbadOwed,
                           lrtyOwed, lrtyMay, kaOwed, kaMay, cur, gDel, gGood, gAdv, gCred, gRecov>>

\* Environment assumption: the partner answers an LBAD it has *received*; an unsolicited LRTY is
\* legal too (it changes nothing).
PartnerLrty ==
    /\ enabled /\ ~lbadOwed
    /\ ev' = [e |-> "lrty_rx"]
    /\ ignore' = FALSE
    /\ UNCHANGED <<enabled, expSeq, pendRst, buf, acks, advPending, credOwed, nextCred, adv, lbadOwed,
                   lrtyOwed, lrtyMay, kaOwed, kaMay, cur, gvars>>

\* The protocol layer takes the oldest buffered header.  (Also possible while the link is down:
\* whatever is still offered then is an accepted header.)
Consume ==
    /\ buf # <<>>
    /\ ev' = [e |-> "consume"]
    /\ buf' = Tail(buf)
    /\ gDel' = Append(gDel, Head(buf).c)
    /\ credOwed' = IF enabled THEN credOwed + 1 ELSE credOwed
    /\ UNCHANGED <<enabled, expSeq, pendRst, acks, advPending, nextCred, adv, ignore, lbadOwed,
                   lrtyOwed, lrtyMay, kaOwed, kaMay, cur, gAcc, gGood, gAdv, gCred, gRecov>>

RetryReq ==
    /\ enabled
    /\ ev' = [e |-> "retry_req"]
    /\ lrtyOwed' = TRUE /\ lrtyMay' = TRUE
    /\ UNCHANGED <<enabled, expSeq, pendRst, buf, acks, advPending, credOwed, nextCred, adv, ignore,
                   lbadOwed, kaOwed, kaMay, cur, gvars>>

KeepaliveReq ==
    /\ enabled
    /\ ev' = [e |-> "ka_req"]
    /\ kaOwed' = TRUE /\ kaMay' = TRUE
    /\ UNCHANGED <<enabled, expSeq, pendRst, buf, acks, advPending, credOwed, nextCred, adv, ignore,
                   lbadOwed, lrtyOwed, lrtyMay, cur, gvars>>

\* `enable` falls (reset = TRUE: together with a USB reset).  Whatever is in flight becomes stale.
LinkDown(reset) ==
    /\ enabled
    /\ ev' = [e |-> "down", reset |-> reset]
    /\ enabled' = FALSE
    /\ pendRst' = reset
    /\ cur' = IF cur = "none" THEN "none" ELSE IF cur = "stale_up" THEN "stale_up" ELSE "stale"
    /\ UNCHANGED <<expSeq, buf, acks, advPending, credOwed, nextCred, adv, ignore, lbadOwed,
                   lrtyOwed, lrtyMay, kaOwed, kaMay, gvars>>

\* A USB reset while the link is down.
UsbReset ==
    /\ ~enabled
    /\ ev' = [e |-> "reset"]
    /\ pendRst' = TRUE
    /\ UNCHANGED <<enabled, expSeq, buf, acks, advPending, credOwed, nextCred, adv, ignore, lbadOwed,
                   lrtyOwed, lrtyMay, kaOwed, kaMay, cur, gvars>>

\* A USB reset strobe while the link is (still) up -- USB3LinkLayer asserts usb_reset on the first cycle of
\* a warm reset seen in U0, before link_ready falls.  It is a restart point: the state is fresh, the sequence
\* restarts at 0 and the advertisement LGOOD(7) and one credit per buffer are owed again.  A command the DUT
\* had already committed to (in flight) may finish; it discharges nothing.
ResetUp ==
    /\ enabled
    /\ ev' = [e |-> "reset_up"]
    /\ expSeq' = 0 /\ pendRst' = FALSE
    /\ buf' = <<>>
    /\ acks' = <<7>> /\ advPending' = TRUE
    /\ credOwed' = NBuf /\ nextCred' = 0 /\ adv' = 0
    /\ ignore' = FALSE /\ lbadOwed' = FALSE /\ lrtyOwed' = FALSE /\ kaOwed' = FALSE
    /\ cur' = IF cur = "none" THEN "none" ELSE "stale_up"
    /\ gAcc' = <<>> /\ gDel' = <<>> /\ gGood' = <<>> /\ gAdv' = 7 /\ gCred' = <<>> /\ gRecov' = FALSE
    /\ UNCHANGED <<enabled, lrtyMay, kaMay>>

\* The `ss` clock domain is reset (ResetSignal): every register returns to its power-on value.  With the link
\* up this is a restart point like ResetUp, except that a command in flight is cut off (it never completes);
\* with the link down it leaves the power-on state, which advertises from sequence 0 at the next link-up.
DomainReset ==
    /\ ev' = [e |-> "dreset"]
    /\ cur' = "none" /\ lrtyMay' = FALSE /\ kaMay' = FALSE /\ lrtyOwed' = FALSE /\ kaOwed' = FALSE
    /\ IF enabled
         THEN /\ expSeq' = 0 /\ pendRst' = FALSE /\ buf' = <<>>
              /\ acks' = <<7>> /\ advPending' = TRUE /\ credOwed' = NBuf /\ nextCred' = 0 /\ adv' = 0
              /\ ignore' = FALSE /\ lbadOwed' = FALSE
              /\ gAcc' = <<>> /\ gDel' = <<>> /\ gGood' = <<>> /\ gAdv' = 7 /\ gCred' = <<>> /\ gRecov' = FALSE
              /\ UNCHANGED enabled
         ELSE /\ pendRst' = TRUE
              /\ UNCHANGED <<enabled, expSeq, buf, acks, advPending, credOwed, nextCred, adv, ignore, lbadOwed, gvars>>

\* `enable` rises: the receive state is fresh; the sequence-number advertisement and one credit
\* per buffer are owed.  (C38)
LinkUp ==
    /\ ~enabled
    /\ ev' = [e |-> "up"]
    /\ LET e0 == IF pendRst THEN 0 ELSE expSeq IN
        /\ enabled' = TRUE /\ pendRst' = FALSE
        /\ expSeq' = e0
        /\ buf' = <<>>
        /\ acks' = <<Prev(e0)>> /\ advPending' = TRUE
        /\ credOwed' = NBuf /\ nextCred' = 0 /\ adv' = 0
        /\ ignore' = FALSE /\ lbadOwed' = FALSE
        /\ lrtyOwed' = FALSE /\ kaOwed' = FALSE
        /\ gAcc' = <<>> /\ gDel' = <<>> /\ gGood' = <<>> /\ gAdv' = Prev(e0) /\ gCred' = <<>>
        /\ gRecov' = FALSE
    /\ UNCHANGED <<lrtyMay, kaMay, cur>>

(* ---- Dut ---------------------------------------------------------------- *)

TxStart ==
    /\ cur = "none"
    /\ ev' = [e |-> "txs"]
    /\ cur' = IF enabled THEN "fresh" ELSE "stale"
    /\ UNCHANGED <<enabled, expSeq, pendRst, buf, acks, advPending, credOwed, nextCred, adv, ignore,
                   lbadOwed, lrtyOwed, lrtyMay, kaOwed, kaMay, gvars>>

\* Name of the first obligation a fresh command (cmd, sub) fails to discharge, or "ok".
TxJudge(cmd, sub) ==
    IF cmd = LGOOD THEN (IF acks = <<>> THEN "lgood_not_owed"
                         ELSE IF sub # Head(acks) THEN "lgood_seq" ELSE "ok")
    ELSE IF advPending THEN "adv_lgood_first"
    ELSE IF cmd = LCRD THEN (IF credOwed = 0 THEN "lcrd_not_owed"
                             ELSE IF sub # nextCred THEN "lcrd_letter" ELSE "ok")
    ELSE IF cmd = LBAD THEN (IF lbadOwed THEN "ok" ELSE "lbad_not_owed")
    ELSE IF cmd = LRTY THEN (IF lrtyMay THEN "ok" ELSE "lrty_not_owed")
    ELSE IF cmd = LUP  THEN (IF kaMay THEN "ok" ELSE "keepalive_not_owed")
    ELSE "unexpected_command"

TxEndFresh(cmd, sub) ==
    /\ cur = "fresh" /\ enabled
    /\ TxJudge(cmd, sub) = "ok"
    /\ ev' = [e |-> "txe", cmd |-> cmd, sub |-> sub]
    /\ cur' = "none"
    /\ acks' = IF cmd = LGOOD THEN Tail(acks) ELSE acks
    /\ advPending' = IF cmd = LGOOD THEN FALSE ELSE advPending
    /\ gGood' = IF cmd = LGOOD THEN Append(gGood, sub) ELSE gGood
    /\ credOwed' = IF cmd = LCRD THEN credOwed - 1 ELSE credOwed
    /\ nextCred' = IF cmd = LCRD THEN (nextCred + 1) % NBuf ELSE nextCred
    /\ adv' = IF cmd = LCRD THEN adv + 1 ELSE adv
    /\ gCred' = IF cmd = LCRD THEN Append(gCred, sub) ELSE gCred
    /\ lbadOwed' = IF cmd = LBAD THEN FALSE ELSE lbadOwed
    /\ lrtyOwed' = IF cmd = LRTY THEN FALSE ELSE lrtyOwed
    /\ lrtyMay'  = IF cmd = LRTY THEN FALSE ELSE lrtyMay
    /\ kaOwed'   = IF cmd = LUP THEN FALSE ELSE kaOwed
    /\ kaMay'    = IF cmd = LUP THEN FALSE ELSE kaMay
    /\ UNCHANGED <<enabled, expSeq, pendRst, buf, ignore, gAcc, gDel, gAdv, gRecov>>

\* A stale command may only complete while the link is still down (or, if it was in flight at a reset
\* with the link up, whenever it is done); it discharges nothing.
TxEndStale ==
    /\ (cur = "stale" /\ ~enabled) \/ cur = "stale_up"
    /\ ev' = [e |-> "txe_stale"]
    /\ cur' = "none"
    /\ UNCHANGED <<enabled, expSeq, pendRst, buf, acks, advPending, credOwed, nextCred, adv, ignore,
                   lbadOwed, lrtyOwed, lrtyMay, kaOwed, kaMay, gvars>>

\* What `Quiet` (idle for long) demands.
QuietJudge ==
    IF cur # "none" THEN "quiet_command_unfinished"
    ELSE IF ~enabled THEN "ok"
    ELSE IF acks # <<>> THEN (IF advPending THEN "quiet_adv_lgood_missing" ELSE "quiet_lgood_missing")
    ELSE IF credOwed # 0 THEN "quiet_lcrd_missing"
    ELSE IF lbadOwed THEN "quiet_lbad_missing"
    ELSE IF lrtyOwed THEN "quiet_lrty_missing"
    ELSE IF kaOwed THEN "quiet_keepalive_missing"
    ELSE "ok"

Quiet ==
    /\ QuietJudge = "ok"
    /\ ev' = [e |-> "quiet"]
    /\ UNCHANGED <<rvars, gvars>>

-----------------------------------------------------------------------------
(* Prop: theorems about Ref, checked by TLC on every reachable state. *)

TypeOK == /\ expSeq \in 0..7 /\ credOwed \in 0..NBuf /\ adv \in 0..NBuf /\ nextCred \in 0..(NBuf-1)
          /\ Len(buf) <= NBuf
          /\ cur \in {"none", "fresh", "stale", "stale_up"}

\* C37: buffered + advertised never exceed the buffer count (credits are conserved).
CreditConservation == enabled => Len(buf) + adv + credOwed = NBuf
BufferedPlusAdvertised == Len(buf) + adv <= NBuf

\* C37: every accepted header is offered exactly once and in order.
DeliveredInOrder == enabled => gDel \o [i \in 1..Len(buf) |-> buf[i].c] = gAcc

\* C37: LGOODs carry, in order, the advertised number and then the numbers of the accepted headers.
\* (first LGOOD of the epoch = gAdv, the k-th following one = gAdv + k)
LgoodNumbers == enabled =>
    /\ \A i \in 1..Len(gGood) : gGood[i] = (gAdv + i - 1) % 8
    /\ Len(gGood) + Len(acks) = 1 + Len(gAcc)
    /\ \A i \in 1..Len(acks) : acks[i] = (gAdv + Len(gGood) + i - 1) % 8

\* C37: LCRD letters go A B C D A ... from A in every epoch, one per freed buffer (plus the NBuf initial).
LcrdLetters == enabled =>
    /\ \A i \in 1..Len(gCred) : gCred[i] = (i - 1) % NBuf
    /\ Len(gCred) + credOwed = NBuf + Len(gDel)

\* C37: while ignoring, an LBAD was owed / sent and nothing is accepted (by construction of HdrArrive);
\* an LBAD is never owed unless ignoring.
LbadOnlyWhenIgnoring == lbadOwed => ignore

\* C38: right after the link came up the state is fresh.
FreshAfterUp == [][(ev'.e = "up" \/ ev'.e = "reset_up" \/ (ev'.e = "dreset" /\ enabled)) =>
    /\ buf' = <<>> /\ ~ignore' /\ ~lbadOwed' /\ ~lrtyOwed' /\ ~kaOwed'
    /\ acks' = <<Prev(expSeq')>> /\ advPending' /\ credOwed' = NBuf /\ nextCred' = 0 /\ adv' = 0]_vars

\* C38: the first command of an epoch is the advertisement, and no credit precedes it.
AdvFirst == (enabled /\ advPending) => (gGood = <<>> /\ gCred = <<>>)

\* C38: a sequence restart after USB reset.
ResetRestartsSequence == [][((ev'.e = "up" /\ pendRst) \/ ev'.e = "reset_up") => (expSeq' = 0 /\ gAdv' = 7)]_vars
=============================================================================
