---------------------------- MODULE MCTsEmitter ----------------------------
(* Bounded instance of TrainingSets (emitter side): every start / ready       *)
(* schedule; the words accepted by the sink are collected and compared with    *)
(* EmitN well-formed sets when `done` is shown.                                *)
EXTENDS TrainingSets, TLC

CONSTANTS MaxBursts

VARIABLES s, in,
          out,      \* ghost: words accepted in the current burst
          cfg,      \* Env: the request bits held during the current burst
          bursts, prevstart
vars == <<s, in, out, cfg, bursts, prevstart>>

CfgSet == IF HasCfg THEN {[hr |-> FALSE, lb |-> FALSE, ns |-> FALSE], [hr |-> TRUE, lb |-> FALSE, ns |-> TRUE],
                          [hr |-> FALSE, lb |-> TRUE, ns |-> FALSE]}
          ELSE {[hr |-> FALSE, lb |-> FALSE, ns |-> FALSE]}
NoRec == [start |-> FALSE, rdy |-> FALSE, hr |-> FALSE, lb |-> FALSE, ns |-> FALSE, ow |-> NoWord, done |-> FALSE, rst |-> FALSE,
          iw |-> NoWord, det |-> FALSE, dhr |-> FALSE, dlb |-> FALSE, dsd |-> FALSE]
Init == /\ s = SInit /\ in = NoRec /\ out = <<>> /\ cfg \in CfgSet /\ bursts = 0 /\ prevstart = FALSE

\* Env assumption: start rises only while the emitter is idle (it may be held, and dropped at any time);
\* the request bits change only while idle
Cycle(start, rdy, c) ==
    LET e  == s.e
        r0 == [NoRec EXCEPT !.start = start, !.rdy = rdy, !.hr = c.hr, !.lb = c.lb, !.ns = c.ns]
        outs == IF e.st = "idle" THEN {NoWord}
                ELSE {EmExpected(e, r0)} \cup (IF e.k = 1 /\ e.sets = 0 /\ e.lat < MaxStartLat THEN {NoWord} ELSE {})
    IN \E ow \in outs :
         LET r == [r0 EXCEPT !.ow = ow, !.done = (e.st = "burst" /\ ow.v /\ e.k = SetLen /\ e.sets = EmitN - 1 /\ rdy)]
             j == Judge(s, r)
         IN /\ j.f = "ok"
            /\ s' = j.n
            /\ in' = r
            /\ out' = IF e.st = "idle" THEN <<>> ELSE IF in.done THEN (IF ow.v /\ rdy THEN <<ow>> ELSE <<>>)
                      ELSE IF ow.v /\ rdy THEN Append(out, ow) ELSE out
            /\ cfg' = c
            /\ prevstart' = start
            /\ bursts' = IF r.done THEN bursts + 1 ELSE bursts

WhileIdle  == s.e.st = "idle" /\ bursts < MaxBursts /\ \E st \in Bool, rdy \in Bool, c \in CfgSet : Cycle(st, rdy, c)
WhileBurst == s.e.st = "burst" /\ \E st \in (IF prevstart /\ bursts + 1 < MaxBursts THEN Bool ELSE {FALSE}), rdy \in Bool : Cycle(st, rdy, cfg)
Next == WhileIdle \/ WhileBurst
Spec == Init /\ [][Next]_vars

-----------------------------------------------------------------------------
(* Prop *)
\* C43: when `done` is shown, exactly EmitN consecutive well-formed sets went out, with the requested bits
ExactlyN ==
    in.done =>
      /\ Len(out) = EmitN * SetLen
      /\ \A i \in 1..Len(out) : IsSetWord(out[i], ((i - 1) % SetLen) + 1)
      /\ HasCfg => \A q \in 0..(EmitN - 1) : CfgOf(out[q * SetLen + 2]) = [hr |-> in.hr, lb |-> in.lb, ns |-> in.ns]
NeverMore == Len(out) <= EmitN * SetLen
=============================================================================
