--------------------------- MODULE ScramblerTrace ---------------------------
(***************************************************************************)
(* Trace validation for C31.  A trace is a record                          *)
(*   [cfg |-> [kind, seed, start], steps |-> <<per-cycle records>>]         *)
(* recorded from the real gateware:                                        *)
(*  kind "lfsr"  : ScramblerLFSR alone.  step = [adv, clr, val]             *)
(*                 val = the four key bytes shown on `value` this cycle.    *)
(*  kind "scr"   : Scrambler / Descrambler alone.                           *)
(*                 step = [v, r, h, en, clr, w, ov, ow]  (inputs; observed  *)
(*                 source.valid and source word, sampled before the edge).  *)
(*  kind "pipe"  : a real Scrambler feeding a real Descrambler (or the      *)
(*                 whole physical layer looped back TX->RX).                 *)
(*                 step = [tx, rx]: tx = <<word>> consumed un-held from the *)
(*                 link side this cycle (or <<>>), rx = <<word>> delivered  *)
(*                 at the far end this cycle (or <<>>).  With cfg.sync the  *)
(*                 comparison starts at the first COMx4 word on each side   *)
(*                 (pipeline fill, alignment).                              *)
(* cfg.seed = restart value of the LFSR; cfg.start = its state at step 1.  *)
(***************************************************************************)
EXTENDS SsLfsr, TLC, TLCExt, Json, IOUtils

Logs == JsonDeserialize(IOEnv.TRACE_FILE)

VARIABLES tid, l, status,
          s,          \* Ref: LFSR state
          q,          \* pipe: words consumed at the near end, not yet delivered at the far end
          syn,        \* pipe: <<tx synchronised, rx synchronised>>
          wst         \* WordStep(s), computed once per step (TLC re-evaluates a LET per use)
tvars == <<tid, l, status, s, q, syn, wst>>

Cfg  == Logs[tid].cfg
Rec  == Logs[tid].steps[l]
NSteps(t) == Len(Logs[t].steps)

Seed == Cfg.seed
WStep(x) == WordStep(x)
INSTANCE Scrambler

ASSUME \A i \in 1..Len(Logs) : TLCSet(i, <<0, "ok">>)

COM4 == <<COM, COM, COM, COM>>
Word(x) == <<x[1], x[2], x[3], x[4]>>

-----------------------------------------------------------------------------
InOf(r) == [valid |-> r.v, ready |-> r.r, hold |-> r.h, en |-> r.en, clr |-> r.clr, w |-> Word(r.w)]

FailScr(r, ws) ==
    LET i == InOf(r)
        e == ScrWordK(ws.key, r.en, i.w)
    IN IF r.ov # r.v THEN "valid_passthrough"
       ELSE IF ~HoldLegal(i) THEN "env_hold_on_com"
       ELSE IF r.v /\ \E k \in 1..4 : IsCtrl(i.w[k]) /\ r.ow[k] # i.w[k] THEN "control_symbol_changed"
       ELSE IF r.v /\ \E k \in 1..4 : ~IsCtrl(i.w[k]) /\ r.ow[k] # e[k] THEN
                (IF r.en THEN "data_symbol_keystream" ELSE "data_symbol_when_disabled")
       ELSE "ok"

FailLfsr(r, ws) == IF Word(r.val) # ws.key THEN "lfsr_value" ELSE "ok"

\* pipe: far-end word must be the oldest outstanding near-end word
PipeTxOn(r) == syn[1] \/ (r.tx # <<>> /\ Word(r.tx[1]) = COM4)
PipeRxOn(r) == syn[2] \/ (r.rx # <<>> /\ Word(r.rx[1]) = COM4)
PipeQ1(r)   == IF r.tx # <<>> /\ PipeTxOn(r) THEN Append(q, Word(r.tx[1])) ELSE q
FailPipe(r) ==
    IF r.rx # <<>> /\ PipeRxOn(r)
      THEN (IF PipeQ1(r) = <<>> THEN "delivered_word_never_sent"
            ELSE IF Word(r.rx[1]) # Head(PipeQ1(r)) THEN "round_trip_mismatch"
            ELSE "ok")
      ELSE IF Len(PipeQ1(r)) > Cfg.maxlat THEN "word_lost_or_latency_bound"
      ELSE "ok"

TInit == /\ tid \in 1..Len(Logs)
         /\ l = 1
         /\ status = "ok"
         /\ s = Logs[tid].cfg.start
         /\ q = <<>>
         /\ syn = <<~Logs[tid].cfg.sync, ~Logs[tid].cfg.sync>>
         /\ wst = IF Logs[tid].cfg.kind = "pipe" THEN [key |-> <<0, 0, 0, 0>>, next |-> 0] ELSE WordStep(Logs[tid].cfg.start)

TNext == /\ status = "ok"
         /\ l <= NSteps(tid)
         /\ LET r  == Rec IN
              CASE Cfg.kind = "scr" ->
                     /\ status' = FailScr(r, wst)
                     /\ s' = LfsrNextW(s, wst.next, InOf(r))
                     /\ wst' = IF s' = s THEN wst ELSE WordStep(s')
                     /\ UNCHANGED <<q, syn>>
                [] Cfg.kind = "lfsr" ->
                     /\ status' = FailLfsr(r, wst)
                     /\ s' = IF r.clr THEN Seed ELSE IF r.adv THEN wst.next ELSE s
                     /\ wst' = IF s' = s THEN wst ELSE WordStep(s')
                     /\ UNCHANGED <<q, syn>>
                [] Cfg.kind = "pipe" ->
                     /\ status' = FailPipe(r)
                     /\ q' = IF r.rx # <<>> /\ PipeRxOn(r) /\ PipeQ1(r) # <<>> THEN Tail(PipeQ1(r)) ELSE PipeQ1(r)
                     /\ syn' = <<PipeTxOn(r), PipeRxOn(r)>>
                     /\ UNCHANGED <<s, wst>>
         /\ l' = l + 1
         /\ UNCHANGED tid

TSpec == TInit /\ [][TNext]_tvars

\* Prop on every observed state: the LFSR register stays a 16-bit value, the tabulated word belongs to it,
\* nothing piles up in the pipe beyond its latency bound
TraceProp == /\ s \in 0..65535
             /\ (Cfg.kind # "pipe") => wst.next \in 0..65535
             /\ Len(q) <= Cfg.maxlat + 1
\* a clause failure keeps its name; an invariant failure stops the trace there (it is not followed further)
Verdict == IF status # "ok" THEN status ELSE IF TraceProp THEN "ok" ELSE "prop_invariant"
Progress == TLCSet(tid, <<l - 1, Verdict>>) /\ Verdict = "ok"
Verdicts == JsonSerialize(IOEnv.VERDICT_FILE, [i \in 1..Len(Logs) |-> TLCGet(i)])
=============================================================================
