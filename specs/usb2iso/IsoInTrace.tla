---------------------------- MODULE IsoInTrace ----------------------------
(***************************************************************************)
(* Trace validation for IsoIn.  Logs is an array of traces                 *)
(*   [cfg |-> [maxPkt, epNum, devAddr], steps |-> <<record, ...>>]         *)
(* recorded from a real USBIsochronousStreamInEndpoint inside a real       *)
(* USBDevice (driven by the UTMI host model); the records are              *)
(*   [e |-> "bif", n]                      bytes_in_frame input set to n   *)
(*   [e |-> "sof"] / [e |-> "badsof"]      (damaged) start-of-frame sent   *)
(*   [e |-> "tok", pid, addr, ep,          a token sent by the host, and   *)
(*          slots, stray, resp]            what happened until the answer  *)
(* resp  = what the device put on the bus: [kind |-> "none"] or            *)
(*         [kind |-> "data", pid, payload, crc_ok] (or kind "hs"/"bad");   *)
(* slots = one record [v, t, b] per byte the endpoint handed to the        *)
(*         transmitter: v = the stream was valid in that cycle, t = the    *)
(*         byte b was taken from it (valid and ready) in that cycle;       *)
(* stray = stream bytes taken, since the previous record, in cycles in      *)
(*         which no byte was handed over;                                  *)
(*   [e |-> "end", stray]                  closes the trace after an idle  *)
(*                                         period.                         *)
(* Whether the token is an IN token for the endpoint is decided here.      *)
(* Batch recipe of ENGINE_GUIDE: register tid = <<records matched, clause>>*)
(***************************************************************************)
EXTENDS IsoIn, TLC, TLCExt, Json, IOUtils

Logs == JsonDeserialize(IOEnv.TRACE_FILE)
TrConfigs == {Logs[i].cfg : i \in 1..Len(Logs)}

VARIABLES tid, l, status
tvars == <<vars, tid, l, status>>

ASSUME \A i \in 1..Len(Logs) : TLCSet(i, <<0, "ok">>)

Steps == Logs[tid].steps
Rec == Steps[l]

SvOf(r) == [i \in 1..Len(r.slots) |-> r.slots[i].v]

\* first failing clause of the observation relation for record r in the current state
FailingIn(r) ==
    IF r.resp.kind # "data" THEN "no_data_packet"
    ELSE IF ~r.resp.crc_ok THEN "packet_crc"
    ELSE IF Len(r.resp.payload) # PktLen THEN (IF left = 0 THEN "zlp_expected" ELSE "packet_length")
    ELSE IF r.resp.pid \notin DataPids THEN "pid"
    ELSE IF PidConstrained /\ r.resp.pid # ExpectedPid THEN "pid"
    ELSE IF r.stray # 0 THEN "stream_byte_taken_but_not_sent"
    ELSE IF Len(r.slots) # Len(r.resp.payload) THEN "tx_stream_vs_wire_length"
    ELSE IF \E i \in 1..Len(r.slots) : r.slots[i].v /\ ~r.slots[i].t THEN "stream_data_available_but_not_taken"
    ELSE IF \E i \in 1..Len(r.slots) : r.slots[i].v /\ r.slots[i].b # Src(pos + CountTrue(SvOf(r), i))
         THEN "stream_order"
    ELSE IF r.resp.payload # Fill(SvOf(r), pos) THEN "payload"
    ELSE "ok"

FailingForeign(r) ==
    IF r.pid \notin TokenPids THEN "env_token"
    ELSE IF r.resp.kind # "none" THEN "unexpected_response"
    ELSE IF r.stray # 0 THEN "stream_byte_taken_but_not_sent"
    ELSE "ok"

Failing(r) ==
    CASE r.e = "tok" -> IF ForUs(r.pid, r.addr, r.ep) THEN FailingIn(r) ELSE FailingForeign(r)
      [] r.e = "bif" -> IF r.n \in 0..MaxReq THEN "ok" ELSE "env_bytes_in_frame_out_of_range"
      [] r.e = "end" -> IF r.stray # 0 THEN "stream_byte_taken_but_not_sent" ELSE "ok"
      [] OTHER       -> "ok"

Apply(r) ==
    CASE r.e = "tok"    -> IF ForUs(r.pid, r.addr, r.ep) THEN In(SvOf(r), r.resp.pid) ELSE Foreign(r.pid, r.addr, r.ep)
      [] r.e = "bif"    -> SetBif(r.n)
      [] r.e = "sof"    -> Sof
      [] r.e = "badsof" -> BadSof
      [] r.e = "end"    -> UNCHANGED vars

TInit == /\ tid \in 1..Len(Logs)
         /\ conf = Logs[tid].cfg
         /\ InitState
         /\ l = 1
         /\ status = "ok"

TNext == /\ status = "ok"
         /\ l <= Len(Steps)
         /\ LET r == Rec
                f == Failing(r) IN
              /\ status' = f
              /\ IF f = "ok" THEN Apply(r) ELSE UNCHANGED vars
         /\ l' = l + 1
         /\ UNCHANGED tid

TSpec == TInit /\ [][TNext]_tvars

\* Prop invariants, evaluated on every state of every observed execution.  The stream-order theorem is
\* evaluated incrementally (newest byte) on every state and in full on the last state of a trace.
AtEnd == l > Len(Steps)
StreamInOrderNewest == Len(taken) = pos /\ (pos > 0 => taken[pos] = Src(pos))
TraceProp == /\ TypeOK /\ FrameBudget /\ ExactWhenFetched /\ Packetisation /\ PidSequence
             /\ StreamInOrderNewest
             /\ (AtEnd => StreamInOrder)

\* After a failure (clause or Prop invariant) the constraint is FALSE: the trace is not followed further and a
\* later step cannot overwrite the verdict.
Verdict == IF status # "ok" THEN status ELSE IF TraceProp THEN "ok" ELSE "prop_invariant"
Progress == TLCSet(tid, <<l - 1, Verdict>>) /\ Verdict = "ok"

Verdicts == JsonSerialize(IOEnv.VERDICT_FILE, [i \in 1..Len(Logs) |-> TLCGet(i)])
=============================================================================
