------------------------------ MODULE MCUlpiReg ------------------------------
(***************************************************************************)
(* Bounded model for C24: the link-side *shadow-register mechanism* as     *)
(* Ref (implementation-shaped: one action per transition of the register   *)
(* writer / transmitter arbitration), composed with the bus-level monitor  *)
(* UlpiReg.  TLC explores every Env behaviour within the bounds and checks *)
(* the Prop formulas of UlpiReg on every behaviour of this mechanism.      *)
(*                                                                         *)
(* The mechanism (what the control translator + register window are meant  *)
(* to do): shadow[a] = the value the link believes the PHY holds.  When    *)
(* the bus is free and shadow[a] # Req(a, c) it *latches* (a, Req(a, c)),  *)
(* sends 0x80|a, the latched data, STP, and on completion records the      *)
(* latched value in shadow[a]; an interruption by DIR restarts the same    *)
(* write.  Writer and transmitter exclude each other; whichever is ready   *)
(* first goes first (both ready: either).                                  *)
(*                                                                         *)
(* Env: control inputs change in any cycle (also back to the old value in  *)
(* mid-write, also in the cycle a transmission starts), <= MaxChanges      *)
(* times; PHY NXT delays 0..MaxDelay; <= MaxDirUps DIR interruptions.      *)
(***************************************************************************)
EXTENDS UlpiReg, TLC

CONSTANTS OpModes, OtgCodes, MaxChanges, MaxDelay, MaxDirUps, MaxDirRun, MaxPkts, MaxLen

VARIABLES lk,       \* link state: "idle"|"wcmd"|"wdata"|"wstp"|"tcmd"|"tdata"
          lat,      \* latched write [a, d]
          shadow,   \* [a |-> value the link believes the PHY register holds]
          trem,     \* Env/UTMI: bytes of the current packet not yet accepted (0 = no packet)
          changes, stall, dirUps, dirRun, pkts

mvars == <<gvars, lk, lat, shadow, trem, changes, stall, dirUps, dirRun, pkts>>

\* control inputs of the model: op_mode drives Function Control, (id_pullup, chrg_vbus) drive OTG Control
Ctrl(m, g) == [ResetCtrl EXCEPT !.opm = m, !.idpu = g % 2, !.chrg = g \div 2]
Ctrls == {Ctrl(m, g) : m \in OpModes, g \in OtgCodes}

Inputs == [dir : {0, 1}, nxt : {0, 1}, txv : {0, 1}, c : Ctrls]

Owed == qphase \in {"wait", "txd", "rwd"}

MCLegal(i) ==
    /\ LegalPhy(i)
    /\ i.txv = (IF trem > 0 THEN 1 ELSE 0)
    /\ i.c # gin.c => changes < MaxChanges
    /\ (i.dir = 0 /\ Owed /\ i.nxt = 0) => stall < MaxDelay
    /\ i.dir = 1 => i.nxt = 0
    /\ (i.dir = 1 /\ qdir = 0) => dirUps < MaxDirUps
    /\ (i.dir = 1 /\ qdir = 1) => dirRun < MaxDirRun

Quiet(i) == [do |-> 0, oe |-> 1 - i.dir, stp |-> 0]
Drv(i, b, s) == [do |-> b, oe |-> 1 - i.dir, stp |-> s]

Env(i) == /\ changes' = IF i.c # gin.c THEN changes + 1 ELSE changes
          /\ stall' = IF i.dir = 0 /\ Owed /\ i.nxt = 0 THEN stall + 1 ELSE 0
          /\ dirUps' = IF i.dir = 1 /\ qdir = 0 THEN dirUps + 1 ELSE dirUps
          /\ dirRun' = IF i.dir = 1 THEN dirRun + 1 ELSE 0

\* the UTMI side may raise tx_valid for a new packet (1..MaxLen bytes) in any cycle in which none is in progress
NewPkt == IF trem = 0 /\ pkts < MaxPkts THEN 0..MaxLen ELSE {0}
PktEnv == /\ \E n \in NewPkt : trem' = IF trem = 0 THEN n ELSE trem
          /\ pkts' = IF trem = 0 /\ trem' > 0 THEN pkts + 1 ELSE pkts

Wants(i) == {a \in Regs : shadow[a] # Req(a, i.c)}

(* ---- link transitions ---- *)
Idle == lk = "idle" /\ \E i \in Inputs :
          /\ MCLegal(i)
          /\ TRUE
          /\ (i.dir = 1 \/ (Wants(i) = {} /\ i.txv = 0))
          /\ RegStep(i, Quiet(i)) /\ Env(i) /\ PktEnv
          /\ UNCHANGED <<lk, lat, shadow>>

StartWrite == lk = "idle" /\ \E i \in Inputs :
          /\ MCLegal(i)
          /\ i.dir = 0
          /\ \E a \in Wants(i) : lat' = [a |-> a, d |-> Req(a, i.c)]
          /\ lk' = "wcmd"
          /\ RegStep(i, Quiet(i)) /\ Env(i) /\ PktEnv
          /\ UNCHANGED shadow

StartTx == lk = "idle" /\ \E i \in Inputs :
          /\ MCLegal(i)
          /\ i.dir = 0 /\ i.txv = 1
          /\ lk' = "tcmd"
          /\ RegStep(i, Quiet(i)) /\ Env(i)
          /\ UNCHANGED <<lat, shadow, trem, pkts>>

WriteCmd == lk = "wcmd" /\ \E i \in Inputs :
          /\ MCLegal(i)
          /\ TRUE
          /\ RegStep(i, IF i.dir = 1 THEN Quiet(i) ELSE Drv(i, RegWriteCmd(lat.a), 0)) /\ Env(i)
          /\ lk' = IF i.dir = 0 /\ i.nxt = 1 THEN "wdata" ELSE "wcmd"
          /\ PktEnv /\ UNCHANGED <<lat, shadow>>

WriteData == lk = "wdata" /\ \E i \in Inputs :
          /\ MCLegal(i)
          /\ TRUE
          /\ RegStep(i, IF i.dir = 1 THEN Quiet(i) ELSE Drv(i, lat.d, 0)) /\ Env(i)
          /\ lk' = IF i.dir = 1 THEN "wcmd" ELSE IF i.nxt = 1 THEN "wstp" ELSE "wdata"
          /\ PktEnv /\ UNCHANGED <<lat, shadow>>

WriteStp == lk = "wstp" /\ \E i \in Inputs :
          /\ MCLegal(i)
          /\ TRUE
          /\ RegStep(i, IF i.dir = 1 THEN Quiet(i) ELSE Drv(i, 0, 1)) /\ Env(i)
          /\ lk' = IF i.dir = 1 THEN "wcmd" ELSE "idle"
          /\ shadow' = IF i.dir = 1 THEN shadow ELSE [shadow EXCEPT ![lat.a] = lat.d]
          /\ PktEnv /\ UNCHANGED lat

TxCmd == lk = "tcmd" /\ \E i \in Inputs :
          /\ MCLegal(i)
          /\ TRUE
          /\ RegStep(i, IF i.dir = 1 THEN Quiet(i) ELSE Drv(i, 67, 0)) /\ Env(i)
          /\ lk' = IF i.dir = 0 /\ i.nxt = 1 THEN "tdata" ELSE "tcmd"
          /\ trem' = IF i.dir = 0 /\ i.nxt = 1 THEN trem - 1 ELSE trem
          /\ UNCHANGED <<lat, shadow, pkts>>

TxData == lk = "tdata" /\ \E i \in Inputs :
          /\ MCLegal(i)
          /\ i.txv = 1
          /\ RegStep(i, Drv(i, 17, 0)) /\ Env(i)
          /\ trem' = IF i.nxt = 1 THEN trem - 1 ELSE trem
          /\ UNCHANGED <<lk, lat, shadow, pkts>>

TxStop == lk = "tdata" /\ \E i \in Inputs :
          /\ MCLegal(i)
          /\ i.txv = 0
          /\ RegStep(i, Drv(i, 0, 1)) /\ Env(i)
          /\ lk' = "idle"
          /\ PktEnv /\ UNCHANGED <<lat, shadow>>

MCInit == /\ RegInit /\ lk = "idle" /\ lat = [a |-> FunctionControlAddr, d |-> FunctionControlReset]
          /\ shadow = [a \in Regs |-> ResetVal(a)]
          /\ trem = 0 /\ changes = 0 /\ stall = 0 /\ dirUps = 0 /\ dirRun = 0 /\ pkts = 0

Next == Idle \/ StartWrite \/ StartTx \/ WriteCmd \/ WriteData \/ WriteStp \/ TxCmd \/ TxData \/ TxStop
Spec == MCInit /\ [][Next]_mvars
\* time passes (no infinite stuttering); the PHY's fairness is built into Env (NXT delays and DIR runs are bounded)
FairSpec == Spec /\ WF_mvars(Next)

-----------------------------------------------------------------------------
\* the shadow never claims a value the PHY does not hold (the invariant the real mechanism breaks)
ShadowTruthful == lk \in {"idle", "tcmd", "tdata"} => \A a \in Regs : shadow[a] = phyReg[a]
\* quiescence: nothing in flight, nothing wanted  =>  the PHY holds the requested settings
QuiescentMeansEqual == (lk = "idle" /\ Wants(gin) = {}) => ~Mismatch(gin.c, phyReg)

(* Liveness (the control inputs change at most MaxChanges times, so they are eventually stable) *)
\* the PHY's registers converge to the requested settings and stay there
Converges == <>[](~Mismatch(gin.c, phyReg))
\* neither side starves the other: every transmission is eventually fully accepted by the PHY
TransmitterServed == (trem > 0) ~> (trem = 0)
=============================================================================
