"""Composition engine `ss_device`: the real `USBSuperSpeedDevice` above the physical layer (real USB3LinkLayer + real
USB3ProtocolLayer + endpoint multiplexer + control endpoint with the standard request handler and descriptors + one
SuperSpeedStreamInEndpoint, wired by the unedited device.py; physical layer = the stub of ss_linklayer) against
specs/ss_device/SsDevice.tla, a transaction-grain specification of the device.  Owns no property: EXTRA sub-checks for
C45, C48, C46, C47, C36, C40 (what no leaf engine sees: the wiring of device.py / protocol/layer.py / protocol/endpoint.py /
endpoints/control.py / request/standard.py and the cross-layer obligations listed in docs/ss_device.md)."""
import json
import os
import time
from concurrent.futures import ThreadPoolExecutor

from .. import tlc

ENGINE = "ss_device"
SPEC_DIR = "ss_device"
META = {}
CHECKS = {}

FREQ = 1e6
EP_IN = 1
MAX_PKT = 32
POOL = 6
MAX_RECORDS = 1200


def _cfg(name):
    with open(os.path.join(tlc.SPECS, SPEC_DIR, name)) as f:
        return f.read()


# =====================================================================================================================
# The device under test
# =====================================================================================================================
def descriptors():
    from ..core import use_repo
    use_repo()
    from usb_protocol.emitters import SuperSpeedDeviceDescriptorCollection
    d = SuperSpeedDeviceDescriptorCollection()
    with d.DeviceDescriptor() as x:
        x.idVendor = 0x1209
        x.idProduct = 0x0001
        x.iManufacturer = "LUNA"
        x.iProduct = "ss-dev"
        x.iSerialNumber = "1234"
        x.bNumConfigurations = 1
    with d.ConfigurationDescriptor() as c:
        with c.InterfaceDescriptor() as i:
            i.bInterfaceNumber = 0
            with i.EndpointDescriptor(add_default_superspeed=True) as e:
                e.bEndpointAddress = 0x80 | EP_IN
                e.wMaxPacketSize = 1024
    return d


_BENCH = None
_DESC = None


def _bench():
    global _BENCH, _DESC
    if _BENCH is None:
        from ..hosts.ss_device_bench import DeviceBench
        d = descriptors()
        _DESC = [{"k": (t << 8) | i, "b": list(raw)} for t, i, raw in d]
        _BENCH = DeviceBench(d, freq=FREQ, ep_in=EP_IN, max_packet=MAX_PKT)
    return _BENCH


def _job(j):
    script, seed = j
    ev, info = _BENCH.run(script, seed)
    return ev, info


def run_scripts(jobs):
    _bench()
    if len(jobs) < 4 or os.environ.get("VERIF_SSDEV_SERIAL"):
        return [_job(j) for j in jobs]
    import multiprocessing
    n = min(POOL, max(1, (os.cpu_count() or 2) - 1), len(jobs))
    with multiprocessing.get_context("fork").Pool(n) as pool:
        return pool.map(_job, jobs, chunksize=1)


# =====================================================================================================================
# Host-side building blocks (scripts for the bench)
# =====================================================================================================================
def S(bm, br, wv=0, wi=0, wl=0):
    return [bm, br, wv & 255, wv >> 8, wi & 255, wi >> 8, wl & 255, wl >> 8]


GET_DESC = lambda t, i, wl: S(0x80, 6, (t << 8) | i, 0, wl)      # noqa: E731
SET_ADDRESS = lambda a: S(0x00, 5, a)                           # noqa: E731
SET_CONFIG = lambda c: S(0x00, 9, c)                            # noqa: E731
GET_STATUS = S(0x80, 0, 0, 0, 2)


def ack0(seq, nump, **kw):
    return ("tp", dict(sub="ack", ep=0, seq=seq, nump=nump, **kw))


STATUS0 = ("tp", {"sub": "status", "ep": 0})


def bringup(cfg=None, lmp=True):
    s = [("power_on",)]
    if cfg:
        s.append(("config", dict(cfg)))
    s += [("train", {}), ("wait_ready",)]
    if lmp:
        s += lmps()
    return s + [("quiet",)]


def lmps():
    return [("lmp", "capability"), ("lmp", "config"), ("wait_dev", 1, 60)]


def ctl_in(setup, status=True, opts=None, gap=0):
    """Control transfer with an IN data stage (or a STALL in it)."""
    s = [("setup", setup, dict(opts or {})), ("wait_dev", 1), ("wait", gap), ack0(0, 1), ("wait_dev", 1)]
    if status:
        s += [ack0(1, 0), STATUS0, ("wait_dev", 1)]
    return s


def ctl_stall_in(setup):
    return [("setup", setup), ("wait_dev", 1), ack0(0, 1), ("wait_dev", 1)]


def ctl_nodata(setup, opts=None):
    return [("setup", setup, dict(opts or {})), ("wait_dev", 1), STATUS0, ("wait_dev", 1)]


def set_address(a):
    return ctl_nodata(SET_ADDRESS(a)) + [("set_addr", a)]


def enumerate_device(a=5, short=False):
    s = ctl_in(GET_DESC(1, 0, 18)) + set_address(a) + ctl_in(GET_DESC(2, 0, 9))
    if not short:
        s += ctl_in(GET_DESC(2, 0, 255)) + ctl_in(GET_DESC(15, 0, 5)) + ctl_in(GET_DESC(15, 0, 64)) + ctl_in(GET_DESC(3, 0, 255)) \
            + ctl_in(GET_DESC(3, 2, 255))
    return s + ctl_nodata(SET_CONFIG(1))


def bulk_in(rng, lengths, retry_at=(), nump_last=0, gap=0, start_seq=0):
    """Clean bulk IN transfers: every packet has >= 3 stream words and the transfer ends with a short packet, the data is
    buffered before the host asks (see docs: the open C46 findings and the multiplexer finding are avoided)."""
    s = []
    seq = start_seq
    for n in lengths:
        data = [rng.getrandbits(8) for _ in range(n)]
        s += [("feed", data, True, gap), ("wait_feed",), ("wait", 6)]
        npk = (n + MAX_PKT - 1) // MAX_PKT
        s += [("tp", dict(sub="ack", ep=EP_IN, seq=seq % 32, nump=1)), ("wait_dev", 1)]
        for k in range(npk):
            if (seq, k) in retry_at or k in retry_at:
                s += [("tp", dict(sub="ack", ep=EP_IN, seq=seq % 32, nump=1, rty=1)), ("wait_dev", 1)]
            seq += 1
            more = k < npk - 1
            s += [("tp", dict(sub="ack", ep=EP_IN, seq=seq % 32, nump=1 if more else 0))]
            if more:
                s.append(("wait_dev", 1))
    return s, seq


def clean_len(rng, npk):
    """A transfer length whose packets all have >= 9 bytes (3 stream words) and whose last packet is short."""
    return (npk - 1) * MAX_PKT + rng.randint(9, MAX_PKT - 1)


def retrain(kind, d=0):
    """Leave U0 d cycles from now and come back; a reset is followed by the port-configuration exchange."""
    pre = [("wait", d)] if d else []
    if kind == "recover":
        return pre + [("recover", {"abrupt": True}), ("wait_ready",), ("quiet",)]
    if kind == "hot":
        return pre + [("recover", {"abrupt": True, "hot": 2}), ("wait_ready",)] + lmps() + [("quiet",)]
    if kind == "warm":
        return pre + [("warm_reset", 3), ("train", {}), ("wait_ready",)] + lmps() + [("quiet",)]
    raise ValueError(kind)


# =====================================================================================================================
# Scenario families
# =====================================================================================================================
def sc_enumeration(rng, quick):
    """C45 / C48 (clean class): a full enumeration; unsupported requests -> STALL; re-addressing.  Orderings avoid the
    triggers of the two control-path findings: a STALLed GET_DESCRIPTOR is followed by another GET_DESCRIPTOR, a
    non-standard request is the last request of its trace, no transfer is abandoned."""
    out = [("enumerate", bringup() + enumerate_device(rng.randrange(1, 128)) + ctl_in(GET_STATUS) + [("quiet",)])]
    a = rng.randrange(1, 128)
    b = rng.randrange(1, 128)
    out.append(("stalls", bringup() + set_address(a)
                + ctl_stall_in(GET_DESC(6, 0, 10))                     # device qualifier: not present -> STALL
                + ctl_in(GET_DESC(1, 0, 8))
                + ctl_nodata(S(0x00, 3, 1))                            # SET_FEATURE: not implemented -> STALL (status stage)
                + ctl_stall_in(S(0x80, 10, 0, 0, 1))                   # GET_INTERFACE: not implemented -> STALL (data stage)
                + ctl_nodata(S(0x00, 49, 40))                          # SET_ISOCH_DELAY -> ACK
                + ctl_in(GET_STATUS)
                + ctl_stall_in(S(0xC0, 7, 0, 0, 4)) + [("quiet",)]))   # vendor IN request -> STALL
    out.append(("class-request", bringup() + set_address(b) + ctl_nodata(S(0x21, 9, 0)) + [("quiet",)]))
    out.append(("readdress", bringup() + set_address(a) + ctl_in(GET_DESC(1, 0, 18)) + set_address(b)
                + ctl_in(GET_DESC(1, 0, 18)) + set_address(0) + ctl_in(GET_DESC(1, 0, 4)) + [("quiet",)]))
    return out


def sc_control_witness(rng, quick):
    """Witness class of the findings new-setup-served-by-previous-request-state (B) and
    setup-stalled-after-nonstandard-request (A)."""
    b = rng.randrange(1, 128)
    out = []
    out.append(("set-address-after-stalled-descriptor", bringup() + ctl_stall_in(GET_DESC(3, 9, 255)) + set_address(b)
                + ctl_in(GET_DESC(1, 0, 18)) + [("quiet",)]))
    out.append(("get-status-after-stalled-descriptor", bringup() + ctl_stall_in(GET_DESC(7, 0, 9)) + ctl_in(GET_STATUS)
                + [("quiet",)]))
    out.append(("set-address-after-abandoned-transfer", bringup() + ctl_in(GET_DESC(1, 0, 18), status=False)
                + set_address(b) + ctl_in(GET_DESC(2, 0, 9)) + [("quiet",)]))
    out.append(("unsupported-after-abandoned-set-address", bringup() + [("setup", SET_ADDRESS(b)), ("wait_dev", 1)]
                + ctl_nodata(S(0x00, 3, 1)) + ctl_in(GET_DESC(1, 0, 18)) + [("quiet",)]))
    out.append(("setup-after-vendor-request", bringup() + ctl_stall_in(S(0xC0, 7, 0, 0, 4)) + ctl_in(GET_DESC(1, 0, 18))
                + [("quiet",)]))
    out.append(("setup-after-class-request", bringup() + ctl_nodata(S(0x21, 9, 0)) + set_address(b)
                + ctl_in(GET_DESC(1, 0, 18)) + [("quiet",)]))
    return [(n, ("witness", sc)) for n, sc in out]


def sc_backpressure(rng, quick):
    """C45: the header queue of the link is not ready (no credit: the partner delays LGOOD / LCRD by k cycles; the
    transmitter busy with the device's own link commands) around every transaction packet request; the address changes
    while the status ACK waits."""
    out = []
    ks = [0, 1, 2, 3, 5, 8, 13, 21, 34] if quick else list(range(0, 40))
    for k in ks:
        a = 1 + (k * 7 + 3) % 127
        s = bringup(cfg={"hold_ack": k, "crd_delay": k // 2})
        # three ITP-free transactions back to back use up the four credits when the partner is slow
        s += set_address(a) + ctl_in(GET_DESC(1, 0, 18)) + ctl_nodata(SET_CONFIG(1)) + ctl_in(GET_STATUS) + [("quiet",)]
        out.append(("slow-partner-%d" % k, s))
    # LBAD for a device transaction packet: it must arrive exactly once, unchanged
    for i in range(1, 5 if quick else 9):
        s = bringup() + set_address(9) + [("config", {"lbad_next": 1})]
        seqs = [ctl_in(GET_DESC(1, 0, 18)), ctl_nodata(SET_CONFIG(1)), ctl_stall_in(GET_DESC(7, 0, 9)) + ctl_in(GET_DESC(2, 0, 9)),
                ctl_in(GET_STATUS)]
        s += seqs[i % 4] + [("config", {"lbad_next": 1})] + seqs[(i + 1) % 4] + [("quiet",)]
        out.append(("lbad-on-device-tp-%d" % i, s))
    return out


def sc_host_corruption(rng, quick):
    """Corrupted host headers (CRC-5 / CRC-16) -> LBAD / LRTY / retransmission: stuttering for the device above."""
    out = []
    for kind in ("bad5", "bad16"):
        a = rng.randrange(1, 128)
        s = bringup() + [("setup", SET_ADDRESS(a), {"corrupt": kind}), ("wait_dev", 1),
                         ("tp", {"sub": "status", "ep": 0}, {"corrupt": kind}), ("wait_dev", 1), ("set_addr", a),
                         ("setup", GET_DESC(1, 0, 18)), ("wait_dev", 1),
                         ("tp", dict(sub="ack", ep=0, seq=0, nump=1), {"corrupt": kind}), ("wait_dev", 1),
                         ack0(1, 0), STATUS0, ("wait_dev", 1), ("itp", rng.getrandbits(14), rng.getrandbits(13), {"corrupt": kind}),
                         ("quiet",)]
        out.append(("host-header-%s" % kind, s))
    return out


def sc_linkdown(rng, quick):
    """(4) / (5): the link leaves U0 (recovery, hot reset, warm reset) at every phase of a control transfer, d cycles after
    the host's packet; afterwards the device is enumerated (again) and must answer with the right address."""
    out = []
    a, b = 21, 77
    transfer = [("setup", SET_ADDRESS(b)), STATUS0, ("setup", GET_DESC(1, 0, 18)), ack0(0, 1), ack0(1, 0), STATUS0]
    offs = [0, 3, 9, 16] if quick else list(range(0, 24, 1))
    rot = rng.randrange(3)            # the quick tier takes a third of the (kind, phase, offset) grid, rotated by the seed
    for kind in ("recover", "hot", "warm"):
        for phase in range(len(transfer)):
            for d in offs:
                if quick and (phase + d + len(kind) + rot) % 3 and not (phase in (1, 3) and d == 3):
                    continue
                s = bringup() + set_address(a)
                for i, op in enumerate(transfer[:phase + 1]):
                    s.append(op)
                    if i < phase:
                        if op[0] == "tp" and op[1].get("nump") == 0 and op[1]["sub"] == "ack":
                            continue
                        s.append(("wait_dev", 1))
                        if i == 1:
                            s.append(("set_addr", b))
                s += retrain(kind, d)
                # the host starts over: after a reset from the default address, after a recovery with the address it
                # believes the device has -- it learns it from the first answer (see fix_addr below)
                s += [("mark", "after")]
                out.append(("%s-phase%d+%d" % (kind, phase, d), ("linkdown", s, kind, phase, a, b)))
    return out


def finish_linkdown(item):
    """Second half of a link-down scenario: depends on what the first half did (computed without running it: the address the
    device has after the event is fixed by the USB rules the specification states)."""
    _tag, s, kind, phase, a, b = item
    if kind == "recover":
        # SET_ADDRESS(b) completed iff its STATUS was delivered (phase >= 1)
        cur = b if phase >= 1 else a
        s = s + [("set_addr", cur)]
    else:
        cur = 0
    c = 99
    # the request handler is idle when the link drops only after a completed status stage (phases 1 and 5): these are the
    # clean scenarios; in the others the next SETUP meets a busy handler (witness class of finding B)
    cls = "clean" if phase in (1, 5) else "witness"
    return cls, s + ctl_in(GET_DESC(1, 0, 18)) + set_address(c) + ctl_in(GET_DESC(2, 0, 9)) + ctl_nodata(SET_CONFIG(1)) + [("quiet",)]


def sc_descriptors(rng, quick):
    """C48 / C36: every descriptor with wLength below / at / above its length (every trailing-byte count of the payload),
    unknown descriptors, a SETUP with a corrupted CRC-32 (not decoded; repeated by the host), junk data packets."""
    _bench()
    out = []
    s = bringup() + set_address(rng.randrange(1, 128))
    for d in _DESC:
        t, i, n = d["k"] >> 8, d["k"] & 255, len(d["b"])
        lens = sorted({1, 2, 3, n - 1, n, n + 1, 255, 4096} - {0}) if quick else sorted(set(range(1, n + 3)) | {255, 256, 65535})
        for wl in lens:
            s += ctl_in(GET_DESC(t, i, wl))
    out.append(("all-descriptors", s + [("quiet",)]))
    s = bringup()
    for t, i in [(1, 1), (2, 1), (3, 4), (4, 0), (5, 0), (6, 0), (7, 0), (15, 1), (0, 0), (255, 255)]:
        s += ctl_stall_in(GET_DESC(t, i, 64))
        s += ctl_in(GET_DESC(1, 0, rng.randint(1, 18)))
    out.append(("unknown-descriptors", s + [("quiet",)]))
    # payload lengths of the configuration descriptor: every trailing-byte count (C36)
    s = bringup() + set_address(rng.randrange(1, 128))
    for wl in (range(1, 32, 3) if quick else range(1, 32)):
        s += ctl_in(GET_DESC(2, 0, wl))
    out.append(("every-length", s + [("quiet",)]))
    return out


def sc_rx_packets(rng, quick):
    """C40 / C48: data packets towards the control endpoint: SETUP with good / corrupted CRC-32 (the corrupted one must not
    be decoded: no ACK; the host repeats it), packets without the Setup flag or with another length (no request)."""
    out = []
    s = bringup()
    s += [("setup", GET_DESC(1, 0, 18), {"corrupt": "bad32"}), ("wait", 30)] + ctl_in(GET_DESC(1, 0, 18))
    s += [("setup", SET_ADDRESS(3), {"corrupt": "bad32"}), ("wait", 30), ("setup", SET_ADDRESS(44), {"corrupt": "bad32"}),
          ("wait", 20)] + set_address(45) + ctl_in(GET_DESC(1, 0, 18))
    out.append(("corrupted-setup", s + [("quiet",)]))
    s = bringup()
    for n in ([0, 1, 3, 4, 5, 7, 9, 12, 16] if quick else range(0, 21)):
        junk = [rng.getrandbits(8) for _ in range(n)]
        s += [("setup", junk, {"flag": 1 if n != 8 and rng.random() < 0.5 else 0,
                               "corrupt": "bad32" if rng.random() < 0.3 else None}), ("wait", rng.randint(8, 20))]
    s += [("setup", GET_DESC(1, 0, 18), {"flag": 0}), ("wait", 20)]
    out.append(("junk-data-packets", s + ctl_in(GET_DESC(1, 0, 18)) + [("quiet",)]))
    return out


def sc_bulk(rng, quick):
    """C46 in composition (clean class): bulk IN transfers through the multiplexer, the link's data path and the shared
    transaction packet generator, interleaved with control transfers and timestamps, with retries."""
    out = []
    for i in range(3 if quick else 12):
        s = bringup() + enumerate_device(rng.randrange(1, 128), short=True)
        seq = 0
        for j in range(2 if quick else 4):
            npk = rng.choice([1, 1, 2, 3])
            n = clean_len(rng, npk)
            retry = (rng.randrange(npk),) if rng.random() < 0.5 else ()
            b, seq = bulk_in(rng, [n], retry_at=retry, gap=rng.choice([0, 0, 1, 3]), start_seq=seq)
            s += b
            if rng.random() < 0.6:
                s += ctl_in(GET_DESC(1, 0, rng.randint(1, 18)))
            if rng.random() < 0.6:
                s += [("itp", rng.getrandbits(14), rng.getrandbits(13))]
        out.append(("bulk-%d" % i, s + [("quiet",)]))
    # SET_CONFIGURATION restarts the endpoint's sequence number
    s = bringup() + enumerate_device(7, short=True)
    b, seq = bulk_in(rng, [clean_len(rng, 2)])
    s += b + ctl_nodata(SET_CONFIG(1))
    b, seq = bulk_in(rng, [clean_len(rng, 1)], start_seq=0)
    out.append(("sequence-restart", s + b + [("quiet",)]))
    # a control transfer while a bulk packet is in flight (answers of different endpoints interleave)
    for d in ([0, 4, 9] if quick else range(0, 16)):
        data = [rng.getrandbits(8) for _ in range(clean_len(rng, 1))]
        s = bringup() + enumerate_device(9, short=True) + [("feed", data, True), ("wait_feed",), ("wait", 6),
                                                           ("tp", dict(sub="ack", ep=EP_IN, seq=0, nump=1), {"nowait": True}),
                                                           ("wait", d), ("setup", GET_STATUS), ("wait_dev", 2, 200),
                                                           ("tp", dict(sub="ack", ep=EP_IN, seq=1, nump=0))]
        s += [ack0(0, 1), ("wait_dev", 1), ack0(1, 0), STATUS0, ("wait_dev", 1), ("quiet",)]
        out.append(("control-during-bulk+%d" % d, s))
    # an IN request for the bulk endpoint between the stages of a control transfer (each endpoint answers only its own)
    data = [rng.getrandbits(8) for _ in range(clean_len(rng, 1))]
    s = bringup() + enumerate_device(11, short=True) + [("feed", data, True), ("wait_feed",), ("wait", 6),
                                                        ("setup", GET_DESC(1, 0, 18)), ("wait_dev", 1),
                                                        ("tp", dict(sub="ack", ep=EP_IN, seq=0, nump=1)), ("wait_dev", 1),
                                                        ("tp", dict(sub="ack", ep=EP_IN, seq=1, nump=0)),
                                                        ("wait", 60), ("quiet",), ack0(0, 1), ("wait_dev", 1),
                                                        ack0(1, 0), STATUS0, ("wait_dev", 1), ("quiet",)]
    out.append(("bulk-request-inside-control-transfer", s))
    # ... the same while the bulk endpoint holds nothing (NRDY; the control endpoint must stay silent), for both kinds of
    # data stage, then data -> ERDY -> packet, then the control transfer is completed
    for nm, setup in (("descriptor", GET_DESC(2, 0, 9)), ("status", GET_STATUS)):
        data = [rng.getrandbits(8) for _ in range(clean_len(rng, 1))]
        s = bringup() + enumerate_device(12, short=True) + [("setup", setup), ("wait_dev", 1), ("mark_served",),
                                                            ("tp", dict(sub="ack", ep=EP_IN, seq=0, nump=1)), ("wait_dev", 1),
                                                            ("wait", 40), ("quiet",), ("feed", data, True),
                                                            ("serve_in", EP_IN, 0, 0), ("wait", 20), ack0(0, 1), ("wait_dev", 1),
                                                            ack0(1, 0), STATUS0, ("wait_dev", 1), ("quiet",)]
        out.append(("empty-bulk-request-inside-%s-transfer" % nm, s))
    return out


def sc_in_flow(rng, quick):
    """C46 in composition: NRDY / ERDY flow control through the multiplexer and the shared generator, one alignment per
    scenario (a hit of an open C46 finding leaves the endpoint stuck).  Offsets are relative to the host's packet leaving;
    the IN request is *reported* to the endpoint about 10 cycles later, so x = 0..29 covers both sides of every window.
      poll-vs-data      IN request, the packet-completing word x cycles later (before / in the cycle of / while the NRDY is
                        being sent / after it)
      repoll-vs-erdy    IN request -> NRDY, data, a second IN request x cycles after the data (before / during / after ERDY)
      ack-vs-next       acknowledging ACK with NumP = 1, the next packet completing x cycles later
    The reactive host (`serve_in`) polls after an ERDY, waits after an NRDY, acknowledges the data packet."""
    out = []
    # (the windows of the three open findings that show here lie at x = 4..9; the quick tier sweeps x = 2..12)
    xs = list(range(2, 13)) if quick else list(range(0, 30))
    poll = lambda seq, **kw: ("tp", dict(sub="ack", ep=EP_IN, seq=seq, nump=1), kw)       # noqa: E731
    for shape, n in (("3w", 12), ("short", 10)) if not quick else (("3w", 12),):
        for x in xs:
            data = [rng.getrandbits(8) for _ in range(n)]
            out.append(("poll-vs-data-%s+%d" % (shape, x),
                        bringup() + [("mark_served",), poll(0, nowait=True), ("wait", x), ("feed", data, True), ("serve_in", EP_IN, 0, 1),
                                     ("quiet",)]))
    for x in xs:
        data = [rng.getrandbits(8) for _ in range(12)]
        out.append(("repoll-vs-erdy+%d" % x,
                    bringup() + [poll(0), ("wait_dev", 1), ("mark_served",), ("feed", data, True), ("wait", x),
                                 poll(0, nowait=True),
                                 ("serve_in", EP_IN, 0, 1), ("quiet",)]))
    for x in (xs if quick else xs[:16]):
        # a second IN request (the host may poll without an ERDY) that reaches the endpoint around the data's arrival: before
        # it (NRDY again), while the ERDY is being sent, after it
        data = [rng.getrandbits(8) for _ in range(12)]
        out.append(("repoll-around-data+%d" % x,
                    bringup() + [poll(0), ("wait_dev", 1), ("mark_served",), poll(0, nowait=True), ("wait", x),
                                 ("feed", data, True), ("serve_in", EP_IN, 0, 1), ("quiet",)]))
    for x in xs:
        d1 = [rng.getrandbits(8) for _ in range(12)]
        d2 = [rng.getrandbits(8) for _ in range(12)]
        out.append(("ack-vs-next+%d" % x,
                    bringup() + [("feed", d1, True), ("wait_feed",), ("wait", 6), poll(0), ("wait_dev", 1),
                                 ("mark_served",), ("tp", dict(sub="ack", ep=EP_IN, seq=1, nump=1), {"nowait": True}),
                                 ("wait", x),
                                 ("feed", d2, True), ("serve_in", EP_IN, 1, 1), ("quiet",)]))
    return [(nm, ("mixed", sc)) for nm, sc in out]


def sc_bulk_witness(rng, quick):
    return [(n, ("witness", sc)) for n, sc in _sc_bulk_witness(rng, quick)]


def _sc_bulk_witness(rng, quick):
    """Regression of the (fixed) multiplexer finding -- a poll while the endpoint holds no data, data after the NRDY -- and
    witness class of two open C46 findings whose triggers are *deterministic* in the composition: a packet of 5..8 bytes
    (two stream words: the last one is offered while the one-word buffer of the link's DataPacketTransmitter still holds the
    first and the header packet has not left -> withdrawn: last-beat-withdrawn-when-tx-not-ready) and a packet of 1..4 bytes
    (single-beat-packet-parameters: length / sequence / endpoint of the data header are 0)."""
    out = []
    s = bringup() + enumerate_device(5, short=True) + [("tp", dict(sub="ack", ep=EP_IN, seq=0, nump=1)), ("wait", 40), ("quiet",)]
    out.append(("poll-without-data", s))
    data = [rng.getrandbits(8) for _ in range(20)]
    s = bringup() + enumerate_device(5, short=True) + [("mark_served",), ("tp", dict(sub="ack", ep=EP_IN, seq=0, nump=1)), ("wait", 30),
                                                       ("feed", data, True), ("serve_in", EP_IN, 0, 1), ("quiet",)]
    out.append(("data-after-nrdy", s))
    # a transfer that ends on a packet boundary: the zero-length packet follows with the next sequence number (requested
    # together with the acknowledgement, or by a separate IN request); its retry repeats it
    for variant in ("combined", "separate", "retried"):
        data = [rng.getrandbits(8) for _ in range(MAX_PKT)]
        poll = lambda seq, nump=1, rty=0: ("tp", dict(sub="ack", ep=EP_IN, seq=seq, nump=nump, rty=rty))       # noqa: E731
        s = bringup() + [("feed", data, True), ("wait_feed",), ("wait", 6), poll(0), ("wait_dev", 1)]
        if variant == "separate":
            s += [poll(1, 0), ("wait", 12), poll(1), ("wait_dev", 1)]
        else:
            s += [poll(1), ("wait_dev", 1)]
        if variant == "retried":
            s += [poll(1, 1, 1), ("wait_dev", 1)]
        out.append(("boundary-transfer-zlp-%s" % variant, s + [poll(2, 0), ("wait", 20), ("quiet",)]))
    for n in ((6, 8, 3) if quick else (1, 2, 3, 4, 5, 6, 7, 8)):
        data = [rng.getrandbits(8) for _ in range(n)]
        s = bringup() + [("feed", data, True), ("wait_feed",), ("wait", 6), ("mark_served",),
                         ("tp", dict(sub="ack", ep=EP_IN, seq=0, nump=1)), ("serve_in", EP_IN, 0, 1, 80), ("quiet",)]
        out.append(("packet-of-%d-bytes" % n, s))
    return out


def sc_timestamps(rng, quick):
    """C47 in composition: timestamp packets between (and right behind) other header packets; every field bit."""
    out = []
    vals = [(0x3FFF, 0x1FFF), (0x2AAA, 0x0AAA), (0x1555, 0x1555), (1, 0), (0, 1), (0x2000, 0x1000)]
    vals += [(1 << i, 1 << (i % 13)) for i in range(0, 14, 3 if quick else 1)]
    vals += [(rng.getrandbits(14), rng.getrandbits(13)) for _ in range(6 if quick else 40)]
    s = bringup() + set_address(rng.randrange(1, 128))
    for i, (c, d) in enumerate(vals):
        s += [("itp", c, d), ("wait", rng.choice([8, 8, 12, 20]))]
        if i % 5 == 2:
            s += ctl_in(GET_DESC(1, 0, 8))
        if i % 5 == 4:
            # a timestamp directly behind another header packet (no idle word between them)
            s += [("setup", GET_STATUS, {"nowait": True}), ("itp", (c + 1) & 0x3FFF, d, {"sep": 0}), ("wait", 12),
                  ("wait_dev", 1), ack0(0, 1), ("wait_dev", 1), ack0(1, 0), STATUS0, ("wait_dev", 1)]
    out.append(("timestamps", s + [("quiet",)]))
    return out


# =====================================================================================================================
# Trace preparation, classification, validation
# =====================================================================================================================
def prepare(items):
    """Header words / payloads -> indices into tables shared by the whole batch (each CRC computed once by TLC)."""
    hdrs, hidx, pays, pidx, out = [], {}, [], {}, []
    for trace, meta in items:
        t2 = []
        polls = set()          # cycles in which an IN request for the IN endpoint was reported
        for r in trace:
            e = r["e"]
            if e == "tp" and r["ep"] == EP_IN and r["sub"] == 1 and r["nump"] > 0:
                polls.add(r["t"])
            elif e == "w":
                # same-cycle tolerance of the specification: the word was accepted in the very cycle of such a report
                r = dict(r, same=r["t"] in polls)
            if e in ("dhp", "dhp_down", "dhp_seq"):
                key = tuple(r["w"])
                if key not in hidx:
                    hdrs.append(list(key))
                    hidx[key] = len(hdrs)
                w = r["w"]
                r = {k: v for k, v in r.items() if k != "w"}
                r["h"] = hidx[key]
                # (classification aid only; the specification decodes the table row itself)
                r["_k"] = "dp" if w[0] & 0x1F == 8 else {1: "ack", 2: "nrdy", 3: "erdy", 5: "stall"}.get(w[2] & 0xF, "?") \
                    if w[0] & 0x1F == 4 else "other"
            elif e in ("dp_rx", "ddp"):
                key = (tuple(r["b"]), tuple(r["crc"]))
                if key not in pidx:
                    pays.append({"b": list(key[0]), "crc": list(key[1])})
                    pidx[key] = len(pays)
                r = {k: v for k, v in r.items() if k not in ("b", "crc")}
                r["p"] = pidx[key]
            t2.append(r)
        out.append((t2, meta))
    return out, {"hdrs": hdrs or [[0] * 8], "pays": pays or [{"b": [], "crc": [0, 0, 0, 0]}], "desc": _DESC}


HANDLED = (0, 5, 6, 8, 9, 48, 49)
KNOWN_TRIGGERS = ("setup_while_standard_handler_busy", "setup_answered_with_stall",
                  "last_beat_withdrawn_while_tx_not_ready")


def _control_history(pre, pays):
    """What the request handlers of the unchanged tree were doing when each SETUP arrived (normalised cause only):
    -> (latest SETUP met a busy standard handler [sticky until a status stage], latest SETUP arrived while a stall-only
    condition was armed: previous request non-standard, or an unsupported standard request still waiting to be STALLed)."""
    busy = stuck = armed = unhandled = a_trigger = tainted = False
    for r in pre:
        e = r["e"]
        if e == "dp_rx" and r["setup"] and (r["len"] != 8 or r.get("cor")):
            a_trigger = armed or unhandled          # (the end of a Setup-flagged packet the decoder does not report)
        elif e == "dp_rx" and r["setup"]:
            b = pays[r["p"] - 1]["b"]
            a_trigger = armed or unhandled
            if busy:
                stuck = tainted = True          # (sticky: what such a request did to the device state stays)
            standard = (b[0] >> 5) & 3 == 0
            if standard:
                armed = False
                if not stuck:
                    if b[1] in HANDLED:
                        busy, unhandled = True, False
                    else:
                        unhandled = True
            else:
                armed = True
        elif e == "tp" and r["ep"] == 0:
            if r["sub"] == 4:
                busy = stuck = unhandled = False
            elif r["nump"] > 0:
                unhandled = False
    return tainted, a_trigger


# open C46 findings (known_findings.json, found by engine ss_proto on the endpoint alone) as they show in the composition:
# pattern -> the clause name of the existing signature
C46_CLAUSE = {"packet_completed_while_nrdy_was_being_sent": "erdy_missing",
              "poll_while_erdy_is_being_sent_dropped": "request_unanswered",
              "last_word_accepted_in_cycle_of_acknowledging_ack": "packet_stuck",
              "last_beat_withdrawn_while_tx_not_ready": "dp_truncated",
              "single_beat_packet_parameters_not_driven": "dp_parameters",
              "zero_length_packet_sequencing": "dp"}


def _c46_cause(pre, status):
    """Normalised causes of the open C46 findings, from the recorded events (with their cycles) before the failing one."""
    if status not in ("response_missing", "tp_requested_not_sent", "dp_payload_missing", "tp_subtype", "tp_not_owed",
                      "dp_not_owed", "dp_payload", "dp_length", "dp_sequence", "dp_header_without_payload", "dp_address"):
        return None
    held = closed = 0
    inflight = False
    nrdy_from = None            # cycle of an IN request answered NRDY whose NRDY is not yet on the wire
    erdy_from = None            # cycle of the packet completion that owes an ERDY not yet on the wire
    fc = False
    hits = []
    for r in pre:
        e = r["e"]
        if e == "w":
            held += len(r["b"])
            closes = r["last"] or held % MAX_PKT == 0
            if r["last"] and held % MAX_PKT == 0:
                hits.append("zero_length_packet_sequencing")
            elif r["last"] and 4 < held <= 8:
                hits.append("last_beat_withdrawn_while_tx_not_ready")
            elif r["last"] and held <= 4:
                hits.append("single_beat_packet_parameters_not_driven")
            if closes:
                if r["last"]:
                    held = 0
                if nrdy_from is not None and closed == 0:
                    hits.append("packet_completed_while_nrdy_was_being_sent")
                if r.get("_ack_t") is not None:
                    pass
                if fc and closed == 0 and not inflight:
                    erdy_from = r["t"]
                    fc = False
                closed += 1
        elif e == "tp" and r["ep"] == EP_IN and r["sub"] == 1:
            advancing = inflight and r["rty"] == 0 and r.get("_adv", True)
            if inflight and r["rty"] == 0:
                inflight = False
                closed = max(0, closed - 1)
                # a `last` word accepted in this very cycle?
                if any(x["e"] == "w" and x["t"] == r["t"] and x["last"] for x in pre):
                    hits.append("last_word_accepted_in_cycle_of_acknowledging_ack")
            if r["nump"] > 0:
                if erdy_from is not None:
                    hits.append("poll_while_erdy_is_being_sent_dropped")
                if closed > 0:
                    inflight = True
                else:
                    nrdy_from = r["t"]
                    fc = True
        elif e == "dhp" and "w" in r:
            pass
        elif e == "dhp":
            kind = r.get("_k")
            if kind == "nrdy":
                nrdy_from = None
            elif kind == "erdy":
                erdy_from = None
    return hits[0] if hits else None


def _cause(trace, k, status, pays):
    """Normalised cause of a rejection, computed from the recorded events before the failing record k (1-based)."""
    pre = trace[:k - 1]
    bad = trace[k - 1] if 0 < k <= len(trace) else {}
    polled_empty = False          # an IN request reached the IN endpoint while it held no complete packet
    held = 0
    closed = 0
    short_pkt = False
    for r in pre:
        if r["e"] == "w":
            held += len(r["b"])
            if r["last"] and 0 < (held % MAX_PKT) <= 8:
                short_pkt = True
            if r["last"] or held % MAX_PKT == 0:
                closed += 1
            if r["last"]:
                held = 0
        elif r["e"] == "tp" and r["ep"] == EP_IN and r["sub"] == 1 and r["nump"] > 0 and closed == 0:
            polled_empty = True
        elif r["e"] == "ddp":
            closed = max(0, closed - 0)
    k46 = _c46_cause(pre, status)
    if k46:
        return k46
    stuck, a_trigger = _control_history(pre, pays)
    last_host = next((r for r in reversed(pre) if r["e"] in ("dp_rx", "tp", "itp")), {})
    if a_trigger and status in ("tp_subtype", "tp_not_owed") and bad.get("e") == "dhp" and last_host.get("e") == "dp_rx" \
            and last_host.get("setup"):
        return "setup_answered_with_stall"
    if stuck:
        return "setup_while_standard_handler_busy"
    last_reset = max([i for i, r in enumerate(pre) if r["e"] in ("hot", "warm")], default=-1)
    if status in ("tp_without_request", "tp_not_owed", "tp_differs_from_request", "dp_not_owed") and last_reset >= 0 \
            and not any(r["e"] in ("dp_rx", "tp") for r in pre[last_reset:]):
        return "stale_packet_after_reset"
    return "other"


def classify(trace, matched, status, meta, pays):
    k = matched if status != "ok" else matched + 1
    if status.startswith("env_"):
        raise tlc.TLCError("stimulus left the Env assumptions (%s) in %s at step %d: %s"
                           % (status, {a: b for a, b in meta.items() if a != "_script"}, k, trace[max(0, k - 5):k]))
    pattern = _cause(trace, k, status, pays)
    if meta.get("class") == "clean" and (pattern in KNOWN_TRIGGERS or pattern in C46_CLAUSE):
        pattern += "_in_clean_stimulus"          # the clean class stays away from the triggers: never a known finding
    # the open C46 findings keep the signature (clause name, pattern) under which engine ss_proto registered them
    return {"clause": C46_CLAUSE.get(pattern, status), "pattern": pattern, "engine": ENGINE, "family": meta.get("family"),
            "trace_clause": status}


def validate(rep, items):
    if not items:
        return 0
    prepared, tab = prepare(items)
    cfg = tlc.render_cfg(_cfg("SsDeviceTrace.cfg.tmpl"), dict(MaxPkt=MAX_PKT, EpIn=EP_IN))
    bad = _corrupt(prepared)
    batch = [t for t, _ in prepared] + ([bad] if bad is not None else [])
    with tlc.scratch("ss-device-") as d:
        tf = os.path.join(d, "tab.json")
        with open(tf, "w") as f:
            json.dump(tab, f)
        verdicts, _res = tlc.validate_traces(SPEC_DIR, "SsDeviceTrace", cfg, batch, env={"TAB_FILE": tf})
    if bad is not None:
        m, st = verdicts.pop()
        if st == "ok" and m == len(bad):
            raise tlc.TLCError("self-test: a corrupted trace (a device transaction packet removed) was accepted")
    ok = steps = 0
    rejected = {}
    for (trace, meta), (matched, status) in zip(prepared, verdicts):
        n = len(trace)
        if status == "ok" and matched == n:
            ok += 1
            steps += n
            continue
        sig = classify(trace, matched, status, meta, tab["pays"])
        k = matched if status != "ok" else matched + 1
        rejected.setdefault("%s/%s" % (status, sig["pattern"]), []).append(meta.get("scenario"))
        meta = dict(meta)
        script = meta.pop("_script", None)
        what = "USBSuperSpeedDevice %s: real-gateware trace rejected by SsDeviceTrace at step %d/%d, clause '%s' (%s); last " \
               "records: %s" % (meta, k, n, status, sig.get("pattern"), trace[max(0, k - 5):k])
        rep.violation(sig, what, {"meta": meta, "failing_step": k, "clause": status, "trace_prefix": trace[:k + 1],
                                  "script": script})
    rep.add_traces(ok, steps)
    for key, names in sorted(rejected.items()):
        rep.notes.append("ss_device rejected [%s]: %s" % (key, ", ".join(str(n) for n in names[:40])))
    return ok


def _corrupt(prepared):
    """Machinery self-test: drop the first device transaction packet of a trace -- must be rejected."""
    for tr, _ in prepared:
        for i, r in enumerate(tr):
            if r["e"] == "dhp" and i > 8:
                return [dict(x) for j, x in enumerate(tr) if j != i]
    return None


# =====================================================================================================================
# Model checking and behaviours
# =====================================================================================================================
def _mc(feat, depth, **kw):
    d = dict(MaxPkt=2, MaxDepth=depth, MaxBytes=0, MaxReq=3, Setups="SetupsQuick", Addrs="{0, 5}",
             Feat="{%s}" % ", ".join('"%s"' % f for f in feat))
    d.update(kw)
    unc = ["Bound"]
    if "ctl" not in feat:
        unc += ["HSetup", "HIn0", "HAck0", "HStatus0"]
    if "bad" not in feat:
        unc += ["HBadSetup", "HJunkDp"]
    if "ctl" not in feat and "bad" not in feat:
        unc += ["DRxv"]
    if "in" not in feat:
        unc += ["HTpIn", "HWord"]
    if "itp" not in feat:
        unc += ["HItp", "DBi"]
    if "rst" not in feat:
        unc += ["HHot", "HWarm"]
    return d, tuple(unc)


MC = {
    "control": _mc(["ctl", "rst"], 11),
    "rx": _mc(["ctl", "bad"], 9),
    "bulk": _mc(["in", "rst"], 10, MaxBytes=3),
    "itp": _mc(["itp", "ctl"], 9),
    "control+": _mc(["ctl", "rst", "bad"], 11, Setups="SetupsThorough"),        # 23 k states / 346 k transitions
    "rx+": _mc(["ctl", "bad", "rst"], 11),
    "bulk+": _mc(["in", "rst"], 12, MaxBytes=4),                                 # 27 k / 200 k (with "ctl": > 25 min)
    "itp+": _mc(["itp", "ctl", "in"], 10, MaxBytes=2),
}


def model_check(name):
    consts, unc = MC[name]
    cfg = tlc.render_cfg(_cfg("MCSsDevice.cfg.tmpl"), consts)
    res = tlc.model_check(SPEC_DIR, "MCSsDevice", cfg, workers=4, timeout=1500, allow_uncovered=unc)
    return name, res, consts


def script_from_behaviour(beh, rng):
    """Env projection of a TLC behaviour of MCSsDevice (spec -> code): host events are replayed in order (requests mapped
    onto the real descriptor table, stream bytes onto clean packet sizes is not possible at this grain, so IN traffic of
    the model is replayed only as far as it stays inside the clean class), device events become waits."""
    s = [("power_on",), ("train", {}), ("wait_ready",)] + lmps()
    up = True
    skip_first_up = True
    mapping = {(128, 6, 256): GET_DESC(1, 0, 2), (128, 6, 768): GET_DESC(3, 7, 8), (128, 6, 512): GET_DESC(2, 0, 9),
               (0, 5, 5): SET_ADDRESS(5), (0, 9, 1): SET_CONFIG(1), (0, 3, 1): S(0, 3, 1), (128, 0, 0): GET_STATUS,
               (64, 1, 0): S(0x40, 1, 0), (192, 1, 0): S(0xC0, 1, 0, 0, 4)}
    for _a, stv in beh[1:]:
        e = stv["ev"]
        k = e.get("e")
        if k == "up":
            if skip_first_up:
                skip_first_up = False
            elif not up:
                s += [("wait_up", 2500), ("wait_ready",)]
                if s and ("hot" in [x for x in s[-8:] if isinstance(x, str)]):
                    pass
            up = True
        elif k == "down":
            if up and not (s and s[-1][0] == "warm_reset"):
                s.append(("recover", {"abrupt": True}))
            up = False
        elif k == "hot":
            # (the model resets while the link is down: make the recovery in progress a hot reset)
            for i in range(len(s) - 1, -1, -1):
                if s[i][0] == "recover":
                    s[i] = ("recover", {"abrupt": True, "hot": 2})
                    break
            s += [("wait_ready",)] + lmps()
            up = True
            skip_first_up = True
        elif k == "warm":
            s += [("warm_reset", 3), ("train", {}), ("wait_ready",)] + lmps()
            skip_first_up = True
        elif not up:
            continue
        elif k == "dp_rx":
            b = list(e["b"])
            if e["setup"]:
                key = (b[0], b[1], b[2] + 256 * b[3])
                s.append(("setup", mapping[key], {} if e["ok"] else {"corrupt": "bad32"}))
                if b[1] == 5 and e["ok"]:
                    pass
            else:
                s.append(("setup", b, {"flag": 0}))
            s.append(("wait", 12))
        elif k == "tp":
            if e["ep"] != 0:
                continue
            f = dict(sub="ack" if e["sub"] == 1 else "status", ep=0, seq=e["seq"], nump=e["nump"], rty=e["rty"])
            s += [("tp", f), ("wait", 14)]
            if e["sub"] == 4 and stv["gAddrSet"] and stv["addr"] == 5:
                s.append(("set_addr", 5))
        elif k == "itp":
            s += [("itp", e["cnt"] * 4099, e["cnt"] * 1021), ("wait", 8)]
        elif k in ("dhp", "ddp", "req"):
            s.append(("wait", rng.choice([0, 2, 6])))
        elif k == "quiet":
            s.append(("quiet",))
        if k in ("hot", "warm"):
            s.append(("set_addr", 0))
    return s + [("wait", 30), ("quiet",)]


# =====================================================================================================================
# The sub-checks
# =====================================================================================================================
def _run(rep, prop, families, mc_names, sim_from=None, extra_assume=()):
    quick = rep.tier == "quick"
    t0 = time.time()
    rep.notes.append("ss_device sub-check for %s: USBSuperSpeedDevice above the physical layer against SsDevice.tla" % prop)
    rep.assume("ss_device: physical layer replaced by bare signals (ss_linklayer's PhyStub) in the namespace of device.py while "
               "the design is elaborated; ss clock scaled to 1 MHz; TSEQ burst scaled 65536 -> 4 sets; IN endpoint number %d with "
               "max_packet_size %d (scaled from 1024)" % (EP_IN, MAX_PKT))
    rep.assume("ss_device Env: the host uses the device's current address, waits for the answer of a control stage before the next "
               "stage of the same transfer, sends no junk data packet during a request, never GET_CONFIGURATION / SET_SEL (not "
               "stated by a property), polls the IN endpoint with legal sequence numbers; resets only while the IN endpoint is "
               "drained; the partner accepts every CRC-good in-sequence device header (or LBADs it once and accepts the copy)")
    rep.assume("ss_device clean class: every IN packet has >= 3 stream words, transfers end with a short packet, data is buffered "
               "before the host asks (avoids the triggers of the open C46 findings and of C46-nrdy-erdy-not-forwarded-by-"
               "endpoint-multiplexer); witness class: sc_bulk_witness")
    for a in extra_assume:
        rep.assume(a)
    if not quick:
        mc_names = list(mc_names) + [n + "+" for n in mc_names]
    pool = ThreadPoolExecutor(max_workers=len(mc_names) + 1)
    futs = [pool.submit(model_check, n) for n in mc_names]
    fsim = None
    if sim_from:
        consts = dict(MC[sim_from][0])
        cfg = tlc.render_cfg(_cfg("MCSsDevice_sim.cfg.tmpl"), {k: consts[k] for k in ("MaxPkt", "Setups", "Addrs", "Feat")})
        fsim = pool.submit(tlc.simulate, SPEC_DIR, "MCSsDevice", cfg, 6 if quick else 60, 40, rep.seed * 7 + 1)
    _bench()
    t1 = time.time()
    named = []
    for fname, fam in families:
        for name, script in fam(rep.rng, quick):
            cls = "clean"
            if isinstance(script, tuple):
                cls, script = finish_linkdown(script) if script[0] == "linkdown" else script
            named.append((fname, name, script, cls))
    if fsim is not None:
        named += [("tlc-simulate", "beh-%d" % i, script_from_behaviour(b, rep.rng), "mixed") for i, b in enumerate(fsim.result())]
    jobs = [(script, rep.seed * 100003 + i) for i, (_f, _n, script, _c) in enumerate(named)]
    results = run_scripts(jobs)
    t2 = time.time()
    items = []
    cycles = 0
    for (fam, name, script, cls), (ev, info), job in zip(named, results, jobs):
        meta = {"family": fam, "scenario": name, "class": cls, "seed": job[1], "cycles": info["cycles"], "_script": script}
        if info.get("aborted"):
            raise tlc.TLCError("scenario %s did not finish within the cycle budget" % name)
        if len(ev) > MAX_RECORDS:
            # a run-away execution (e.g. a device that keeps emitting packets): the prefix is still a real execution, and the
            # first rejected step lies in it; keeps the TLC batch bounded
            ev = ev[:MAX_RECORDS]
            meta["truncated"] = True
        items.append((ev, meta))
        cycles += info["cycles"]
        for r in ev:
            e = r["e"]
            if e == "dhp":
                rep.nontriv((prop, "dhp", r["w"][0] & 0x1F, r["w"][2] & 0xF, fam))
            elif e in ("dp_rx", "tp"):
                rep.nontriv((prop, e, r.get("sub"), r.get("ep"), r.get("nump"), r.get("rty"), fam))
            elif e in ("ddp",):
                rep.nontriv((prop, e, len(r["b"])))
            elif e in ("up", "down", "hot", "warm", "itp", "rxv"):
                rep.nontriv((prop, e, fam))
    rep.add_eval(cycles)
    rep.rule = rep.rule or ("real-gateware event traces validated by TLC; non-trivial = a delivered host packet (by kind / endpoint / "
                            "fields), a device header (type / subtype) or payload (length), a link event, per scenario family")
    rep.sample({"engine": ENGINE, "scenario": {k: v for k, v in items[0][1].items() if k != "_script"},
                "first_events": items[0][0][:10]})
    n_ok = validate(rep, items)
    t3 = time.time()
    for f in futs:
        name, res, consts = f.result()
        rep.add_mc("MCSsDevice[%s]" % name, res, consts)
    pool.shutdown()
    rep.notes.append("ss_device %s: %d scenarios (%d accepted), %d real cycles; wall: elaborate %.1fs, drive %.1fs, validate %.1fs, "
                     "model checking (parallel) done at %.1fs" % (prop, len(items), n_ok, cycles, t1 - t0, t2 - t1, t3 - t2,
                                                                  time.time() - t0))


def extra_C45(rep):
    _run(rep, "C45", [("enumeration", sc_enumeration), ("backpressure", sc_backpressure), ("host_corruption", sc_host_corruption),
                      ("linkdown", sc_linkdown)], ["control"], sim_from="control")


def extra_C48(rep):
    _run(rep, "C48", [("descriptors", sc_descriptors), ("rx_packets", sc_rx_packets),
                      ("enumeration", lambda rng, q: sc_enumeration(rng, q)[:2]), ("control_witness", sc_control_witness)],
         ["rx"], sim_from="rx")


def extra_C46(rep):
    _run(rep, "C46", [("bulk", sc_bulk), ("bulk_witness", sc_bulk_witness), ("in_flow", sc_in_flow)], ["bulk"])


def extra_C47(rep):
    _run(rep, "C47", [("timestamps", sc_timestamps)], ["itp"])


def extra_C36(rep):
    _run(rep, "C36", [("descriptors", lambda rng, q: sc_descriptors(rng, q)[2:]),
                      ("bulk", lambda rng, q: sc_bulk(rng, q)[:2])], ["itp"])


def extra_C40(rep):
    _run(rep, "C40", [("rx_packets", sc_rx_packets), ("host_corruption", sc_host_corruption)], ["rx"])


EXTRA = {"C45": extra_C45, "C48": extra_C48, "C46": extra_C46, "C47": extra_C47, "C36": extra_C36, "C40": extra_C40}
