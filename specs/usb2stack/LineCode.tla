------------------------------ MODULE LineCode ------------------------------
(***************************************************************************)
(* USB 2.0 full-speed line code, written from the wording of chapter 7 of  *)
(* the USB 2.0 specification (not from the gateware):                      *)
(*                                                                         *)
(*  7.1.8   NRZI: a "1" is represented by no change in level, a "0" by a   *)
(*          change in level; the bus idles in the J state.                 *)
(*  7.1.9   Bit stuffing: a zero is inserted after every six consecutive   *)
(*          ones in the data stream before the data is NRZI encoded.       *)
(*          Bit stuffing is enabled beginning with the Sync Pattern; the   *)
(*          data "one" that ends the Sync Pattern is counted as the first  *)
(*          one in a sequence.  A zero is inserted even if it is the last  *)
(*          bit before EOP.  If the receiver sees seven consecutive ones   *)
(*          anywhere in the packet, a bit stuffing error has occurred.     *)
(*  7.1.10  SYNC (full/low speed): KJKJKJKK = NRZI of seven 0s and a 1.    *)
(*  7.1.13  EOP: SE0 for two bit times followed by J for one bit time.     *)
(*  8.1     Bits are sent least-significant bit first.                     *)
(*                                                                         *)
(* Everything is bit-serial; one sequence element = one bit time.          *)
(***************************************************************************)
EXTENDS Naturals, Sequences, Bits

J   == "J"
K   == "K"
SE0 == "SE0"
SE1 == "SE1"
LineSymbols == {J, K, SE0, SE1}

Flip(lvl) == IF lvl = J THEN K ELSE J

SyncBits   == <<0, 0, 0, 0, 0, 0, 0, 1>>     \* 7.1.10
EopSymbols == <<SE0, SE0, J>>                \* 7.1.13.2
StuffAfter == 6                              \* 7.1.9

IsPrefixOf(p, s) == Len(p) <= Len(s) /\ SubSeq(s, 1, Len(p)) = p

-----------------------------------------------------------------------------
(* 7.1.9 transmitter side.  StuffTagged walks the bit stream once, keeping  *)
(* the number of consecutive ones sent so far, and returns every bit with   *)
(* a tag telling whether it is an inserted (stuffed) zero.                  *)
RECURSIVE StuffTaggedFrom(_, _, _)
StuffTaggedFrom(bits, i, ones) ==
    IF i > Len(bits) THEN <<>>
    ELSE IF bits[i] = 1
         THEN IF ones + 1 = StuffAfter
              THEN <<[b |-> 1, s |-> FALSE], [b |-> 0, s |-> TRUE]>> \o StuffTaggedFrom(bits, i + 1, 0)
              ELSE <<[b |-> 1, s |-> FALSE]>> \o StuffTaggedFrom(bits, i + 1, ones + 1)
         ELSE <<[b |-> 0, s |-> FALSE]>> \o StuffTaggedFrom(bits, i + 1, 0)

StuffTagged(bits) == StuffTaggedFrom(bits, 1, 0)
Stuff(bits) == LET t == StuffTagged(bits) IN [i \in 1..Len(t) |-> t[i].b]

\* positions (in the stuffed stream) of the inserted zeros, in order
StuffPositions(bits) ==
    LET t == StuffTagged(bits) IN SelectSeq([i \in 1..Len(t) |-> IF t[i].s THEN i ELSE 0], LAMBDA x : x # 0)

(* 7.1.8: level after each bit, starting from the idle level J. *)
RECURSIVE NrziFrom(_, _, _)
NrziFrom(bits, i, lvl) ==
    IF i > Len(bits) THEN <<>>
    ELSE LET n == IF bits[i] = 0 THEN Flip(lvl) ELSE lvl IN <<n>> \o NrziFrom(bits, i + 1, n)
Nrzi(bits) == NrziFrom(bits, 1, J)

\* The raw bit stream of a packet: stuffing covers SYNC and data together (7.1.9).
PacketBits(bytes) == Stuff(SyncBits \o BytesToBits(bytes))

\* What a packet looks like on D+/D-, one symbol per bit time.
Encode(bytes) == Nrzi(PacketBits(bytes)) \o EopSymbols

NumStuffed(bytes) == Len(StuffPositions(SyncBits \o BytesToBits(bytes)))

\* The same packet after the channel (or a faulty transmitter) turned the k-th stuffed zero into
\* a one, i.e. seven consecutive ones inside the packet (k in 1..NumStuffed(bytes)).
EncodeStuffViolation(bytes, k) ==
    LET raw == SyncBits \o BytesToBits(bytes)
        p   == StuffPositions(raw)[k]
    IN Nrzi([Stuff(raw) EXCEPT ![p] = 1]) \o EopSymbols

\* NOT USB -- diagnosis aid only: stuffing that ignores the SYNC's final one.
EncodeIgnoringSyncOne(bytes) == Nrzi(SyncBits \o Stuff(BytesToBits(bytes))) \o EopSymbols

-----------------------------------------------------------------------------
(* Receiver side. *)

\* number of leading J/K symbols
RECURSIVE DataLenFrom(_, _)
DataLenFrom(syms, i) == IF i > Len(syms) \/ syms[i] \notin {J, K} THEN i - 1 ELSE DataLenFrom(syms, i + 1)

\* 7.1.8 inverse: 1 = same level as the bit time before (idle J before the first), 0 = level changed
NrziDecode(lvls) == [i \in 1..Len(lvls) |-> IF lvls[i] = (IF i = 1 THEN J ELSE lvls[i - 1]) THEN 1 ELSE 0]

\* 7.1.9 inverse: discard the bit after six ones; a seventh one is a bit-stuff error
RECURSIVE UnstuffFrom(_, _, _)
UnstuffFrom(bits, i, ones) ==
    IF i > Len(bits) THEN [out |-> <<>>, err |-> FALSE]
    ELSE IF ones = StuffAfter
         THEN IF bits[i] = 1 THEN [out |-> <<>>, err |-> TRUE]
              ELSE UnstuffFrom(bits, i + 1, 0)
         ELSE LET r == UnstuffFrom(bits, i + 1, IF bits[i] = 1 THEN ones + 1 ELSE 0)
              IN [out |-> <<bits[i]>> \o r.out, err |-> r.err]
Unstuff(bits) == UnstuffFrom(bits, 1, 0)

(* Decode a complete packet (first symbol = first bit time after idle).     *)
(* why: "none" | "stuff" (seven ones) | "sync" | "eop" | "align"            *)
Decode(syms) ==
    LET n    == DataLenFrom(syms, 1)
        u    == Unstuff(NrziDecode(SubSeq(syms, 1, n)))
        bits == u.out
        why  == IF u.err THEN "stuff"
                ELSE IF Len(bits) < 8 \/ SubSeq(bits, 1, 8) # SyncBits THEN "sync"
                ELSE IF SubSeq(syms, n + 1, Len(syms)) # EopSymbols THEN "eop"
                ELSE IF (Len(bits) - 8) % 8 # 0 THEN "align"
                ELSE "none"
    IN [ok    |-> why = "none",
        bytes |-> IF why = "none" THEN BitsToBytes(SubSeq(bits, 9, Len(bits))) ELSE <<>>,
        why   |-> why]

\* longest stretch of bit times without a level change among the leading J/K symbols (7.1.9:
\* stuffing guarantees a transition at least every seven bit times)
RECURSIVE MaxHoldFrom(_, _, _, _)
MaxHoldFrom(syms, i, cur, best) ==
    IF i > Len(syms) \/ syms[i] \notin {J, K} THEN (IF cur > best THEN cur ELSE best)
    ELSE IF i > 1 /\ syms[i] = syms[i - 1] THEN MaxHoldFrom(syms, i + 1, cur + 1, best)
    ELSE MaxHoldFrom(syms, i + 1, 1, IF cur > best THEN cur ELSE best)
MaxHold(syms) == MaxHoldFrom(syms, 1, 0, 0)
=============================================================================
