----------------------------- MODULE HsGenTrace -----------------------------
(* Trace validation of the real USBHandshakeGenerator against HsGen.  One record per clock cycle:   *)
(*   ack, nak, stall, ready   inputs;   valid, data   tx outputs sampled before the clock edge.       *)
EXTENDS HsGen, TLC, TLCExt, Json, IOUtils

Logs == JsonDeserialize(IOEnv.TRACE_FILE)

VARIABLES tid, l, status
tvars == <<vars, tid, l, status>>

ASSUME \A i \in 1..Len(Logs) : TLCSet(i, <<0, "ok">>)

InputOf(r)  == [ack |-> r.ack, nak |-> r.nak, stall |-> r.stall, ready |-> r.ready, rst |-> r.rst]
OutputOf(r) == [valid |-> r.valid, data |-> r.data]

TInit == Init /\ tid \in 1..Len(Logs) /\ l = 1 /\ status = "ok"

TNext == /\ status = "ok"
         /\ l <= Len(Logs[tid])
         /\ LET r == Logs[tid][l] IN
              /\ status' = OutViolation(InputOf(r), OutputOf(r))
              /\ Step(InputOf(r), OutputOf(r))
         /\ l' = l + 1
         /\ UNCHANGED tid

TSpec == TInit /\ [][TNext]_tvars

TraceProp == OnePacketPerRequest /\ NeverLate /\ (l > Len(Logs[tid]) => PacketMatchesRequest)

\* the constraint is FALSE after a failure: the trace is not followed further, the verdict cannot be overwritten
Verdict == IF status # "ok" THEN status ELSE IF TraceProp THEN "ok" ELSE "prop_invariant"
Progress == TLCSet(tid, <<l - 1, Verdict>>) /\ Verdict = "ok"

Verdicts == JsonSerialize(IOEnv.VERDICT_FILE, [i \in 1..Len(Logs) |-> TLCGet(i)])
=============================================================================
