---------------------------- MODULE DataTxTrace ----------------------------
(***************************************************************************)
(* Trace validation for DataTx.  A trace is a list of per-cycle records     *)
(*   [rst                        -- the clock domain's reset in this cycle   *)
(*    sv, sf, sl, sp, pid, rdy   -- stream valid/first/last/payload,        *)
(*                                   data_pid, tx_ready of the cycle        *)
(*    sr, tv, td]                -- stream.ready, tx_valid, tx_data         *)
(* sampled in the same cycle, before the clock edge.                        *)
(***************************************************************************)
EXTENDS DataTx, TLC, TLCExt, Json, IOUtils

Logs == JsonDeserialize(IOEnv.TRACE_FILE)

VARIABLES tid, l, status
tvars == <<vars, tid, l, status>>

ASSUME \A i \in 1..Len(Logs) : TLCSet(i, <<0, "ok">>)

InOf(r)  == [sv |-> r.sv, sf |-> r.sf, sl |-> r.sl, sp |-> r.sp, pid |-> r.pid, rdy |-> r.rdy]
OutOf(r) == [sr |-> r.sr, tv |-> r.tv, td |-> r.td]

TInit == Init /\ tid \in 1..Len(Logs) /\ l = 1 /\ status = "ok"

TNext == /\ status = "ok"
         /\ l <= Len(Logs[tid])
         /\ LET r == Logs[tid][l]
                i == InOf(r)
                o == OutOf(r)
                f == IF r.rst /\ ~ResetLegal(i) THEN "env_illegal_input" ELSE Failing(i, o)
            IN /\ status' = f
               /\ IF f # "ok" THEN UNCHANGED vars ELSE IF r.rst THEN ResetStep(i, o) ELSE Step(i, o)
         /\ l' = l + 1
         /\ UNCHANGED tid

TSpec == TInit /\ [][TNext]_tvars

TraceProp == TypeOK /\ FramedCorrectly /\ WirePrefix /\ ConsumedIsOffered /\ OnePacketPerRequest

\* (the constraint is FALSE after a failure, so the trace is not followed further and the verdict stays)
Verdict == IF status # "ok" THEN status ELSE IF TraceProp THEN "ok" ELSE "prop_invariant"
Progress == TLCSet(tid, <<l - 1, Verdict>>) /\ Verdict = "ok"

Verdicts == JsonSerialize(IOEnv.VERDICT_FILE, [i \in 1..Len(Logs) |-> TLCGet(i)])
=============================================================================
