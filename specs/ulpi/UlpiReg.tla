------------------------------- MODULE UlpiReg -------------------------------
(***************************************************************************)
(* C24 — ULPI control registers converge to the requested UTMI settings.   *)
(*                                                                         *)
(* Grain: one step = one ULPI clock cycle.                                 *)
(*   Env  : the UTMI control inputs c (any change in any cycle), tx_valid, *)
(*          and the PHY (DIR, NXT) following the ULPI protocol; the PHY    *)
(*          owns the register file: a register write 10aaaaaa / data / STP *)
(*          commits phyReg[a] := data in the STP cycle; DIR aborts it.     *)
(*   Ref  : bus-level reference state: the PHY's protocol phase, the write *)
(*          in flight (wcmd, wdata), phyReg, and for each register the set *)
(*          cand[a] of values that were requested for it since the         *)
(*          previous write to a completed.  (The link-side shadow-register *)
(*          mechanism that produces such bus behaviour is the Ref of       *)
(*          MCUlpiReg; real traces are held to the bus-level Prop only.)   *)
(*   Prop : (P1) every completed write (a, d) addresses Function Control   *)
(*               or OTG Control and d \in cand[a];                         *)
(*          (P2) STP follows the accepted data byte;                       *)
(*          (P3) a mismatch Req(a, c) # phyReg[a] never outlives WBound    *)
(*               cycles in which the PHY left the bus to the link without  *)
(*               a write completing (convergence; writer not starved);     *)
(*          (P4) tx_valid never waits more than TBound such cycles for the *)
(*               PHY to accept the transmit command (transmitter not       *)
(*               starved); a completed write that serves a control change  *)
(*               made since the previous write restarts the count (writes  *)
(*               have priority, one per new request).                      *)
(***************************************************************************)
EXTENDS UlpiCommon, FiniteSets

CONSTANTS WBound, TBound,
          X1Addr, X1Reset, X2Addr, X2Reset,   \* extra registers (add_extra_register / platform): address (NoReg = unused)
                                              \* and the PHY's reset value; requested values are c.x1 / c.x2
          Startup,   \* the link must leave the bus alone for this many cycles after reset (records with RESETB)
          AgeCap     \* the age counters saturate here (0 in the exhaustive model, where liveness is checked temporally)

VARIABLES qdir,     \* DIR of the previous cycle
          qphase,   \* PHY protocol phase after the last cycle: "idle"|"wait"|"txd"|"rwd"|"rws"
          wcmd, wdata,   \* register-write command / data byte the PHY accepted
          phyReg,   \* PHY register file: [4 |-> v, 10 |-> v]
          cand,     \* [a |-> set of values requested for a since the previous write to a completed]
          wrAge,    \* link-owned cycles since a mismatch is outstanding without a write completing
          txAge,    \* link-owned cycles tx_valid has been waiting for its TXCMD to be accepted
          chg,      \* the control inputs changed since the last completed write (such a write is progress
                    \* on a new request: the waiting transmitter was overtaken legitimately)
          age0,     \* cycles since reset, saturating at Startup
          txOn,     \* the TXCMD of the current transmission was accepted
          lastWr,   \* ghost: [a, d, ok] last completed write and whether d was a requested value
          gin, gchk

gvars == <<qdir, qphase, wcmd, wdata, phyReg, cand, wrAge, txAge, chg, age0, txOn, lastWr, gin, gchk>>

NoReg == 64
Regs == {FunctionControlAddr, OtgControlAddr} \cup ({X1Addr, X2Addr} \ {NoReg})
Req(a, c) == IF a = FunctionControlAddr THEN FunctionControl(c)
             ELSE IF a = OtgControlAddr THEN OtgControl(c)
             ELSE IF a = X1Addr THEN c.x1 ELSE c.x2
ResetVal(a) == IF a = FunctionControlAddr THEN FunctionControlReset
               ELSE IF a = OtgControlAddr THEN OtgControlReset
               ELSE IF a = X1Addr THEN X1Reset ELSE X2Reset
Mismatch(c, regs) == \E a \in Regs : Req(a, c) # regs[a]

ResetCtrl == [xcvr |-> 1, term |-> 0, opm |-> 0, susp |-> 0, idpu |-> 0, dppd |-> 1, dmpd |-> 1,
              dischrg |-> 0, chrg |-> 0, extvbus |-> 0, x1 |-> 0, x2 |-> 0]

-----------------------------------------------------------------------------
(* Env legality of i = [dir, nxt, txv, c] *)
LegalPhy(i) ==
    /\ (i.dir = 0 /\ qdir = 1) => i.nxt = 0
    /\ (i.dir = 0 /\ i.nxt = 1) => qphase \in {"wait", "txd", "rwd"}
    /\ (i.dir = 1 /\ qdir = 0) => qphase # "txd"

Completes(i, o) == qphase = "rws" /\ i.dir = 0 /\ o.stp = 1
WrA == RegAddr(wcmd)

Failing(i, o) ==
    IF age0 < Startup /\ (CmdKind(o.do) # 0 \/ o.stp = 1) THEN "bus_used_before_phy_ready"
    ELSE IF qphase = "rws" /\ i.dir = 0 /\ o.stp # 1 THEN "regwrite_stp_missing"
    ELSE IF Completes(i, o) /\ WrA \notin Regs THEN "write_unknown_register"
    ELSE IF Completes(i, o) /\ wdata \notin (cand[WrA] \cup {Req(WrA, i.c)}) THEN "write_value_never_requested"
    ELSE IF wrAge > WBound THEN "register_not_converged"
    ELSE IF txAge > TBound THEN "transmitter_starved"
    ELSE "ok"

NoGIn  == [dir |-> 0, nxt |-> 0, txv |-> 0, c |-> ResetCtrl]
NoGOut == [do |-> 0, oe |-> 1, stp |-> 0]

RegInit == /\ qdir = 0 /\ qphase = "idle" /\ wcmd = 0 /\ wdata = 0
           /\ phyReg = [a \in Regs |-> ResetVal(a)]
           /\ cand = [a \in Regs |-> {}]
           /\ wrAge = 0 /\ txAge = 0 /\ chg = FALSE /\ age0 = 0 /\ txOn = FALSE
           /\ lastWr = [a |-> 0, d |-> 0, ok |-> TRUE]
           /\ gin = NoGIn /\ gchk = "ok"

RegStep(i, o) ==
    LET done == Completes(i, o)
        okA  == WrA \in Regs
        regs1 == IF done /\ okA THEN [phyReg EXCEPT ![WrA] = wdata] ELSE phyReg
        pp1  == IF i.dir = 1 THEN "idle"
                ELSE IF qphase = "idle" THEN
                      (IF qdir = 0 /\ o.oe = 1 /\ CmdKind(o.do) # 0 THEN "wait" ELSE "idle")
                ELSE IF qphase = "wait" THEN
                      (IF i.nxt = 1 THEN
                          (IF CmdKind(o.do) = 1 THEN (IF o.stp = 1 THEN "idle" ELSE "txd")
                           ELSE IF CmdKind(o.do) = 2 THEN "rwd" ELSE "idle")
                       ELSE IF CmdKind(o.do) = 0 THEN "idle" ELSE "wait")
                ELSE IF qphase = "txd" THEN (IF o.stp = 1 THEN "idle" ELSE "txd")
                ELSE IF qphase = "rwd" THEN (IF i.nxt = 1 THEN "rws" ELSE "rwd")
                ELSE "idle"
        txOn1 == IF i.txv = 0 THEN FALSE ELSE (txOn \/ pp1 = "txd")
    IN /\ gchk' = Failing(i, o)
       /\ gin' = i
       /\ qdir' = i.dir
       /\ qphase' = pp1
       /\ wcmd' = IF qphase = "wait" /\ i.dir = 0 /\ i.nxt = 1 THEN o.do ELSE wcmd
       /\ wdata' = IF qphase = "rwd" /\ i.dir = 0 /\ i.nxt = 1 THEN o.do ELSE wdata
       /\ phyReg' = regs1
       /\ cand' = [a \in Regs |-> IF done /\ a = WrA THEN {Req(a, i.c)} ELSE cand[a] \cup {Req(a, i.c)}]
       /\ wrAge' = IF done \/ i.dir = 1 \/ ~Mismatch(i.c, regs1) THEN 0 ELSE Min(wrAge + 1, AgeCap)
       /\ txOn' = txOn1
       /\ age0' = Min(age0 + 1, Startup)
       /\ txAge' = IF i.dir = 1 \/ i.txv = 0 \/ txOn1 \/ (done /\ chg) THEN 0 ELSE Min(txAge + 1, AgeCap)
       /\ chg' = IF AgeCap = 0 THEN FALSE ELSE IF done THEN i.c # gin.c ELSE (chg \/ i.c # gin.c)
       /\ lastWr' = IF done THEN [a |-> WrA, d |-> wdata,
                                  ok |-> okA /\ wdata \in (cand[WrA] \cup {Req(WrA, i.c)})]
                    ELSE lastWr

-----------------------------------------------------------------------------
(* Prop *)
\* (P1) each write carries a value requested for the register it addresses
WritesCarryRequestedValue == lastWr.ok
\* (P3) quiescence: with no mismatch pending for longer than WBound, the PHY holds the requested settings
ConvergesWithinBound == wrAge <= WBound + 1
\* (P4)
TransmitterNotStarved == txAge <= TBound + 1
RegRefAllowed == gchk = "ok"
=============================================================================
