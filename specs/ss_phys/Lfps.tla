--------------------------------- MODULE Lfps ---------------------------------
(***************************************************************************)
(* Reference specification of LFPS pattern detection and generation         *)
(* (LFPSDetector / LFPSGenerator, property C42), in explicit time.          *)
(*                                                                         *)
(* Time unit of the spec constants: nanoseconds [USB3.2 Table 6-30].        *)
(* The gateware runs on a clock of period Period ns (scaled clocks are      *)
(* allowed - the clock frequency is a constructor parameter); a duration t  *)
(* is Cyc(t) = ceil(t / Period) cycles.  The binding only uses periods that *)
(* divide the table values, so no rounding convention is ever exercised.    *)
(*                                                                         *)
(*  Env : the received envelope as alternating events                       *)
(*          Fall(b)  - a burst that lasted b cycles ends,                   *)
(*          Rise(g)  - after g idle cycles the next burst begins.           *)
(*  Ref : (periodic patterns: polling, ping)                                *)
(*          a (burst, repeat) pair is *good* when the burst length is in    *)
(*          [tBurst min, max] and the start-to-start period is in           *)
(*          [tRepeat min, max]; the pattern is reported at the Rise that    *)
(*          completes a good pair when the pair before it was good too;     *)
(*        (non-repeating pattern: warm reset)                               *)
(*          reported at the Fall of a burst whose length is in the window.  *)
(*        Nothing is reported at any other time.                            *)
(*  Gen : while enabled, bursts of Cyc(tBurst typ) cycles every             *)
(*        Cyc(tRepeat typ) cycles (one re-arm cycle between patterns is     *)
(*        tolerated: period in {R, R+1}), electrical idle driven throughout.*)
(***************************************************************************)
EXTENDS Naturals, Sequences

\* [USB3.2 Table 6-30] LFPS transmitter timing, ns.  typ = 0: none specified.
Table ==
  [ polling |-> [bmin |-> 600,      btyp |-> 1000,      bmax |-> 1400,
                 rmin |-> 6000,     rtyp |-> 10000,     rmax |-> 14000,     periodic |-> TRUE],
    ping    |-> [bmin |-> 40,       btyp |-> 0,         bmax |-> 200,
                 rmin |-> 160000000, rtyp |-> 200000000, rmax |-> 240000000, periodic |-> TRUE],
    reset   |-> [bmin |-> 80000000, btyp |-> 100000000, bmax |-> 120000000,
                 rmin |-> 0,        rtyp |-> 0,         rmax |-> 0,         periodic |-> FALSE] ]

Cyc(t, period) == (t + period - 1) \div period

\* a pattern in cycles: [bmin, btyp, bmax, rmin, rtyp, rmax, periodic]
InCycles(p, period) ==
  [bmin |-> Cyc(p.bmin, period), btyp |-> Cyc(p.btyp, period), bmax |-> Cyc(p.bmax, period),
   rmin |-> Cyc(p.rmin, period), rtyp |-> Cyc(p.rtyp, period), rmax |-> Cyc(p.rmax, period),
   periodic |-> p.periodic]

BurstOK(pc, b)  == pc.bmin <= b /\ b <= pc.bmax
PeriodOK(pc, p) == pc.rmin <= p /\ p <= pc.rmax

-----------------------------------------------------------------------------
(* Detector.  State: [burstOk, lastBurst, streak] *)
DetInit == [burstOk |-> FALSE, lastBurst |-> 0, streak |-> 0]

\* a burst of b cycles just ended
DetFall(pc, st, b) ==
    [burstOk |-> BurstOK(pc, b), lastBurst |-> b,
     streak |-> IF BurstOK(pc, b) THEN st.streak ELSE 0]
FallDetect(pc, st, b) == ~pc.periodic /\ BurstOK(pc, b)

\* a new burst begins after g idle cycles
PairGood(pc, st, g)   == st.burstOk /\ PeriodOK(pc, st.lastBurst + g)
RiseDetect(pc, st, g) == pc.periodic /\ PairGood(pc, st, g) /\ st.streak >= 1
DetRise(pc, st, g) ==
    [burstOk |-> FALSE, lastBurst |-> 0, streak |-> IF PairGood(pc, st, g) THEN 1 ELSE 0]

-----------------------------------------------------------------------------
(* Generator, as a relation on the edges of send_signaling while enabled *)
GenStartLat == 2                       \* cycles from enable to the first burst (not constrained tighter)
GenBurstOK(pc, b)   == b = pc.btyp
GenPeriodOK(pc, p)  == p = pc.rtyp \/ p = pc.rtyp + 1
=============================================================================
