"""Engine `usb2tok` — C01 (token detection), C04 (handshake generator / detector), C05 (inter-packet timer).

Specifications: specs/usb2tok/{PktDet,HsGen,IpTimer}.tla (+ MC*/…Trace).  UTMI-cycle grain: every trace is one
record per clock cycle of the real module (inputs of the cycle + outputs sampled before the clock edge).
"""
import os

from .. import tlc
from ..core import use_repo
from ..hosts import utmi as H
from ..hosts.parval import validate_group_parallel, validate_many, model_check_many

ENGINE = "usb2tok"
SPEC_DIR = "usb2tok"

LAT = 2        # an event is reported in one of the cycles c0 .. c0+LAT (c0 = first cycle with rx_active low)
MIN_GAP = 2    # Env: rx_active low for at least MIN_GAP cycles between packets
GLAT = 2       # handshake generator: tx_valid rises 1..GLAT cycles after the request

META = {
    "C01": {
        "text": "PktDet.tla (Mode=token): per-cycle UTMI receive Env (packets of any length with rx_valid gaps, cut "
                "short anywhere, any address), Ref = bytes of the packet in progress and the event Expect(pkt, addr) "
                "owed at its end (Token(pid, addr, ep) iff 3 bytes, valid check nibble, IN/OUT/SETUP/PING, bit-serial "
                "CRC5 ok, own address; Sof(frame) iff 3 bytes, SOF PID, CRC5 ok; else nothing), to be strobed exactly "
                "once in a 3-cycle window after rx_active falls (which cycle is free) and never otherwise; frame only "
                "changes by a SOF.  TLC explores every two-packet schedule over an alphabet hitting every branch of "
                "Expect and proves the history theorems (reported = events of the well-formed packets, in order, once); "
                "CRC5 single/double-bit error detection is checked on the definition.  The real USBTokenDetector is "
                "driven with TLC-simulated behaviours, a sweep of token payloads x {correct CRC, flipped CRC bits} for "
                "all five PIDs, random packet soups (truncated / over-long / bad check nibble / foreign address / gaps "
                "/ minimum inter-packet gap, changing device address) and the repository's test packets; every cycle "
                "(strobes, pid/address/endpoint/frame, is_* flags) is validated by TLC against PktDet.",
        "note": "Env assumptions: rx_valid only while rx_active and not in the cycle rx_active rises; rx_active low "
                ">= 2 cycles between packets; the device address changes only while the bus has been idle > 2 cycles. "
                "Only filter_by_address=True is covered.  Latency window (rx_active falling .. +2 cycles) is a "
                "parameter of the spec.  Trusted base: TLC, amaranth.sim, CRC.tla, the cycle driver below.",
        "technique": "TLA+ packet/event spec, TLC exhaustive + batch trace validation of pysim traces",
        "design_ref": "DESIGN.md §5 C01",
    },
    "C04": {
        "text": "Detector: PktDet.tla (Mode=handshake) — a strobe ack/nak/stall/nyet exactly once, in the window after "
                "the packet ends, iff the packet is the single byte PID|~PID of that handshake; TLC: all 256 first "
                "bytes x lengths 1..3 and two-packet schedules; the real USBHandshakeDetector is driven with all 256 "
                "PID bytes x lengths 0..3 (+gaps, aborted, soups) and every cycle validated.  Generator: HsGen.tla — "
                "requests (any combination, any cycle, also while busy) and any tx_ready pattern; a request seen "
                "while idle yields exactly one one-byte packet with the PID byte of a requested kind (priority among "
                "simultaneous strobes left free), tx_valid/tx_data held until accepted, requests while busy ignored; "
                "TLC proves one-packet-per-request / held-until-accepted / single-byte on every schedule up to 2..3 "
                "requests; the real USBHandshakeGenerator is driven with TLC-simulated and biased-random schedules "
                "and every cycle validated.",
        "note": "Generator latency: tx_valid rises 1..2 cycles after the request (spec parameter GLat).  Detector Env "
                "as C01.  Trusted base: TLC, amaranth.sim.",
        "technique": "TLA+ specs (detector shares PktDet with C01), TLC exhaustive + batch trace validation",
        "design_ref": "DESIGN.md §5 C04",
    },
    "C05": {
        "text": "IpTimer.tla: implementation-shaped cycle counter with the documented timing table as spec constants "
                "derived from bit times (60 MHz: HS 1/24/92, FS 10/32/80, LS 80/260/640; 12 MHz FS-only 2/7/16): "
                "tx_allowed / tx_timeout / rx_timeout <=> cycles since the timer origin = Min / Max / RxTo of the "
                "currently selected speed.  TLC explores every start schedule and speed choice with the real "
                "constants for the three supported configurations.  The real USBInterpacketTimer (60 MHz, 60 MHz "
                "fs_only, 12 MHz fs_only) is driven with every speed, restarts at offsets around every threshold, "
                "speed switches and random schedules, and the timer inside the real USBTokenDetector is observed "
                "through new_token -> ready_for_response for every configuration; every cycle is validated by TLC.",
        "note": "Time origin: the cycle after the start strobe (for the token detector: the cycle new_token is high), "
                "cycle 0 after reset.  speed=3 is outside Env; in fs_only configurations only FULL is constrained "
                "(as the property states).  Known finding on the unchanged tree: the LOW branch uses the HIGH-speed "
                "constants (fix proposed in fixes/C05-low-speed-timer-constants.diff); LOW stimuli are kept apart as "
                "witness traces so that they do not shadow the rest.",
        "technique": "TLA+ timer spec with real constants, TLC exhaustive + batch trace validation",
        "design_ref": "DESIGN.md §5 C05, Appendix A",
    },
}


def _cfg(name):
    with open(os.path.join(tlc.SPECS, SPEC_DIR, name)) as f:
        return f.read()


# ------------------------------------------------------------------------------------------------------------
# stimuli for the receive-side detectors
# ------------------------------------------------------------------------------------------------------------

class RxStim:
    """Builds a per-cycle UTMI receive stimulus [{a, v, d, addr, speed}] that honours PktDet's Env."""

    def __init__(self, rng, addr=0, speed=1):
        self.rng = rng
        self.addr = addr
        self.speed = speed
        self.steps = []
        self.quiet = 99
        self.packets = []       # (bytes actually presented, addr at end)
        self._emit(0, 0, 0)     # cycle 0 is idle (the address input takes its value here)
        self.quiet = 99

    def _emit(self, a, v, d):
        self.steps.append({"a": bool(a), "v": bool(v), "d": d, "addr": self.addr, "speed": self.speed})
        self.quiet = 0 if a else self.quiet + 1

    def reset_here(self, cycles=1):
        """Assert the domain reset in the last `cycles` cycles emitted so far."""
        for st in self.steps[-cycles:]:
            st["rst"] = True

    def idle(self, n=1):
        for _ in range(n):
            self._emit(0, 0, 0)

    def set_addr(self, addr):
        if addr == self.addr:
            return
        while self.quiet < 1:           # Env: the address is stable while rx_active is high and in the cycle it falls
            self.idle()
        self.addr = addr
        self.idle()

    def set_speed(self, speed):
        self.speed = speed

    def packet(self, octets, gap_prob=0.0, cut=None, gap_after=None, gaps=None, tail=None):
        """Present `octets` (cut short after `cut` bytes if given).  rx_valid gaps: random one/two-cycle gaps
        with probability gap_prob, or exactly gaps[i] cycles before byte i; `tail` = cycles with rx_active still
        high (rx_valid low) after the last byte."""
        while self.quiet < MIN_GAP:
            self.idle()
        rng = self.rng
        self._emit(1, 0, rng.choice([0, 0xE1, 0xA5, rng.randrange(256)]))
        sent = []
        for i, b in enumerate(octets):
            if cut is not None and i >= cut:
                break
            if gaps is not None:
                ng = gaps[i]
            else:
                ng = rng.choice([1, 1, 2]) if gap_prob and rng.random() < gap_prob else 0
            for _ in range(ng):
                # rx_data is a don't-care in a gap: make it look like something interesting
                self._emit(1, 0, rng.choice([0xE1, 0xD2, 0x5A, b, rng.randrange(256)]))
            self._emit(1, 1, b)
            sent.append(b)
        if tail is None:
            tail = 1 if gap_prob and rng.random() < gap_prob / 2 else 0
        for _ in range(tail):
            self._emit(1, 0, rng.choice([0xD2, 0x96, rng.randrange(256)]))   # rx_active tail
        self.packets.append((sent, self.addr))
        self.idle(MIN_GAP if gap_after is None else max(1, gap_after))


HS_BYTES = (0xD2, 0x5A, 0x1E, 0x96)


def gap_patterns(n, all_lengths):
    """Every subset of the byte positions 0..n-1 that is preceded by an rx_valid gap, with gap lengths 1..4
    (every length for every subset if all_lengths, else cycling through them), plus rx_active tails 0..2."""
    out = []
    k = 0
    for mask in range(1 << n):
        lens = (1, 2, 3, 4) if (all_lengths and mask) else ((1 + k % 4,) if mask else (0,))
        for g in lens:
            out.append(([g if mask >> i & 1 else 0 for i in range(n)], k % 3))
            k += 1
    return out


def multi_byte_packets(rng, mode, n, count):
    """Packets of n >= 2 bytes that must not produce an event although their later / last bytes look like
    (or nearly like) a complete packet of their own: the detector must keep ignoring them until rx_active falls."""
    pkts = []
    near = [b ^ (1 << rng.randrange(8)) for b in HS_BYTES] + [0x00, 0xC3, 0xE1]
    for j in range(count):
        first = [HS_BYTES[j % 4], 0xE1, 0xA5, 0xC3, 0x4B, HS_BYTES[j % 4] ^ 0x10, 0x2D, 0xB4][j % 8]
        if mode == "token" and n >= 4:
            # ... + a complete, correctly addressed token / SOF as the tail of a longer packet
            tok = token_octets(rng.choice(TOKEN_PIDS + ("SOF",)), rng.randrange(2048))
            body = [rng.choice(list(HS_BYTES) + near + [rng.randrange(256)]) for _ in range(n - 4)]
            pkts.append(([first] + body + tok, (tok[1] | (tok[2] << 8)) & 0x7F))
            continue
        mid = [rng.choice(list(HS_BYTES) + near + [rng.randrange(256)]) for _ in range(n - 2)]
        last = HS_BYTES[(j // 2) % 4] if j % 3 else rng.choice(near)
        pkts.append(([first] + mid + [last], None))
    return pkts


def overlong_rescan_section(rng, run, quick):
    """Over-long packets that START as a token and END in a token: head in {valid own-address token, valid
    foreign-address token, valid SOF, token with bad CRC5} x 1..3 extra bytes x tail in {own-address token, SOF,
    own-address PING}, with every subset of the byte positions after the head preceded by an rx_valid gap (and no
    gaps at all), so that the tail is aligned to wherever a detector that wrongly re-arms inside the packet would
    resume scanning.  None of these packets is 3 bytes long: no event is owed for any of them."""
    addr = rng.randrange(128)
    st = RxStim(rng, addr=addr)
    npk = 0
    k = 0
    for head_kind in ("own", "foreign", "sof", "badcrc"):
        for extras in (1, 2, 3):
            for tail_kind in ("token", "sof", "ping"):
                ep = rng.randrange(16)
                if head_kind == "own":
                    head = token_octets(rng.choice(("OUT", "IN", "SETUP")), addr | (ep << 7))
                elif head_kind == "foreign":
                    head = token_octets(rng.choice(("OUT", "IN", "SETUP", "PING")), ((addr + 1 + rng.randrange(126)) & 0x7F) | (ep << 7))
                elif head_kind == "sof":
                    head = token_octets("SOF", rng.randrange(2048))
                else:
                    head = token_octets("OUT", addr | (ep << 7), flip=rng.randrange(5))
                if tail_kind == "token":
                    tail = token_octets(rng.choice(("OUT", "IN", "SETUP")), addr | (rng.randrange(16) << 7))
                elif tail_kind == "sof":
                    tail = token_octets("SOF", rng.randrange(2048))
                else:
                    tail = token_octets("PING", addr | (rng.randrange(16) << 7))
                body = [rng.choice([0x00, 0xFF, 0xE1, 0xC3, rng.randrange(256)]) for _ in range(extras)]
                octets = head + body + tail
                free = len(octets) - 3
                for mask in range(1 << free):
                    if quick and free >= 5 and mask and (mask + extras + len(head_kind)) % 2:
                        continue                                 # quick: half of the 32 / 64 patterns of the longer packets
                    lens = (1, 2, 3, 4) if (mask and not quick) else ((1 + k % 4,) if mask else (0,))
                    for g in lens:
                        hg = k % 2 if mask else 0                      # head bytes: back to back, or one gap each
                        gaps = [0, hg, hg] + [g if mask >> i & 1 else 0 for i in range(free)]
                        st.packet(octets, gaps=gaps, tail=k % 3)
                        k += 1
                        npk += 1
                        if npk % 36 == 0:
                            st.idle(LAT + 2)
                            run(st.steps, "overlong-token-with-token-tail", st)
                            st = RxStim(rng, addr=addr)
                # an over-long packet directly followed by a real PING: exactly one event, the PING's
                st.packet(octets, gaps=[0] * len(octets), tail=0)
                st.packet(token_octets("PING", addr | (rng.randrange(16) << 7)))
    st.idle(LAT + 2)
    run(st.steps, "overlong-token-with-token-tail", st)


def multi_byte_section(rng, mode, run, quick):
    """Short multi-byte packets x exhaustive rx_valid gap patterns (see gap_patterns)."""
    counts = {2: 16, 3: 12, 4: 10, 5: 8} if quick else {2: 48, 3: 48, 4: 32, 5: 24}
    directed = [([0xD2, 0x00, 0x00, 0xD2], [0, 1, 1, 1]), ([0xA5, 0x11, 0x5A], [0, 4, 4]),
                ([0xC3, 0x01, 0x02, 0x96], [0, 0, 2, 1]), ([0xC3, 0x1E], [0, 3]), ([0xF2, 0xD2], [0, 1])]
    st = RxStim(rng, addr=rng.randrange(128))
    npk = 0
    for octets, gaps in directed:
        for tail in (0, 1, 2):
            st.packet(octets, gaps=gaps, tail=tail)
    for n in ((4, 5) if (mode == "token" and quick) else (2, 3, 4, 5)):
        pats = gap_patterns(n, all_lengths=(n <= 3 or not quick))
        for octets, own in multi_byte_packets(rng, mode, n, counts[n]):
            if own is not None and mode == "token":
                st.set_addr(own)
            for gaps, tail in pats:
                st.packet(octets, gaps=gaps, tail=tail)
                npk += 1
                if npk % 40 == 0:
                    st.idle(LAT + 2)
                    run(st.steps, "multi-byte-gap-sweep", st)
                    st = RxStim(rng, addr=st.addr)
    st.idle(LAT + 2)
    run(st.steps, "multi-byte-gap-sweep", st)


TOKEN_PIDS = ("OUT", "IN", "SETUP", "PING")


def token_octets(pid, v11, flip=None):
    c = H.crc5(v11)
    if flip is not None:
        c ^= 1 << flip
    w = (v11 & 0x7FF) | (c << 11)
    return [H.pid_byte(pid), w & 0xFF, (w >> 8) & 0xFF]


def describe_packet(octets, addr, mode):
    """Normalised class of a packet (for non-triviality keys and finding signatures; not an oracle)."""
    n = len(octets)
    if n == 0:
        return "empty"
    p = octets[0]
    ok = ((p & 0xF) ^ (p >> 4)) == 0xF
    name = H.PID_NAMES.get(p & 0xF, "?")
    s = "len%d/%s/%s" % (min(n, 5), name, "nibble_ok" if ok else "nibble_bad")
    if mode == "token" and n >= 3:
        w = octets[1] | (octets[2] << 8)
        s += "/crc_ok" if H.crc5(w & 0x7FF) == (w >> 11) else "/crc_bad"
        s += "/own" if (w & 0x7F) == addr else "/foreign"
    return s


def random_soup(rng, mode, packets, addr_pool, speed=1, fixed_addr=None):
    """A packet soup mixing well-formed and malformed packets."""
    st = RxStim(rng, addr=fixed_addr if fixed_addr is not None else rng.choice(addr_pool), speed=speed)
    st.idle(rng.randint(0, 3))
    for _ in range(packets):
        if fixed_addr is None and rng.random() < 0.15:
            st.set_addr(rng.choice(addr_pool))
        gp = rng.choice([0.0, 0.0, 0.3, 0.6])
        r = rng.random()
        if mode == "token":
            v11 = rng.randrange(2048)
            if rng.random() < 0.6:
                v11 = (v11 & ~0x7F) | st.addr             # addressed to the device
            pid = rng.choice(TOKEN_PIDS + ("SOF",))
            good = token_octets(pid, v11)
            if r < 0.40:
                st.packet(good, gp)
            elif r < 0.50:
                st.packet(token_octets(pid, v11, flip=rng.randrange(5)), gp)
            elif r < 0.58:
                st.packet(good, gp, cut=rng.randrange(3))                     # truncated
            elif r < 0.68:
                st.packet(good + [rng.choice([0, 0xFF, rng.randrange(256)]) for _ in range(rng.randint(1, 2))], gp)   # over-long
            elif r < 0.76:
                bad = list(good)
                bad[0] ^= 1 << rng.randrange(4, 8)                            # corrupted check nibble
                st.packet(bad, gp)
            elif r < 0.84:
                bad = list(good)
                bad[rng.choice([1, 2])] ^= 1 << rng.randrange(8)              # corrupted payload bit
                st.packet(bad, gp)
            elif r < 0.92:                                                   # other packet kinds
                k = rng.choice(["hs", "data", "split"])
                if k == "hs":
                    st.packet([H.pid_byte(rng.choice(["ACK", "NAK", "STALL", "NYET"]))], gp)
                elif k == "data":
                    st.packet(H.data_bytes(rng.choice(["DATA0", "DATA1"]),
                                           [rng.randrange(256) for _ in range(rng.choice([0, 1, 2, 8]))]), gp)
                else:
                    st.packet([H.pid_byte("SPLIT")] + good[1:] + [rng.randrange(256)], gp)
            else:
                st.packet([rng.randrange(256) for _ in range(rng.randint(0, 5))], gp)
        else:
            hs = H.pid_byte(rng.choice(["ACK", "NAK", "STALL", "NYET"]))
            if r < 0.45:
                st.packet([hs], gp)
            elif r < 0.60:
                st.packet([hs] + [rng.choice([0, 0xFF, hs, rng.randrange(256)]) for _ in range(rng.randint(1, 3))], gp)     # longer packet
            elif r < 0.72:
                st.packet([hs ^ (1 << rng.randrange(8))], gp)                                   # malformed PID
            elif r < 0.80:
                st.packet([], gp)
            elif r < 0.90:
                st.packet([rng.randrange(256)], gp)
            else:
                st.packet(H.data_bytes("DATA1", [rng.randrange(256) for _ in range(rng.randint(0, 3))]), gp)
        if fixed_addr is None and rng.random() < 0.15:
            # the address input changes in the cycle right after the one in which the detector has to sample it
            del st.steps[-(MIN_GAP - 1):]
            st.quiet = 1
            st.set_addr(rng.choice(addr_pool))
        if rng.random() < 0.3:
            st.idle(rng.randint(1, 6))
    st.idle(LAT + 2)
    return st


def usb_top(dut, extra=None):
    """Wrap `dut` in a module that declares the "usb" clock domain explicitly, so that the domain's reset
    (top.cd.rst) can be asserted by the testbench.  `extra(m)` may add glue logic."""
    from amaranth import Module, Elaboratable, ClockDomain

    class Top(Elaboratable):
        def __init__(self):
            self.cd = ClockDomain("usb")

        def elaborate(self, platform):
            m = Module()
            m.domains.usb = self.cd
            m.submodules.dut = dut
            if extra is not None:
                extra(m)
            return m
    return Top()


def with_resets(rng, steps, n):
    """Copy of a stimulus with the domain reset asserted at n random places (1-2 cycles each): in the middle of
    packets, in report windows and while idle - any cycle is a legal place for a reset."""
    steps = [dict(st) for st in steps]
    for _ in range(n):
        k = rng.randrange(len(steps))
        for j in range(k, min(len(steps), k + rng.choice([1, 1, 2]))):
            steps[j]["rst"] = True
    return steps


TOKDET_CONFIGS = [   # (filter_by_address, domain_clock, fs_only) - every documented constructor combination
    (True, 60e6, False), (True, 60e6, True), (True, 12e6, True),
    (False, 60e6, False), (False, 60e6, True), (False, 12e6, True),
]


class DetectorDriver:
    """Drives a real USBTokenDetector / USBHandshakeDetector on a UTMIInterface cycle by cycle."""

    def __init__(self, mode, domain_clock=60e6, fs_only=False, filter_by_address=True):
        use_repo()
        from amaranth.sim import Simulator
        from luna.gateware.interface.utmi import UTMIInterface
        from luna.gateware.usb.usb2.packet import USBTokenDetector, USBHandshakeDetector
        self.mode = mode
        self.utmi = UTMIInterface()
        if mode == "token":
            self.dut = USBTokenDetector(utmi=self.utmi, domain_clock=domain_clock, fs_only=fs_only,
                                        filter_by_address=filter_by_address)
        else:
            self.dut = USBHandshakeDetector(utmi=self.utmi)
        self.top = usb_top(self.dut)
        self.sim = Simulator(self.top)
        self.sim.add_clock(1 / domain_clock, domain="usb")
        self.sim.add_testbench(self._bench)
        self._first = True
        self._stim = None
        self._rec = None
        self.cycles = 0

    async def _bench(self, ctx):
        u = self.utmi
        dut = self.dut
        rec = []
        last = {}

        def put(sig, key, val):
            if last.get(key) != val:
                ctx.set(sig, val)
                last[key] = val
        for st in self._stim:
            put(u.rx_active, "a", int(st["a"]))
            put(u.rx_valid, "v", int(st["v"]))
            put(u.rx_data, "d", st["d"])
            put(self.top.cd.rst, "rst", int(st.get("rst", False)))
            r = {"a": st["a"], "v": st["v"], "d": st["d"], "addr": st["addr"], "rst": bool(st.get("rst", False))}
            ev = []
            if self.mode == "token":
                put(dut.address, "addr", st["addr"])
                put(dut.speed, "speed", st.get("speed", 1))
                i = dut.interface
                nt = ctx.get(i.new_token)
                nf = ctx.get(i.new_frame)
                if nt:
                    ev.append({"k": "tok", "x": ctx.get(i.pid), "y": ctx.get(i.address), "z": ctx.get(i.endpoint)})
                fr = ctx.get(i.frame)
                if nf:
                    ev.append({"k": "sof", "x": fr, "y": 0, "z": 0})
                r["frame"] = fr
                r["sel"] = [bool(ctx.get(i.is_in)), bool(ctx.get(i.is_out)), bool(ctx.get(i.is_setup)),
                            bool(ctx.get(i.is_ping))]
                r["nt"] = bool(nt)
                r["rfr"] = bool(ctx.get(i.ready_for_response))
                r["speed"] = st.get("speed", 1)
            else:
                d = dut.detected
                for name, sig in (("ack", d.ack), ("nak", d.nak), ("stall", d.stall), ("nyet", d.nyet)):
                    if ctx.get(sig):
                        ev.append({"k": name, "x": 0, "y": 0, "z": 0})
                r["frame"] = 0
                r["sel"] = [False, False, False, False]
            r["ev"] = ev
            rec.append(r)
            await ctx.tick("usb")
        self.cycles += len(rec)
        self._rec = rec

    def run(self, stim):
        self._stim = stim
        self._rec = None
        if not self._first:
            self.sim.reset()
        self._first = False
        self.sim.run()
        return self._rec


PKT_FIELDS = ("a", "v", "d", "addr", "rst", "ev", "frame", "sel")


def pkt_trace(rec):
    return [{k: r[k] for k in PKT_FIELDS} for r in rec]


def classify_pkt(mode):
    def classify(trace, matched, status, meta):
        # the packet that ended last before (or at) the failing cycle
        k = min(matched, len(trace))
        octets, cur, addr = [], [], 0
        prev_a = False
        for r in trace[:k]:
            if r["a"] and not prev_a:
                cur = []
            if r["a"] and r["v"]:
                cur.append(r["d"])
            if prev_a and not r["a"]:
                octets, addr = cur, r["addr"]
            prev_a = r["a"]
        return {"clause": status, "pattern": describe_packet(octets, addr, mode)}
    return classify


def note_packets(rep, mode, st):
    for octets, addr in st.packets:
        rep.nontriv((mode, describe_packet(octets, addr, mode), tuple(octets[:3])))


def sim_behaviours_to_stims(behs):
    out = []
    for b in behs:
        stim = [dict(st["in"], speed=1) for _, st in b[1:]]
        if stim:
            stim += [dict(stim[-1], a=False, v=False, d=0, rst=False)] * (LAT + 2)      # let the last window close
            out.append(stim)
    return out


# ------------------------------------------------------------------------------------------------------------
# C01
# ------------------------------------------------------------------------------------------------------------

def check_C01(rep):
    quick = rep.tier == "quick"
    rng = rep.rng
    rep.rule = ("packets presented to the real USBTokenDetector and validated cycle by cycle against PktDet.tla; "
                "distinct by (length class, first three bytes, check-nibble validity, CRC5 validity, own/foreign address)")
    rep.assume("rx_valid only while rx_active, and not in the cycle rx_active rises")
    rep.assume("rx_active stays low for at least %d cycles between packets" % MIN_GAP)
    rep.assume("the device address is stable while rx_active is high and in the cycle it falls (where it is sampled); "
               "it may change in any later cycle")
    rep.assume("after a domain reset in the middle of a packet, what the detector reports for the rest of that "
               "packet is not constrained; a reset clears the owed event")
    rep.assume("an event is reported in one of the %d cycles starting with the first cycle rx_active is low "
               "(which one is left free)" % (LAT + 1))
    base0 = {"Mode": '"token"', "Lat": LAT, "MinGap": MIN_GAP}
    base = dict(base0, FilterByAddress=True)
    if quick:
        # (address changes are explored in the second and third model; the first one keeps the address fixed)
        mcs = [dict(base, PidBytes={0xE1, 0xB4, 0xA5, 0xF1, 0xC3}, Payloads={5, 682}, Addrs={5},
                    MaxPackets=2, MaxExtra=1, MaxResets=0),
               dict(base, PidBytes={0xE1, 0xA5}, Payloads={5}, Addrs={0, 5},
                    MaxPackets=2, MaxExtra=1, MaxResets=1),
               dict(base0, FilterByAddress=False, PidBytes={0xE1, 0xB4, 0xA5, 0xF1}, Payloads={5, 682}, Addrs={0, 5},
                    MaxPackets=1, MaxExtra=1, MaxResets=1)]
    else:
        mcs = [dict(base, PidBytes={0xE1, 0x69, 0x2D, 0xB4, 0xA5, 0xF1, 0xC3, 0xD2}, Payloads={5, 133, 682}, Addrs={0, 5},
                    MaxPackets=2, MaxExtra=1, MaxResets=0),
               dict(base, PidBytes={0xE1, 0xA5}, Payloads={5, 2047}, Addrs={5, 127},
                    MaxPackets=3, MaxExtra=1, MaxResets=0),
               dict(base, PidBytes={0xE1, 0xB4, 0xA5, 0xF1, 0xC3}, Payloads={5, 682}, Addrs={0, 5},
                    MaxPackets=2, MaxExtra=1, MaxResets=1),
               dict(base0, FilterByAddress=False, PidBytes={0xE1, 0xB4, 0xA5, 0xF1, 0xC3}, Payloads={5, 682}, Addrs={0, 5},
                    MaxPackets=2, MaxExtra=1, MaxResets=1)]
    runs = [("MCPktDet", tlc.render_cfg(_cfg("MCPktDet.cfg.tmpl"), sub),
             {"workers": 5, "timeout": 3000,
              "allow_uncovered": (() if sub["MaxResets"] else ("Reset",)) + (() if len(sub["Addrs"]) > 1 else ("Readdress",))})
            for sub in mcs]
    for sub, res in zip(mcs, model_check_many(SPEC_DIR, runs, jobs=3)):
        rep.add_mc("MCPktDet token", res, {k: (sorted(v) if isinstance(v, set) else v) for k, v in sub.items()})

    # DUT configurations: the default one carries the systematic sweeps; the soups are additionally run on the other
    # constructor combinations (quick: one filtering and one non-filtering configuration, rotated by the seed;
    # thorough: all six).
    drv = DetectorDriver("token")
    items = []                 # filter_by_address=True traces
    items_nf = []              # filter_by_address=False traces

    def run(stim, origin, st=None, driver=None, cfgname="filter/60MHz"):
        d = driver or drv
        rec = d.run(stim)
        rep.add_eval(len(rec))
        (items if cfgname.startswith("filter") else items_nf).append(
            (pkt_trace(rec), {"dut": "USBTokenDetector", "config": cfgname, "origin": origin}))
        if st is not None:
            note_packets(rep, "token", st)
            rep.nontriv(("config", cfgname, origin))
        return rec

    # (A) spec -> code: behaviours simulated by TLC
    sub = dict(base, PidBytes={0xE1, 0x69, 0x2D, 0xB4, 0xA4, 0xA5, 0xF1, 0xC3, 0xD2}, Payloads={0, 5, 133, 682, 2047},
               Addrs={0, 5, 127}, MaxPackets=8, MaxExtra=2, MaxResets=1)
    behs = tlc.simulate(SPEC_DIR, "MCPktDet", tlc.render_cfg(_cfg("MCPktDet_sim.cfg.tmpl"), sub),
                        num=20 if quick else 300, depth=70, seed=rep.seed * 5 + 1, timeout=1800)
    drift = 0
    for stim in sim_behaviours_to_stims(behs):
        run(stim, "tlc-simulate")
    # (B) sweep of token payloads x {correct CRC, flipped CRC bit(s)} for the five PIDs
    stride = 16 if quick else 1
    off = rng.randrange(stride)
    values = sorted(set(list(range(off, 2048, stride)) + [0, 1, 0x7F, 0x80, 0x2AA, 0x555, 0x7FF]))
    st = None
    count = 0
    for pid in TOKEN_PIDS + ("SOF",):
        for v11 in values:
            if st is None:
                st = RxStim(rng, addr=v11 & 0x7F)
            flips = [None] + (rng.sample(range(5), 2) if quick else list(range(5)))
            for flip in flips:
                own = rng.random() < 0.75
                st.set_addr((v11 & 0x7F) if own else ((v11 + rng.randrange(1, 128)) & 0x7F))
                st.packet(token_octets(pid, v11, flip), gap_prob=rng.choice([0.0, 0.0, 0.4]))
                count += 1
            if count >= 36:
                st.idle(LAT + 2)
                run(st.steps, "payload-sweep", st)
                st, count = None, 0
    if st is not None:
        st.idle(LAT + 2)
        run(st.steps, "payload-sweep", st)
    # (B) every single-bit corruption of the PID byte (PID nibble and check nibble) of otherwise well-formed
    #     own-address tokens / SOFs, and every length 0..5
    st = RxStim(rng, addr=rng.randrange(128))
    for pid in TOKEN_PIDS + ("SOF",):
        good = token_octets(pid, st.addr | (rng.randrange(16) << 7))
        for bit in range(8):
            bad = list(good)
            bad[0] ^= 1 << bit
            st.packet(bad, gap_prob=rng.choice([0.0, 0.3]))
        for n in range(6):
            st.packet((good + [rng.choice([0, 0xFF, rng.randrange(256)]) for _ in range(2)])[:n])
        st.idle(rng.randint(0, 4))
    st.idle(LAT + 2)
    run(st.steps, "pid-byte-corruptions-and-lengths", st)
    # (B) longer packets whose tail is a complete, correctly addressed token / SOF, every rx_valid gap pattern
    multi_byte_section(rng, "token", run, quick)
    # (B) over-long packets that start as a token and end in a token, tail aligned to every possible re-scan point
    overlong_rescan_section(rng, run, quick)
    # (B) random soups, changing address; all 128 addresses in the thorough tier
    pool = list(range(128)) if not quick else [0, 1, 0x3A, 0x40, 0x55, 0x7F, rng.randrange(128), rng.randrange(128)]
    for n in range(14 if quick else 300):
        st = random_soup(rng, "token", 30, pool)
        run(st.steps, "random-soup", st)
        if n % 3 == 0:          # the same soup again with domain resets sprinkled over it
            run(with_resets(rng, st.steps, rng.randint(1, 3)), "random-soup-with-resets")
    # the other constructor configurations
    others_f = [c for c in TOKDET_CONFIGS[1:] if c[0]]
    others_nf = [c for c in TOKDET_CONFIGS if not c[0]]
    chosen = ([others_f[rep.seed % len(others_f)], others_nf[rep.seed % len(others_nf)]] if quick
              else others_f + others_nf)
    elaborated = ["filter/60MHz"]
    for flt, clk, fso in chosen:
        name = "%s/%dMHz%s" % ("filter" if flt else "nofilter", clk / 1e6, "_fs_only" if fso else "")
        elaborated.append(name)
        d = DetectorDriver("token", domain_clock=clk, fs_only=fso, filter_by_address=flt)
        for n in range(5 if quick else 40):
            st = random_soup(rng, "token", 30, pool, speed=rng.choice([0, 1, 2]))
            run(st.steps, "random-soup", st, driver=d, cfgname=name)
            if n % 2 == 0:
                run(with_resets(rng, st.steps, rng.randint(1, 3)), "random-soup-with-resets", driver=d, cfgname=name)
        if not flt:            # without the filter: the same token at the own and at foreign addresses, SOFs, PING
            st = RxStim(rng, addr=rng.randrange(128))
            for pid in TOKEN_PIDS + ("SOF",):
                for a in (st.addr, (st.addr + 1) & 0x7F, 0, 0x7F):
                    st.packet(token_octets(pid, a | (rng.randrange(16) << 7)), gap_prob=0.2)
                    st.packet(token_octets(pid, a | (rng.randrange(16) << 7), flip=rng.randrange(5)))
            st.idle(LAT + 2)
            run(st.steps, "all-addresses-reported", st, driver=d, cfgname=name)
    rep.extra["configurations_elaborated"] = elaborated
    # the repository's own test packets (tests/test_usb2_packet.py)
    st = RxStim(rng, addr=0x3A)
    st.idle(10)
    st.packet([0xE1, 0x3A, 0x3D])
    st.packet([0xA5, 0x3A, 0x3D])
    st.set_addr(0x1F)
    st.packet([0xE1, 0x3A, 0x3D])
    st.idle(LAT + 2)
    rec = run(st.steps, "repository-test-packets", st)
    rep.sample({"origin": "repository-test-packets",
                "events": [{"cycle": n, "ev": r["ev"]} for n, r in enumerate(rec) if r["ev"]]})

    groups = [{"module": "PktDetTrace", "cfg": tlc.render_cfg(_cfg("PktDetTrace.cfg.tmpl"), base),
               "items": items, "classify": classify_pkt("token"), "chunk": max(4, (len(items) + 5) // 6),
               "what_prefix": "USBTokenDetector "},
              {"module": "PktDetTrace",
               "cfg": tlc.render_cfg(_cfg("PktDetTrace.cfg.tmpl"), dict(base0, FilterByAddress=False)),
               "items": items_nf, "classify": classify_pkt("token"), "chunk": max(4, len(items_nf)),
               "what_prefix": "USBTokenDetector(filter_by_address=False) "}]
    validate_many(rep, SPEC_DIR, groups, jobs=7)


# ------------------------------------------------------------------------------------------------------------
# C04
# ------------------------------------------------------------------------------------------------------------

class GeneratorDriver:
    def __init__(self):
        use_repo()
        from ..sim import CycleDriver
        from luna.gateware.usb.usb2.packet import USBHandshakeGenerator
        dut = USBHandshakeGenerator()
        top = usb_top(dut)
        self.drv = CycleDriver(top, {"ack": dut.issue_ack, "nak": dut.issue_nak, "stall": dut.issue_stall,
                                     "ready": dut.tx.ready, "rst": top.cd.rst},
                               {"valid": dut.tx.valid, "data": dut.tx.data}, domain="usb",
                               clocks={"usb": 1 / 60e6}, bool_outputs=("valid",),
                               bool_inputs=("ack", "nak", "stall", "ready", "rst"))

    def run(self, stim):
        return self.drv.run([dict(s, rst=s.get("rst", False)) for s in stim])


def random_generator_stimulus(rng, n):
    stim = []
    mood, left = None, 0
    for _ in range(n):
        if left == 0:
            mood = rng.choice(["sparse", "sparse", "burst", "storm", "stall", "ready"])
            left = rng.randint(3, 14)
        left -= 1
        preq, pready = {"sparse": (0.08, 0.5), "burst": (0.4, 0.7), "storm": (0.9, 0.5),
                        "stall": (0.2, 0.05), "ready": (0.15, 1.0)}[mood]
        req = {"ack": False, "nak": False, "stall": False}
        if rng.random() < preq:
            if rng.random() < 0.25:
                for k in req:
                    req[k] = rng.random() < 0.6
            else:
                req[rng.choice(["ack", "nak", "stall"])] = True
        stim.append(dict(req, ready=rng.random() < pready))
    stim += [{"ack": False, "nak": False, "stall": False, "ready": True}] * 4
    return stim


def classify_gen(trace, matched, status, meta):
    k = min(matched, len(trace))
    r = trace[k - 1] if k else {}
    busy = any(t["valid"] for t in trace[max(0, k - 2):k])
    nreq = sum(1 for x in ("ack", "nak", "stall") if r.get(x))
    return {"clause": status, "pattern": "%s/%d_requests/%s" % ("valid" if r.get("valid") else "not_valid", nreq,
                                                                "recently_busy" if busy else "idle")}


def check_C04(rep):
    quick = rep.tier == "quick"
    rng = rep.rng
    rep.rule = ("detector: packets presented to the real USBHandshakeDetector, distinct by (length class, first three bytes); "
                "generator: cycles of the real USBHandshakeGenerator with a request strobe or tx_valid high, distinct by "
                "(request vector, tx_ready, tx_valid, tx_data)")
    rep.assume("detector Env as C01: rx_valid only while rx_active and not in its first cycle; rx_active low >= %d "
               "cycles between packets; strobe within %d cycles of the packet end (cycle left free)" % (MIN_GAP, LAT + 1))
    rep.assume("generator: tx_valid rises 1..%d cycles after a request seen while idle; priority among simultaneous "
               "request strobes is left free" % GLAT)

    # ---- detector ----------------------------------------------------------------------------------------
    base = {"Mode": '"handshake"', "Lat": LAT, "MinGap": MIN_GAP, "FilterByAddress": True}
    allpids = set(range(256))
    mcs = [dict(base, PidBytes={0xD2, 0x5A, 0x1E, 0x96, 0xC2, 0xC3}, Payloads=set(), Addrs={0},
                MaxPackets=2 if quick else 3, MaxExtra=2, MaxResets=0),
           dict(base, PidBytes={0xD2, 0x96, 0xC2, 0xC3}, Payloads=set(), Addrs={0},
                MaxPackets=2, MaxExtra=2, MaxResets=1),
           dict(base, PidBytes=allpids, Payloads=set(), Addrs={0}, MaxPackets=1, MaxExtra=2, MaxResets=0)]
    gsub = {"GLat": GLAT, "MaxReq": 2 if quick else 3, "MaxResets": 1}
    runs = [("MCPktDet", tlc.render_cfg(_cfg("MCPktDet.cfg.tmpl"), sub),
             {"workers": 5, "timeout": 3000,
              "allow_uncovered": ("Readdress",) if sub["MaxResets"] else ("Readdress", "Reset")}) for sub in mcs]
    runs.append(("MCHsGen", tlc.render_cfg(_cfg("MCHsGen.cfg.tmpl"), gsub), {"workers": 5, "timeout": 3000}))
    results = model_check_many(SPEC_DIR, runs, jobs=2)
    for sub, res in zip(mcs, results):
        b = {k: (sorted(v) if isinstance(v, set) and len(v) < 20 else (len(v) if isinstance(v, set) else v))
             for k, v in sub.items()}
        rep.add_mc("MCPktDet handshake", res, b)

    drv = DetectorDriver("handshake")
    items = []

    def run(stim, origin, st=None):
        rec = drv.run(stim)
        rep.add_eval(len(rec))
        items.append((pkt_trace(rec), {"dut": "USBHandshakeDetector", "origin": origin}))
        if st is not None:
            note_packets(rep, "handshake", st)
        return rec

    sub = dict(base, PidBytes={0xD2, 0x5A, 0x1E, 0x96, 0xC2, 0xC3, 0xE1, 0x2D}, Payloads=set(), Addrs={0},
               MaxPackets=8, MaxExtra=2, MaxResets=1)
    behs = tlc.simulate(SPEC_DIR, "MCPktDet", tlc.render_cfg(_cfg("MCPktDet_sim.cfg.tmpl"), sub),
                        num=12 if quick else 200, depth=60, seed=rep.seed * 5 + 2, timeout=1800)
    for stim in sim_behaviours_to_stims(behs):
        run(stim, "tlc-simulate")
    # every first byte x lengths 1..3 (and the four handshakes cut to zero bytes), with and without gaps
    st = RxStim(rng)
    n = 0
    for length in (1, 2, 3):
        for b in range(256):
            if quick and length == 3 and b % 4 != rng.randrange(4) and (b & 0xF) not in (2, 10, 14, 6):
                continue
            extra = [rng.choice([0x00, 0x00, 0xFF, b, rng.randrange(256)]) for _ in range(length - 1)]
            st.packet([b] + extra, gap_prob=rng.choice([0.0, 0.0, 0.5]))
            n += 1
            if n % 48 == 0:
                st.idle(LAT + 2)
                run(st.steps, "all-pid-bytes", st)
                st = RxStim(rng)
    st.idle(LAT + 2)
    rec = run(st.steps, "all-pid-bytes", st)
    # packets of 2..5 bytes whose later / last bytes are handshake PID bytes (or near misses), every rx_valid gap pattern
    multi_byte_section(rng, "handshake", run, quick)
    for n in range(8 if quick else 200):
        st = random_soup(rng, "handshake", 30, [0], fixed_addr=0)
        run(st.steps, "random-soup", st)
        if n % 2 == 0:          # the same soup again with domain resets sprinkled over it
            run(with_resets(rng, st.steps, rng.randint(1, 3)), "random-soup-with-resets")
    st = RxStim(rng)          # tests/test_usb2_packet.py: the four handshakes
    for b in (0b11010010, 0b01011010, 0b00011110, 0b10010110):
        st.packet([b])
    st.idle(LAT + 2)
    rec = run(st.steps, "repository-test-packets", st)
    rep.sample({"dut": "USBHandshakeDetector", "origin": "repository-test-packets",
                "events": [{"cycle": n, "ev": r["ev"]} for n, r in enumerate(rec) if r["ev"]]})
    cfg = tlc.render_cfg(_cfg("PktDetTrace.cfg.tmpl"), base)
    validate_group_parallel(rep, SPEC_DIR, "PktDetTrace", cfg, items, classify=classify_pkt("handshake"),
                            chunk=max(4, (len(items) + 3) // 4), what_prefix="USBHandshakeDetector ")

    # ---- generator ---------------------------------------------------------------------------------------
    rep.add_mc("MCHsGen", results[-1], gsub)
    gen = GeneratorDriver()
    gitems = []

    def grun(stim, origin):
        rec = gen.run(stim)
        rep.add_eval(len(rec))
        for r in rec:
            if r["ack"] or r["nak"] or r["stall"] or r["valid"]:
                rep.nontriv(("gen", r["ack"], r["nak"], r["stall"], r["ready"], r["valid"], r["data"] if r["valid"] else 0))
        gitems.append((rec, {"dut": "USBHandshakeGenerator", "origin": origin}))
        return rec

    behs = tlc.simulate(SPEC_DIR, "MCHsGen", tlc.render_cfg(_cfg("MCHsGen.cfg.tmpl"), {"GLat": GLAT, "MaxReq": 1000, "MaxResets": 2}),
                        num=20 if quick else 300, depth=60, seed=rep.seed * 5 + 3, timeout=1800)
    drift = 0
    for b in behs:
        stim = [st["in"] for _, st in b[1:]]
        if not stim:
            continue
        rec = grun(stim + [{"ack": False, "nak": False, "stall": False, "ready": True}] * 3, "tlc-simulate")
        for (_, st), r in zip(b[1:], rec):
            if st["out"]["valid"] != r["valid"] or (r["valid"] and st["out"]["data"] != r["data"]):
                drift += 1          # Ref leaves latency / priority free: a different legal choice is not a violation
    rep.extra["generator_prediction_drift_cycles"] = drift
    for n in range(20 if quick else 400):
        stim = random_generator_stimulus(rng, 150)
        grun(stim, "random")
        if n % 3 == 0:          # the same schedule with domain resets: idle, pending, and in the middle of a handshake
            grun(with_resets(rng, stim, rng.randint(1, 4)), "random-with-resets")
    # the repository's two generator tests
    rec = grun([{"ack": False, "nak": False, "stall": False, "ready": False}] * 2
               + [{"ack": True, "nak": False, "stall": False, "ready": False}]
               + [{"ack": False, "nak": False, "stall": False, "ready": False}] * 11
               + [{"ack": False, "nak": False, "stall": False, "ready": True}] * 3
               + [{"ack": True, "nak": False, "stall": False, "ready": True}]
               + [{"ack": False, "nak": False, "stall": False, "ready": True}] * 3, "repository-test-scenarios")
    rep.sample({"dut": "USBHandshakeGenerator", "origin": "repository-test-scenarios",
                "tx": [{"cycle": n, "valid": r["valid"], "data": r["data"], "ready": r["ready"]}
                       for n, r in enumerate(rec) if r["valid"]][:6]})
    cfg = tlc.render_cfg(_cfg("HsGenTrace.cfg.tmpl"), {"GLat": GLAT})
    validate_group_parallel(rep, SPEC_DIR, "HsGenTrace", cfg, gitems, classify=classify_gen,
                            chunk=max(4, (len(gitems) + 1) // 2), what_prefix="USBHandshakeGenerator ")


# ------------------------------------------------------------------------------------------------------------
# C05
# ------------------------------------------------------------------------------------------------------------

CONFIGS = {   # spec Config -> (domain_clock, fs_only)
    "60MHz": (60e6, False),
    "60MHz_fs_only": (60e6, True),
    "12MHz_fs_only": (12e6, True),
}
TABLE = {     # documented thresholds, used only to *place* stimuli around them and to classify failures
    "60MHz": {0: (1, 24, 92), 1: (10, 32, 80), 2: (80, 260, 640)},
    "60MHz_fs_only": {1: (10, 32, 80)},
    "12MHz_fs_only": {1: (2, 7, 16)},
}
HIGH, FULL, LOW = 0, 1, 2


TIMER_VARIANTS = ("2if", "1if", "4if", "attach")


class TimerDriver:
    """Real USBInterpacketTimer in one of its documented clock configurations, with
      "1if"/"2if"/"4if": that many InterpacketTimerInterfaces added with add_interface();
      "attach": one interface added, fanned out with InterpacketTimerInterface.attach() to two subordinate
                interfaces and one bare start Signal (the way USBDevice and the endpoint multiplexers do it).
    A stimulus step is {start, speed, via, rst}; `via` selects which start input carries the strobe."""

    def __init__(self, config, variant="2if"):
        use_repo()
        from amaranth import Signal
        from ..sim import CycleDriver
        from luna.gateware.usb.usb2.packet import USBInterpacketTimer, InterpacketTimerInterface
        clk, fs_only = CONFIGS[config]
        dut = USBInterpacketTimer(domain_clock=clk, fs_only=fs_only)
        self.variant = variant
        if variant == "attach":
            main = InterpacketTimerInterface()
            dut.add_interface(main)
            subs = [InterpacketTimerInterface(), InterpacketTimerInterface()]
            bare = Signal(name="bare_start")
            def glue(m):
                m.d.comb += main.attach(subs[0], subs[1], bare)
            top = usb_top(dut, extra=glue)
            self.starts = [subs[0].start, subs[1].start, bare]
            self.watch = [subs[0], subs[1], main]
        else:
            n = {"1if": 1, "2if": 2, "4if": 4}[variant]
            ifs = [InterpacketTimerInterface() for _ in range(n)]
            for i in ifs:
                dut.add_interface(i)
            top = usb_top(dut)
            self.starts = [i.start for i in ifs]
            self.watch = ifs
        ins = {"speed": dut.speed, "rst": top.cd.rst}
        for k, sig in enumerate(self.starts):
            ins["start%d" % k] = sig
        outs = {}
        for k, i in enumerate(self.watch):
            outs["txa%d" % k], outs["txt%d" % k], outs["rxt%d" % k] = i.tx_allowed, i.tx_timeout, i.rx_timeout
        self.drv = CycleDriver(top, ins, outs, domain="usb", clocks={"usb": 1 / clk}, bool_outputs=tuple(outs))

    def run(self, stim):
        ns = len(self.starts)
        drive = []
        for s in stim:
            d = {"speed": s["speed"], "rst": int(s.get("rst", False))}
            for k in range(ns):
                via = s.get("via", 0)
                d["start%d" % k] = int(bool(s["start"]) and (via == "all" or via % ns == k))
            drive.append(d)
        raw = self.drv.run(drive)
        rec = []
        for s, r in zip(stim, raw):
            rec.append({"start": bool(s["start"]), "speed": s["speed"], "rst": bool(s.get("rst", False)),
                        "outs": [{"txa": r["txa%d" % k], "txt": r["txt%d" % k], "rxt": r["rxt%d" % k]}
                                 for k in range(len(self.watch))]})
        return rec


def timer_stimuli(rng, config, speeds, quick, reduced=False):
    """Start schedules for one configuration, using only `speeds` (reduced: without the restart sweep and the
    speed-switch schedules - used for the additional DUT variants)."""
    tab = TABLE[config]
    longest = max(v[2] for v in tab.values())
    out = []

    def seg(speed, n, start_first=True, via=0):
        return [{"start": start_first and k == 0, "speed": speed, "via": via} for k in range(n)]

    for s in speeds:
        ref = tab.get(s, tab[FULL])
        # from reset (no start), and a start followed by a full run past every threshold
        out.append(seg(s, ref[2] + 4, start_first=False) + seg(s, ref[2] + 6, via=1))
        if reduced:
            continue
        # restarts shortly before / at / after each threshold
        stim = seg(s, 3, start_first=False)
        for th in ref:
            for d in (-1, 0, 1):
                stim += seg(s, th + d + 1, via=rng.randrange(12))
        stim += seg(s, ref[2] + 3)
        out.append(stim)
    # every start source on its own (each attached interface / subordinate / bare start signal), and all at once
    stim = []
    for via in (0, 1, 2, 3, "all"):
        for s in speeds:
            ref = tab.get(s, tab[FULL])
            stim += seg(s, ref[0] + 3, via=via)
    out.append(stim)
    # speed switches in mid-count (the indication follows the currently selected speed)
    if len(speeds) > 1 and not reduced:
        for _ in range(3 if quick else 20):
            stim = []
            for _ in range(4):
                stim += [{"start": True, "speed": rng.choice(speeds), "via": rng.randrange(12)}]
                for _ in range(rng.randint(1, 5)):
                    sp = rng.choice(speeds)
                    stim += [{"start": False, "speed": sp}] * rng.choice([1, 2, 9, 22, 60, longest // 3])
            out.append(stim)
    # random schedules: starts from any / all interfaces, held starts, the speed changed right after the start
    # strobe, and the domain reset asserted in mid-count (alone, or together with a start)
    for _ in range(2 if reduced else (3 if quick else 40)):
        stim = []
        sp = rng.choice(speeds)
        for _ in range(rng.randint(6, 14)):
            if rng.random() < 0.3:
                sp = rng.choice(speeds)
            gap = rng.choice([0, 1, 2, 5, 11, 33, 81, rng.randint(0, longest + 5)])
            r = rng.random()
            if r < 0.15:
                stim += [{"start": rng.random() < 0.3, "speed": sp, "via": rng.randrange(12), "rst": True}] * rng.choice([1, 1, 3])
            else:
                stim += [{"start": True, "speed": sp, "via": "all" if r < 0.3 else rng.randrange(12)}]
                if rng.random() < 0.2:
                    stim += [{"start": True, "speed": sp, "via": rng.randrange(12)}]      # start held for two cycles
            if rng.random() < 0.3:
                sp = rng.choice(speeds)                                                  # new speed right after the strobe
            stim += [{"start": False, "speed": sp}] * gap
        out.append(stim)
    # a reset exactly when / just before / just after each strobe would be due
    for s0 in speeds:
        ref = tab.get(s0, tab[FULL])
        stim = [{"start": True, "speed": s0, "via": 0}]
        for th in ref[:2] if quick else ref:
            for d in (-1, 0, 1):
                stim += [{"start": False, "speed": s0}] * max(0, th + d)
                stim += [{"start": False, "speed": s0, "rst": True}]
        stim += [{"start": False, "speed": s0}] * (ref[2] + 3)
        out.append(stim)
    return out


def token_timer_stimulus(rng, speeds, config):
    """Valid tokens through the real USBTokenDetector, long enough gaps to see ready_for_response."""
    tab = TABLE[config]
    st = RxStim(rng, addr=rng.randrange(128), speed=rng.choice(speeds))
    st.idle(rng.randint(2, 12))
    for _ in range(6):
        sp = rng.choice(speeds)
        st.set_speed(sp)
        v11 = st.addr | (rng.randrange(16) << 7)
        r = rng.random()
        if r < 0.7:
            st.packet(token_octets(rng.choice(TOKEN_PIDS), v11), gap_prob=0.2)
        elif r < 0.85:
            st.packet(token_octets("SOF", rng.randrange(2048)))                  # does not start the timer
        else:
            st.packet(token_octets("OUT", v11 ^ 1))                              # foreign address: no start
        if rng.random() < 0.3:
            sp = rng.choice(speeds)
            st.set_speed(sp)                  # the speed changes right after the token (the timer follows the new one)
        ref = tab.get(sp, tab[FULL])
        st.idle(rng.choice([ref[0] + 3, ref[0] + 3, 1, ref[0], ref[2] + 3]))
        if rng.random() < 0.3:
            st.set_speed(rng.choice(speeds))
            st.idle(rng.randint(1, 12))
        if rng.random() < 0.2:
            st.reset_here(rng.choice([1, 2]))           # domain reset between packets: the timer restarts from it
            st.idle(rng.choice([ref[0] + 3, 2, ref[1] + 2]))
    st.idle(3)
    return st


def classify_timer(config):
    def classify(trace, matched, status, meta):
        steps = trace["steps"]
        k = min(matched, len(steps))
        r = steps[k - 1] if k else {}
        pattern = "other"
        if r.get("speed") == LOW and config == "60MHz":
            # cycles since the timer origin at the failing step, recomputed from the trace
            hs = TABLE["60MHz"][HIGH]
            t = 0
            if trace["view"] == "timer":
                for q in steps[:k - 1]:
                    t = 0 if q["start"] else t + 1
                follows_hs = all((o["txa"], o["txt"], o["rxt"]) == (t == hs[0], t == hs[1], t == hs[2])
                                 for o in r["outs"])
            else:
                for q in steps[:k - 1]:
                    t = (0 if q["nt"] else t) + 1
                t = 0 if r["nt"] else t
                follows_hs = r["rfr"] == (t == hs[0])
            pattern = "low_speed_follows_high_speed_table" if follows_hs else "low_speed_other"
        elif r:
            pattern = "speed_%s" % r.get("speed")
        return {"clause": status, "pattern": pattern}
    return classify


def check_C05(rep):
    quick = rep.tier == "quick"
    rng = rep.rng
    rep.rule = ("cycles of the real USBInterpacketTimer / USBTokenDetector timer validated against IpTimer.tla; a cycle "
                "is non-trivial when a strobe is asserted or a start is applied; distinct by (configuration, view, "
                "speed, start, strobes)")
    rep.assume("speed is one of HIGH/FULL/LOW (0/1/2); in fs_only configurations only FULL is constrained")
    rep.assume("time origin = the cycle after the start strobe (token detector: the cycle new_token is high); "
               "cycle 0 after reset")
    rep.assume("known finding C05-low-speed-uses-high-speed-table is carved out: clean stimuli of the 60 MHz "
               "configuration never select LOW; witness stimuli do")

    runs = [("MCIpTimer", tlc.render_cfg(_cfg("MCIpTimer.cfg.tmpl"), {"Config": '"%s"' % config}),
             {"workers": 4, "timeout": 900}) for config in CONFIGS]
    for config, res in zip(CONFIGS, model_check_many(SPEC_DIR, runs)):
        rep.add_mc("MCIpTimer %s (real constants)" % config, res, {"Config": config})

    groups = []
    extra_variants = TIMER_VARIANTS[1:]
    for ci, (config, (clk, fs_only)) in enumerate(CONFIGS.items()):
        ddrv = DetectorDriver("token", domain_clock=clk, fs_only=fs_only)
        if fs_only:
            classes = [("clean", [FULL, HIGH, LOW])]              # HIGH/LOW unconstrained there: any behaviour is legal
        else:
            classes = [("clean", [HIGH, FULL]), ("witness-low-speed", [LOW, FULL, HIGH])]
        items = []

        def run_timer(tdrv, stim, cls):
            rec = tdrv.run(stim)
            rep.add_eval(len(rec))
            for r in rec:
                o = r["outs"][0]
                if r["start"] or r["rst"] or o["txa"] or o["txt"] or o["rxt"]:
                    rep.nontriv((config, tdrv.variant, r["speed"], r["start"], r["rst"], o["txa"], o["txt"], o["rxt"]))
            items.append(({"view": "timer", "steps": rec},
                          {"dut": "USBInterpacketTimer", "config": config, "variant": tdrv.variant, "class": cls}))
            return rec

        tdrv = TimerDriver(config, "2if")
        for cls, speeds in classes:
            first = len(items)
            for stim in timer_stimuli(rng, config, speeds, quick):
                run_timer(tdrv, stim, cls)
            for _ in range(4 if quick else 40):
                st = token_timer_stimulus(rng, speeds, config)
                rec = ddrv.run(st.steps)
                rep.add_eval(len(rec))
                steps = [{"nt": r["nt"], "speed": r["speed"], "rfr": r["rfr"], "rst": r["rst"]} for r in rec]
                for r in steps:
                    if r["nt"] or r["rfr"] or r["rst"]:
                        rep.nontriv((config, "token", r["speed"], r["nt"], r["rfr"], r["rst"]))
                items.append(({"view": "token", "steps": steps},
                              {"dut": "USBTokenDetector.ready_for_response", "config": config, "class": cls}))
            if cls == "clean" and config == "60MHz":
                rec = items[first][0]["steps"]
                rep.sample({"config": config, "dut": "USBInterpacketTimer",
                            "strobes": [dict(r["outs"][0], cycle=n, speed=r["speed"]) for n, r in enumerate(rec)
                                        if any(r["outs"][0].values())][:6]})
        # the other ways of attaching users to the timer: 1 / 4 interfaces, InterpacketTimerInterface.attach() fan-out
        # (quick: one variant per clock configuration, rotated by the seed so that every variant is elaborated in
        # every run; thorough: every variant in every configuration)
        variants = [extra_variants[(rep.seed + ci) % len(extra_variants)]] if quick else list(extra_variants)
        all_speeds = [FULL, HIGH, LOW]
        for variant in variants:
            vdrv = TimerDriver(config, variant)
            for stim in timer_stimuli(rng, config, all_speeds, quick, reduced=True):
                run_timer(vdrv, stim, "variant")
        rep.extra.setdefault("configurations_elaborated", []).append(
            {"clock_config": config, "timer_variants": ["2if"] + variants, "token_detector": True})
        # spread the long traces over the chunks
        items.sort(key=lambda it: -len(it[0]["steps"]))
        nchunks = 3 if config == "60MHz" else 2
        order = [it for c in range(nchunks) for it in items[c::nchunks]]
        groups.append({"module": "IpTimerTrace",
                       "cfg": tlc.render_cfg(_cfg("IpTimerTrace.cfg.tmpl"), {"Config": '"%s"' % config}),
                       "items": order, "classify": classify_timer(config), "steps_of": lambda t: len(t["steps"]),
                       "chunk": (len(order) + nchunks - 1) // nchunks, "what_prefix": "inter-packet timer "})
    validate_many(rep, SPEC_DIR, groups, jobs=7)
    if not rep.known:
        rep.notes.append("low-speed witness stimuli were accepted: the low-speed branch follows the documented table")


CHECKS = {"C01": check_C01, "C04": check_C04, "C05": check_C05}
