------------------------------- MODULE PktDet -------------------------------
(***************************************************************************)
(* USB2 packet-event detectors on a UTMI receive interface:                *)
(*   Mode = "token"     -> USBTokenDetector      (property C01)            *)
(*   Mode = "handshake" -> USBHandshakeDetector  (property C04, detector)  *)
(* Written from the property statements, the doc-strings and [USB2.0 8.3/  *)
(* 8.4]; the CRC5 is the bit-serial one of CRC.tla.                        *)
(*                                                                         *)
(* Grain: one step = one clock cycle of the UTMI ("usb") domain.           *)
(*  Env  : (rx_active, rx_valid, rx_data, device address) of the cycle.    *)
(*         A packet = the bytes presented with rx_valid while rx_active is *)
(*         high; it ends when rx_active falls - after any number of bytes, *)
(*         with any rx_valid gaps.                                         *)
(*  Ref  : pkt = bytes of the packet in progress; when a packet ends,      *)
(*         Expect(pkt, addr) is the event the detector owes (or none).     *)
(*         The event must be reported (strobe + fields) in exactly one of  *)
(*         the cycles c0 .. c0+Lat, c0 = first cycle with rx_active low;   *)
(*         WHICH one is left free (latency is not part of the property).   *)
(*         No event may be reported at any other time.                     *)
(*         A domain reset (i.rst) returns the detector to idle: nothing is   *)
(*         owed any more;            the remainder of a packet that was on *)
(*         the bus during the reset is not constrained (`blind`).          *)
(*  Prop : over the ghost logs of ended packets and reported events:       *)
(*         events reported = exactly the events of the well-formed packets,*)
(*         in order, each once; the frame number changes only by a SOF.    *)
(***************************************************************************)
EXTENDS CRC

CONSTANTS Mode,        \* "token" | "handshake"
          Lat,         \* the event of a packet is reported at the latest Lat cycles after rx_active fell
          MinGap,      \* Env: rx_active stays low for at least MinGap cycles between packets
          FilterByAddress  \* configuration of the token detector: TRUE = report only tokens for the device address,
                       \* FALSE = report every well-formed token (with its address)

ASSUME Mode \in {"token", "handshake"}
ASSUME Lat \in Nat /\ MinGap \in Nat /\ MinGap >= 1 /\ MinGap >= Lat     \* a packet's window closes before the next packet can end

VARIABLES act,         \* rx_active in the previous cycle
          pkt,         \* bytes sampled (rx_valid) since rx_active rose
          pend,        \* event owed for the packet that ended, not reported yet (NoEvent if none)
          age,         \* cycles since that packet ended
          quiet,       \* consecutive cycles with rx_active low so far (saturating)
          frame,       \* frame number last reported (token mode)
          blind,       \* > 0: a domain reset hit while a packet was on the bus; what the detector makes of the
                       \*      rest of that packet is not constrained (until its report window has passed)
          in,          \* Env: inputs of the cycle that led to this state
          out,         \* outputs observed / allowed in that cycle
          pktLog,      \* ghost: every ended packet with the address in force when it ended
          evLog        \* ghost: every reported event, in order

vars == <<act, pkt, pend, age, quiet, frame, blind, in, out, pktLog, evLog>>

-----------------------------------------------------------------------------
(* Packet identifiers [USB2.0 Table 8-1]: low nibble = PID, high nibble = its complement *)
PidOf(b)    == b % 16
PidOk(b)    == (b % 16) + (b \div 16) = 15
PidByte(p)  == p + 16 * (15 - p)

PID_OUT == 1   PID_IN == 9   PID_SETUP == 13   PID_PING == 4   PID_SOF == 5
PID_ACK == 2   PID_NAK == 10 PID_STALL == 14   PID_NYET == 6
TokenPids == {PID_OUT, PID_IN, PID_SETUP, PID_PING}      \* tokens addressed to a function
HsName(p) == CASE p = PID_ACK -> "ack" [] p = PID_NAK -> "nak" [] p = PID_STALL -> "stall" [] p = PID_NYET -> "nyet"
HsPids    == {PID_ACK, PID_NAK, PID_STALL, PID_NYET}

\* events (uniform records so that logged and expected events compare field by field)
NoEvent          == [k |-> "none", x |-> 0, y |-> 0, z |-> 0]
Token(p, a, e)   == [k |-> "tok",  x |-> p, y |-> a, z |-> e]      \* pid, address, endpoint
Sof(f)           == [k |-> "sof",  x |-> f, y |-> 0, z |-> 0]      \* frame number
Handshake(n)     == [k |-> n,      x |-> 0, y |-> 0, z |-> 0]      \* "ack" | "nak" | "stall" | "nyet"

\* CRC5 check of the two bytes after the PID (a separate name so that a model may memoise it)
TokenCrcOk(b1, b2) == Usb2TokenOk(b1, b2)

\* The event a complete packet `p` (sequence of bytes) calls for, at device address `a`.
ExpectToken(p, a) ==
    IF Len(p) = 3 /\ PidOk(p[1]) /\ PidOf(p[1]) \in (TokenPids \cup {PID_SOF}) /\ TokenCrcOk(p[2], p[3])
    THEN LET v11 == (p[2] + 256 * p[3]) % 2048            \* addr[0..6] endp[0..3], or the frame number
         IN IF PidOf(p[1]) = PID_SOF THEN Sof(v11)          \* start of frame: no address test
            ELSE IF ~FilterByAddress \/ v11 % 128 = a THEN Token(PidOf(p[1]), v11 % 128, v11 \div 128)
            ELSE NoEvent                                    \* somebody else's token
    ELSE NoEvent                                            \* truncated / over-long / bad check nibble / bad CRC / not a token

ExpectHandshake(p) ==
    IF Len(p) = 1 /\ PidOk(p[1]) /\ PidOf(p[1]) \in HsPids THEN Handshake(HsName(PidOf(p[1]))) ELSE NoEvent

Expect(p, a) == IF Mode = "token" THEN ExpectToken(p, a) ELSE ExpectHandshake(p)

-----------------------------------------------------------------------------
(* Env *)
QuietSat == IF MinGap > Lat + 1 THEN MinGap ELSE Lat + 1

\* named environment assumptions; EnvViolation(i) = the first one input i breaks in the current state
EnvViolation(i) ==
    IF i.v /\ ~i.a THEN "env_rx_valid_without_rx_active"
    ELSE IF ~act /\ i.a /\ i.v THEN "env_byte_in_first_active_cycle"
    ELSE IF ~act /\ i.a /\ quiet < MinGap THEN "env_interpacket_gap_too_short"
    ELSE IF i.addr # in.addr /\ ~(~act /\ ~i.a) THEN "env_address_changed_during_packet"
    ELSE "ok"

-----------------------------------------------------------------------------
(* Ref: what the current cycle's inputs make of the packet state, and what may be output *)
Ended(i)  == act /\ ~i.a                                        \* c0: first cycle with rx_active low
Pend1(i)  == IF Ended(i) THEN Expect(pkt, i.addr) ELSE pend     \* event owed during this cycle
Age1(i)   == IF Ended(i) THEN 0 ELSE age

\* o = [ev |-> sequence of events strobed in this cycle, frame |-> value of the frame output,
\*      sel |-> <<is_in, is_out, is_setup, is_ping>> (token mode)]
\* (p1 = Pend1(i), passed in so that Expect - a CRC5 computation - is evaluated once per cycle)
FrameUnknown == 2048                    \* after a domain reset the frame output is whatever the detector shows next
Frame1P(o, p1) == IF o.ev = <<p1>> /\ p1.k = "sof" THEN p1.x ELSE frame

SelOk(o) == \/ Mode # "token" \/ o.ev = <<>> \/ o.ev[1].k # "tok"
            \/ o.sel = <<o.ev[1].x = PID_IN, o.ev[1].x = PID_OUT, o.ev[1].x = PID_SETUP, o.ev[1].x = PID_PING>>

\* first violated clause of the observation relation ("ok" if o is an allowed output)
OutViolationP(i, o, p1) ==
    IF blind > 0 THEN "ok"                  \* (after a mid-packet reset: unconstrained until the window has passed)
    ELSE IF o.ev # <<>> /\ p1 = NoEvent THEN "event_without_wellformed_packet"
    ELSE IF o.ev # <<>> /\ o.ev # <<p1>> THEN "event_fields_or_kind"
    ELSE IF o.ev = <<>> /\ p1 # NoEvent /\ Age1(i) >= Lat THEN "event_missing"
    ELSE IF frame # FrameUnknown /\ o.frame # Frame1P(o, p1) THEN "frame_number"
    ELSE IF ~SelOk(o) THEN "pid_select_flags"
    ELSE "ok"
OutViolation(i, o) == OutViolationP(i, o, Pend1(i))

Init == /\ act = FALSE /\ pkt = <<>> /\ pend = NoEvent /\ age = 0 /\ quiet = QuietSat /\ frame = 0 /\ blind = 0
        /\ in = [a |-> FALSE, v |-> FALSE, d |-> 0, addr |-> 0, rst |-> FALSE]
        /\ out = [ev |-> <<>>, frame |-> 0, sel |-> <<FALSE, FALSE, FALSE, FALSE>>]
        /\ pktLog = <<>> /\ evLog = <<>>

\* i.rst: the reset of the detector's clock domain is asserted in this cycle (it acts at the clock edge that ends
\* the cycle, so the outputs of the cycle itself are still the ordinary ones).  Afterwards the detector is idle, owes
\* nothing (its frame output is whatever it shows next); if a packet was on the bus, the rest of it is not constrained.
StepP(i, o, p1) ==
    /\ in' = i /\ out' = o
    /\ act' = i.a
    /\ pkt' = IF i.rst \/ (~act /\ i.a) THEN <<>>
              ELSE IF i.a /\ i.v THEN Append(pkt, i.d)
              ELSE pkt
    /\ quiet' = IF i.a THEN 0 ELSE IF quiet < QuietSat THEN quiet + 1 ELSE quiet
    /\ blind' = IF i.a /\ (i.rst \/ (blind > 0 /\ act)) THEN Lat + 1     \* (a packet that starts later is judged normally)
                ELSE IF blind > 0 THEN blind - 1 ELSE 0
    /\ pend' = IF i.rst \/ blind > 0 \/ o.ev # <<>> THEN NoEvent ELSE p1
    /\ age' = IF i.rst \/ blind > 0 \/ o.ev # <<>> \/ p1 = NoEvent THEN 0 ELSE Age1(i) + 1
    /\ frame' = IF i.rst THEN FrameUnknown ELSE o.frame
    /\ pktLog' = IF i.rst THEN <<>>                                   \* (the history restarts with a reset)
                 ELSE IF Ended(i) /\ blind = 0 THEN Append(pktLog, [bytes |-> pkt, addr |-> i.addr]) ELSE pktLog
    /\ evLog' = IF i.rst THEN <<>> ELSE IF blind > 0 THEN evLog ELSE evLog \o o.ev
Step(i, o) == StepP(i, o, Pend1(i))

-----------------------------------------------------------------------------
(* Prop *)
RECURSIVE EventsOf(_)
EventsOf(log) == IF log = <<>> THEN <<>>
                 ELSE LET e == Expect(log[Len(log)].bytes, log[Len(log)].addr)
                      IN EventsOf(SubSeq(log, 1, Len(log) - 1)) \o (IF e = NoEvent THEN <<>> ELSE <<e>>)

\* the events reported (plus the one still owed) are exactly the events of the well-formed packets, in order
ReportedIffWellFormed == evLog \o (IF pend = NoEvent THEN <<>> ELSE <<pend>>) = EventsOf(pktLog)

\* an owed event is never older than the latency bound
NeverLate == pend # NoEvent => age <= Lat

\* every reported token is a complete 3-byte token for the address in force, every frame a well-formed SOF
RECURSIVE AllJustified(_, _)
AllJustified(evs, log) ==
    \/ evs = <<>>
    \/ /\ log # <<>>
       /\ LET p == log[1] IN
            IF Expect(p.bytes, p.addr) = NoEvent THEN AllJustified(evs, Tail(log))
            ELSE /\ evs[1] = Expect(p.bytes, p.addr)
                 /\ (Mode = "token" => Len(p.bytes) = 3 /\ PidOk(p.bytes[1])
                                       /\ (evs[1].k = "tok" => (FilterByAddress => evs[1].y = p.addr) /\ evs[1].x = PidOf(p.bytes[1])))
                 /\ (Mode = "handshake" => Len(p.bytes) = 1 /\ PidOk(p.bytes[1]))
                 /\ AllJustified(Tail(evs), Tail(log))
EveryEventJustified == AllJustified(evLog, pktLog)

\* the frame number changes only in a cycle that reports a SOF, to that SOF's number
FrameOnlyBySof == [][(frame' # frame /\ ~in'.rst /\ blind = 0 /\ frame # FrameUnknown)
                         => (out'.ev # <<>> /\ out'.ev[1].k = "sof" /\ frame' = out'.ev[1].x)]_vars

\* a domain reset leaves nothing owed
ResetClears == [][in'.rst => (pend' = NoEvent /\ pkt' = <<>>)]_vars

\* at most one event per cycle
OneEventPerCycle == Len(out.ev) <= 1
=============================================================================
