"""Test bench for engine `usb2ep`: a real `USBDevice(bus=UTMIInterface())` with real endpoints, driven through the
UTMI host model, with per-cycle stream producers / consumers, recording the event trace validated by
specs/usb2ep/EpTrace.tla.

A *script* is a list of ops (tuples).  Bus ops:
    ("tok", pid, ep)                 token                      ("sof", frame)
    ("data", pid01, payload, ok)     host data packet (pid 0/1, ok=False flips a CRC bit)
    ("wait",)                        wait for the device's answer (logs `none` on time-out)
    ("ack",) / ("noack", hostrx)     host handshake after IN data / none (hostrx: host received the data intact)
    ("idle", n)
Composite ops (expanded by `expand`): ("in", ep, hs) hs in "ack"|"lost"|"bad"; ("out", ep, pid, payload, ok);
    ("ping", ep); ("clrhalt", n, dir[, inner_ops]) ; ("setup", bytes8) ; ("ctl_in",) status/data IN on ep0 with ACK
Stream-side ops (take no bus time):
    ("feed", n, [(byte, last), ...][, delay])   append to the producer queue of IN endpoint n (offered not before
                                        `delay` cycles from now)
    ("rate", n, p)                      producer starts offering the next byte with probability p per cycle
    ("flush", n, level)
    ("cons", n, mode)                   consumer of OUT endpoint n: ("stall",) ("ready",) ("rand", p) ("take", k)
    ("sig", n, value)                   value of a status endpoint's signal / bytes_in_frame of an iso IN endpoint
    ("at", delay, op)                   a stream-side op executed by the per-cycle probe `delay` cycles from now
                                        (i.e. *during* the following bus ops: systematic offset sweeps)
    ("end",)                            quiescence: poll every stream IN endpoint until it NAKs twice, drain all
                                        consumers, then log `end` (the spec then rejects accepted-but-undelivered data)
Any op may carry a trailing dict {"foreign": True}: in the companion run of a C12 pair it is replaced by bus idle
of the same duration.

Events carry an owner tag `o` ("in<n>" / "out<n>" / "ctl" / "bus") assigned from what the host addressed.
"""
import random

from . import utmi

TIMEOUT = 24        # cycles the host waits for an answer (FS bus turn-around is 16..18 bit times)


def make_descriptors(eps):
    from usb_protocol.emitters import DeviceDescriptorCollection
    d = DeviceDescriptorCollection()
    with d.DeviceDescriptor() as x:
        x.idVendor = 0x1209
        x.idProduct = 0x0001
        x.iManufacturer = "V"
        x.iProduct = "usb2ep"
        x.iSerialNumber = "0"
        x.bNumConfigurations = 1
    with d.ConfigurationDescriptor() as c:
        with c.InterfaceDescriptor() as i:
            i.bInterfaceNumber = 0
            for ep in eps:
                with i.EndpointDescriptor() as e:
                    e.bEndpointAddress = (0x80 if ep["dir"] == "in" else 0) | ep["n"]
                    e.wMaxPacketSize = ep.get("max", 8)
    return d


def ep_dir(kind):
    return "in" if kind in ("in", "sig", "isoin") else "out"


def make_assembly(utmi, endpoints, speed):
    """The packet layer of USBDevice wired exactly as device.py does (token detector, data receiver, CRC unit,
    inter-packet timer, endpoint multiplexer, data transmitter, handshake generator / detector, tx multiplexer) around
    the given endpoints, with the link speed *pinned* (0 = high, 1 = full; 60 MHz clock table) instead of running the
    reset / chirp sequencer -- `USBDevice(bus=UTMIInterface())` itself is always full speed.  No control endpoint."""
    from amaranth import Elaboratable, Module, Const
    from luna.gateware.interface.utmi import UTMIInterfaceMultiplexer
    from luna.gateware.usb.usb2.packet import (USBTokenDetector, USBHandshakeGenerator, USBDataPacketCRC,
                                               USBInterpacketTimer, USBDataPacketGenerator, USBHandshakeDetector,
                                               USBDataPacketReceiver)
    from luna.gateware.usb.usb2.endpoint import USBEndpointMultiplexer

    class Assembly(Elaboratable):
        def __init__(self):
            self.utmi = utmi

        def elaborate(self, platform):
            m = Module()
            spd = Const(speed, 2)
            m.submodules.token_detector = token_detector = USBTokenDetector(utmi=utmi, domain_clock=60e6, fs_only=False)
            m.submodules.transmitter = transmitter = USBDataPacketGenerator()
            m.submodules.receiver = receiver = USBDataPacketReceiver(utmi=utmi)
            m.submodules.handshake_generator = handshake_generator = USBHandshakeGenerator()
            m.submodules.handshake_detector = handshake_detector = USBHandshakeDetector(utmi=utmi)
            m.submodules.data_crc = data_crc = USBDataPacketCRC()
            m.submodules.timer = timer = USBInterpacketTimer(domain_clock=60e6, fs_only=False)
            data_crc.add_interface(transmitter.crc)
            data_crc.add_interface(receiver.data_crc)
            timer.add_interface(receiver.timer)
            m.d.comb += [
                token_detector.address.eq(0),
                data_crc.rx_data.eq(utmi.rx_data),
                data_crc.rx_valid.eq(utmi.rx_valid),
                token_detector.speed.eq(spd),
                timer.speed.eq(spd),
            ]
            m.submodules.endpoint_mux = endpoint_mux = USBEndpointMultiplexer()
            shared = endpoint_mux.shared
            timer.add_interface(shared.timer)
            data_crc.add_interface(shared.data_crc)
            m.d.comb += [
                token_detector.interface.connect(shared.tokenizer),
                handshake_detector.detected.connect(shared.handshakes_in),
                shared.speed.eq(spd),
                shared.active_config.eq(1),
                shared.active_address.eq(0),
                receiver.stream.connect(shared.rx),
                shared.rx_complete.eq(receiver.packet_complete),
                shared.rx_invalid.eq(receiver.crc_mismatch),
                shared.rx_ready_for_response.eq(receiver.ready_for_response),
                shared.rx_pid_toggle.eq(receiver.active_pid[3]),
                shared.tx.attach(transmitter.stream),
                handshake_generator.issue_ack.eq(shared.handshakes_out.ack),
                handshake_generator.issue_nak.eq(shared.handshakes_out.nak),
                handshake_generator.issue_stall.eq(shared.handshakes_out.stall),
                transmitter.data_pid.eq(shared.tx_pid_toggle),
            ]
            for i, ep in enumerate(endpoints):
                endpoint_mux.add_interface(ep.interface)
                m.submodules["ep%d" % i] = ep
            m.submodules.tx_multiplexer = tx_multiplexer = UTMIInterfaceMultiplexer()
            tx_multiplexer.add_input(transmitter.tx)
            tx_multiplexer.add_input(handshake_generator.tx)
            m.d.comb += [
                tx_multiplexer.output.attach(utmi),
                data_crc.tx_valid.eq(tx_multiplexer.output.valid & utmi.tx_ready),
                data_crc.tx_data.eq(tx_multiplexer.output.data),
            ]
            return m

    return Assembly()


class Bench:
    """One elaborated device; `run(script, seed, ...)` may be called many times (simulator is reset).
    speed=None: a real USBDevice(bus=UTMIInterface()) (full speed, 12 MHz, with the standard control endpoint);
    speed=0/1: `make_assembly` with high / full speed inter-packet timing at 60 MHz (no control endpoint)."""

    def __init__(self, eps, control=True, speed=None):
        # eps: list of dicts {kind: in|out|sig|isoin|isoout, n, max, depth(out), width(sig)}
        from amaranth.sim import Simulator
        from luna.gateware.interface.utmi import UTMIInterface
        from luna.gateware.usb.usb2.device import USBDevice
        from luna.gateware.usb.usb2.endpoints.stream import USBStreamInEndpoint, USBStreamOutEndpoint
        self.eps = [dict(e, dir=ep_dir(e["kind"])) for e in eps]
        self.bus = UTMIInterface()
        self.speed = speed
        self.dev = USBDevice(bus=self.bus) if speed is None else None
        if control and speed is None:
            self.dev.add_standard_control_endpoint(make_descriptors(self.eps))
        mods = []
        self.mod = {}
        for e in self.eps:
            k, n = e["kind"], e["n"]
            if k == "in":
                m = USBStreamInEndpoint(endpoint_number=n, max_packet_size=e["max"])
            elif k == "out":
                # depth None = the constructor's default buffer size; the configuration handed to the spec then
                # carries the size the elaborated module really has
                m = USBStreamOutEndpoint(endpoint_number=n, max_packet_size=e["max"], buffer_size=e.get("depth"))
                if e.get("depth") is None:
                    e["depth"] = m._buffer_size
            elif k == "sig":
                from luna.gateware.usb.usb2.endpoints.status import USBSignalInEndpoint
                m = USBSignalInEndpoint(width=e.get("width", 16), endpoint_number=n, endianness="little")
            elif k == "isoin":
                from luna.gateware.usb.usb2.endpoints.isochronous_stream_in import USBIsochronousStreamInEndpoint
                m = USBIsochronousStreamInEndpoint(endpoint_number=n, max_packet_size=e["max"])
            elif k == "isoout":
                from luna.gateware.usb.usb2.endpoints.isochronous_stream_out import USBIsochronousStreamOutEndpoint
                m = USBIsochronousStreamOutEndpoint(endpoint_number=n, max_packet_size=e["max"],
                                                    buffer_size=e.get("depth"))
            else:
                raise ValueError(k)
            if self.dev is not None:
                self.dev.add_endpoint(m)
            mods.append(m)
            self.mod[(e["dir"], n)] = (k, m)
        if self.dev is None:
            self.dev = make_assembly(self.bus, mods, speed)
        self.sim = Simulator(self.dev)
        self.sim.add_clock(1 / 12e6 if speed is None else 1 / 60e6, domain="usb")
        self.sim.add_testbench(self._bench)
        self._first = True
        self.cycles = 0
        self._job = None
        self._result = None

    # ---- configuration record handed to the specification --------------------------------------
    def cfg(self):
        return {"ins": [{"n": e["n"], "max": e["max"]} for e in self.eps if e["kind"] == "in"],
                "outs": [{"n": e["n"], "max": e["max"], "depth": e["depth"]} for e in self.eps if e["kind"] == "out"],
                "opq": [{"n": e["n"], "dir": e["dir"]} for e in self.eps if e["kind"] in ("sig", "isoin", "isoout")]}

    # ---- running -----------------------------------------------------------------------------------
    def run(self, script, seed=1, gap_prob=0.0, stall_prob=0.0, durations=None):
        """Returns (events, times, durations): events sorted in time; times[i] = cycle of events[i];
        durations[j] = bus cycles op j of the *expanded* script took."""
        self._job = (expand(script), seed, gap_prob, stall_prob, durations)
        self._result = None
        if not self._first:
            self.sim.reset()
        self._first = False
        self.sim.run()
        return self._result

    async def _bench(self, ctx):
        ops, seed, gap_prob, stall_prob, replace = self._job
        rng = random.Random(seed)
        host = utmi.UTMIHost(self.bus, rng, gap_prob=gap_prob, stall_prob=stall_prob)
        if self.speed is None:
            utmi.prime_device(ctx, self.dev)
        else:
            ctx.set(self.bus.tx_ready, 1)
            ctx.set(self.bus.line_state, 1)
        ev = []          # (t, prio, seq, event)

        def log(t, prio, e):
            ev.append((t, prio, len(ev), e))

        prod = {}        # n -> state of IN stream producers
        cons = {}        # n -> state of OUT stream consumers
        opq = {}
        for (d, n), (k, m) in self.mod.items():
            if k == "in":
                prod[n] = {"m": m, "q": [], "rate": 1.0, "offering": False, "flush": 0,
                           "rng": random.Random(seed * 7919 + 13 * n + 1)}
            elif k == "out":
                cons[n] = {"m": m, "mode": ("ready",), "left": 0, "rng": random.Random(seed * 7919 + 13 * n + 7)}
            else:
                opq[(d, n)] = {"k": k, "m": m, "cnt": 0}

        def probe(ctx, host):
            t = host.cycle_no
            for n, p in prod.items():
                st = p["m"].stream
                fl = p["flush"]
                ctx.set(p["m"].flush, fl)
                if not p["offering"] and p["q"] and p["q"][0][2] <= t and \
                        (p["rate"] >= 1.0 or p["rng"].random() < p["rate"]):
                    p["offering"] = True
                if p["offering"]:
                    b, last, _ = p["q"][0]
                    ctx.set(st.valid, 1)
                    ctx.set(st.payload, b)
                    ctx.set(st.last, int(last))
                else:
                    ctx.set(st.valid, 0)
                    ctx.set(st.last, 0)
                took = bool(p["offering"] and ctx.get(st.ready))
                if fl:
                    log(t, 1, {"e": "flush", "ep": n, "o": "in%d" % n})
                if took:
                    b, last, _ = p["q"].pop(0)
                    p["offering"] = False
                    log(t, 2, {"e": "beat", "ep": n, "b": b, "last": bool(last), "o": "in%d" % n})
                    if fl:
                        log(t, 3, {"e": "flush", "ep": n, "o": "in%d" % n})
            for n, c in cons.items():
                st = c["m"].stream
                mode = c["mode"]
                if mode[0] == "ready":
                    rdy = 1
                elif mode[0] == "stall":
                    rdy = 0
                elif mode[0] == "rand":
                    rdy = int(c["rng"].random() < mode[1])
                else:  # take k
                    rdy = int(c["left"] > 0)
                ctx.set(st.ready, rdy)
                if rdy and ctx.get(st.valid):
                    log(t, 2, {"e": "pop", "ep": n, "b": ctx.get(st.payload), "first": bool(ctx.get(st.first)),
                               "last": bool(ctx.get(st.last)), "o": "out%d" % n})
                    if mode[0] == "take":
                        c["left"] -= 1
            for (d, n), o in opq.items():
                m = o["m"]
                if o["k"] == "isoin":
                    ctx.set(m.stream.valid, 1)
                    ctx.set(m.stream.payload, o["cnt"] & 0xFF)
                    if ctx.get(m.stream.ready):
                        log(t, 2, {"e": "io", "ep": n, "v": [o["cnt"] & 0xFF], "o": "in%d" % n})
                        o["cnt"] += 1
                elif o["k"] == "isoout":
                    ctx.set(m.stream.ready, 1)
                    if ctx.get(m.stream.valid):
                        log(t, 2, {"e": "io", "ep": n, "o": "out%d" % n,
                                   "v": [ctx.get(m.stream.p.data), int(ctx.get(m.stream.p.first)),
                                         int(ctx.get(m.stream.p.last))]})
                elif o["k"] == "sig":
                    if ctx.get(m.status_read_complete):
                        log(t, 2, {"e": "io", "ep": n, "v": [1], "o": "in%d" % n})

        host.extra_probe = probe
        pending = []     # (due cycle, stream-side op) scheduled by ("at", delay, op)
        stt = {"owner": "bus", "last": {}, "mark": 0}

        def stream_op(op):
            k = op[0]
            if k == "feed":         # optional 4th element: not before `delay` cycles from now
                nb = host.cycle_no + (op[3] if len(op) > 3 and not isinstance(op[3], dict) else 0)
                prod[op[1]]["q"].extend((b, l, nb) for b, l in op[2])
            elif k == "rate":
                prod[op[1]]["rate"] = op[2]
            elif k == "flush":
                prod[op[1]]["flush"] = int(op[2])
            elif k == "cons":
                cons[op[1]]["mode"] = op[2]
                if op[2][0] == "take":
                    cons[op[1]]["left"] = op[2][1]
            elif k == "sig":
                kk, m = self.mod[("in", op[1])]
                ctx.set(m.signal if kk == "sig" else m.bytes_in_frame, op[2])
            else:
                return False
            return True

        def probe_with_schedule(ctx, host):
            if pending:
                t = host.cycle_no
                due = [x for x in pending if x[0] <= t]
                if due:
                    pending[:] = [x for x in pending if x[0] > t]
                    for _, o in due:
                        stream_op(o)
            probe(ctx, host)

        host.extra_probe = probe_with_schedule

        async def do_tok(pid, ep):
            stt["owner"] = ("ctl" if ep == 0 else ("in%d" % ep if pid == "IN" else "out%d" % ep))
            log(host.cycle_no, 0, {"e": "tok", "pid": pid, "ep": ep, "o": stt["owner"]})
            await host.send_raw(ctx, utmi.token_bytes(pid, 0, ep))
            stt["mark"] = len(host.device_packets)

        async def do_wait():      # the answer may already have arrived while stream ops / idles were executed
            n = 0
            mark = stt["mark"]
            while len(host.device_packets) <= mark and (n < TIMEOUT or host._burst is not None) and n < 4000:
                await host.cycle(ctx)
                n += 1
            if len(host.device_packets) > mark:
                stt["last"] = host.device_packets[mark]
            else:
                stt["last"] = {"kind": "none"}
                log(host.cycle_no, 0, {"e": "none", "o": stt["owner"]})

        async def do_ack():       # only a data packet is ever acknowledged
            if stt["last"].get("kind") == "data":
                await host.idle(ctx, 2)
                await host.send_raw(ctx, [utmi.pid_byte("ACK")])
                log(host.cycle_no - 1, 0, {"e": "hs", "o": stt["owner"]})
                await host.idle(ctx, 2)

        await host.idle(ctx, 3)
        durs = []
        for j, op in enumerate(ops):
            t0 = host.cycle_no
            foreign = isinstance(op[-1], dict) and op[-1].get("foreign")
            if foreign and replace is not None:
                if op[0] in ("tok", "data", "wait", "ack", "noack", "idle", "sof"):
                    await host.idle(ctx, replace[j])
                durs.append(host.cycle_no - t0)
                continue
            k = op[0]
            if k == "idle":
                await host.idle(ctx, op[1])
            elif k == "tok":
                await do_tok(op[1], op[2])
            elif k == "sof":
                log(host.cycle_no, 0, {"e": "sof", "o": "bus"})
                await host.send_raw(ctx, utmi.sof_bytes(op[1]))
            elif k == "data":
                pid, payload, ok = op[1], list(op[2]), op[3]
                await host.send_raw(ctx, utmi.data_bytes("DATA%d" % pid, payload,
                                                         corrupt_crc=(0 if ok else 1 + (sum(payload) + len(payload)) % 16)))
                log(host.cycle_no - 1, 0, {"e": "data", "pid": pid, "payload": payload, "ok": bool(ok), "o": stt["owner"]})
            elif k == "wait":
                await do_wait()
            elif k == "ack":
                await do_ack()
            elif k == "noack":
                if stt["last"].get("kind") == "data":
                    await host.idle(ctx, 3)
                    log(host.cycle_no, 0, {"e": "nohs", "hostrx": bool(op[1]), "o": stt["owner"]})
            elif k == "at":           # ("at", delay, stream-side op): executed by the per-cycle probe at now + delay
                pending.append((host.cycle_no + op[1], op[2]))
            elif stream_op(op):
                pass
            elif k == "end":
                # quiescence: the host polls every stream IN endpoint (ACKing) until it NAKs twice in a row, all
                # consumers are ready until nothing is offered any more; then `end` is logged
                for _ in range(200):      # scheduled stream-side ops happen first
                    if not pending:
                        break
                    await host.idle(ctx, 1)
                for c in cons.values():
                    c["mode"] = ("ready",)

                def nbeats():
                    return sum(1 for x in ev if x[3]["e"] == "beat")

                async def settle():       # until the producers are done, or the endpoint takes nothing more
                    still = 0
                    for _ in range(20000):
                        if not pending and all(not p["q"] for p in prod.values()):
                            break
                        nb = nbeats()
                        await host.idle(ctx, 1)
                        still = still + 1 if nbeats() == nb else 0
                        if still >= 16 and not pending and \
                                all((not p["q"]) or p["q"][0][2] <= host.cycle_no for p in prod.values()):
                            break

                for p in prod.values():
                    p["flush"] = 0
                    p["rate"] = 1.0
                for n in sorted(prod):
                    for _round in range(400):
                        await settle()
                        nb = nbeats()
                        naks = 0
                        for _ in range(64):
                            await do_tok("IN", n)
                            await do_wait()
                            if stt["last"].get("kind") == "data":
                                naks = 0
                                await do_ack()
                            else:
                                naks += 1
                                if naks >= 2:
                                    break
                        # beats accepted meanwhile may have completed a packet: settle and poll again
                        if nbeats() == nb and not prod[n]["q"]:
                            break
                quiet = 0
                for _ in range(400):
                    await host.idle(ctx, 1)
                    busy = any(ctx.get(c["m"].stream.valid) for c in cons.values())
                    quiet = 0 if busy else quiet + 1
                    if quiet >= 6:
                        break
                log(host.cycle_no, 0, {"e": "end", "o": "bus"})
            else:
                raise ValueError("unknown op %r" % (op,))
            durs.append(host.cycle_no - t0)
        await host.idle(ctx, 2)
        # every packet the device put on the wire becomes a `resp` event at the cycle it started
        for p in host.device_packets:
            kind = p.get("kind")
            if kind == "hs":
                e = {"e": "resp", "k": p["pid"].lower(), "pid": 0, "payload": [], "ok": True}
            elif kind == "data":
                pid = {"DATA0": 0, "DATA1": 1, "DATA2": 2, "MDATA": 3}[p["pid"]]
                e = {"e": "resp", "k": "data", "pid": pid, "payload": p["payload"], "ok": bool(p["crc_ok"])}
            else:
                e = {"e": "resp", "k": "bad", "pid": 0, "payload": [], "ok": False}
            if p.get("overlap_rx"):
                e["k"] = "bad"
            log(p.get("start", host.cycle_no), 0, e)
        ev.sort(key=lambda x: (x[0], x[1], x[2]))
        # owner of a response = owner of the last token before it
        events, times = [], []
        own = "bus"
        for t, _, _, e in ev:
            if e["e"] == "tok":
                own = e["o"]
            if e["e"] == "resp":
                e["o"] = own
            events.append(e)
            times.append(t)
        self.cycles += host.cycle_no
        self._result = (events, times, durs)


# ---- composite ops ---------------------------------------------------------------------------------
def _tag(op, extra):
    return op + (extra,) if extra else op


def expand(script):
    out = []
    for op in script:
        extra = op[-1] if isinstance(op[-1], dict) else None
        core = op[:-1] if extra is not None else op
        k = core[0]
        if k == "in":
            _, ep, hs = core
            out += [_tag(("tok", "IN", ep), extra), _tag(("wait",), extra)]
            out += [_tag({"ack": ("ack",), "lost": ("noack", True), "bad": ("noack", False)}[hs], extra)]
        elif k == "out":
            _, ep, pid, payload, ok = core
            out += [_tag(("tok", "OUT", ep), extra), _tag(("idle", 2), extra),
                    _tag(("data", pid, payload, ok), extra), _tag(("wait",), extra)]
        elif k == "ping":
            out += [_tag(("tok", "PING", core[1]), extra), _tag(("wait",), extra)]
        elif k == "setup":
            out += [_tag(("tok", "SETUP", 0), extra), _tag(("idle", 2), extra),
                    _tag(("data", 0, core[1], True), extra), _tag(("wait",), extra)]
        elif k == "ctl_in":
            out += [_tag(("tok", "IN", 0), extra), _tag(("wait",), extra), _tag(("ack",), extra)]
        elif k == "clrhalt":
            n, d = core[1], core[2]
            inner = core[3] if len(core) > 3 else []
            req = utmi.setup_bytes(0x02, 1, 0, (0x80 if d == "in" else 0) | n, 0)
            out += expand([_tag(("setup", req), extra)]) + expand(inner) + expand([_tag(("ctl_in",), extra)])
        else:
            out.append(op)
    return out


# ---- bare USBInTransferManager ---------------------------------------------------------------------------
class ManagerBench:
    """`USBInTransferManager(max_packet_size)` alone, driven at signal level with timings the full-speed UTMI device
    cannot produce (1-cycle inter-packet delays as at high speed, ACK right after the packet, transmitter stalls).
    Script ops: ("feed", 1, items[, delay]) ("rate", 1, p) ("flush", 1, level) ("idle", n)
                ("in", hs, rfr_delay, ack_delay)   hs in ack|lost|bad;  ("other_tok",)  token for another endpoint
                ("other_txn",)  complete IN transaction of another endpoint incl. the host's ACK
    Emits the same event format as `Bench` (endpoint number 1)."""

    def __init__(self, m):
        from amaranth.sim import Simulator
        from luna.gateware.usb.usb2.transfer import USBInTransferManager
        self.m = m
        self.dut = USBInTransferManager(m)
        self.sim = Simulator(self.dut)
        self.sim.add_clock(1 / 60e6, domain="usb")
        self.sim.add_testbench(self._bench)
        self._first = True
        self.cycles = 0

    def cfg(self):
        return {"ins": [{"n": 1, "max": self.m}], "outs": [], "opq": []}

    def run(self, script, seed=1, stall_prob=0.0):
        self._job = (script, seed, stall_prob)
        if not self._first:
            self.sim.reset()
        self._first = False
        self.sim.run()
        return self._result

    async def _bench(self, ctx):
        script, seed, stall_prob = self._job
        dut = self.dut
        rng = random.Random(seed)
        ev = []
        st = {"t": 0, "q": [], "offering": False, "rate": 1.0, "flush": 0, "tx": "idle", "wait": 0, "bytes": [],
              "pid": 0, "start": 0, "got": None}
        ctx.set(dut.generate_zlps, 1)

        def log(t, prio, e):
            ev.append((t, prio, len(ev), e))

        async def cycle(new_token=0, rfr=0, ack=0, active=1):
            t = st["t"]
            ctx.set(dut.active, active)
            ctx.set(dut.tokenizer.is_in, 1)
            ctx.set(dut.tokenizer.new_token, new_token)
            ctx.set(dut.tokenizer.ready_for_response, rfr)
            ctx.set(dut.handshakes_in.ack, ack)
            ctx.set(dut.flush, st["flush"])
            s = dut.transfer_stream
            if not st["offering"] and st["q"] and st["q"][0][2] <= t and (st["rate"] >= 1.0 or rng.random() < st["rate"]):
                st["offering"] = True
            if st["offering"]:
                b, last, _ = st["q"][0]
                ctx.set(s.valid, 1)
                ctx.set(s.payload, b)
                ctx.set(s.last, int(last))
            else:
                ctx.set(s.valid, 0)
                ctx.set(s.last, 0)
            took = bool(st["offering"] and ctx.get(s.ready))
            if st["flush"]:
                log(t, 1, {"e": "flush", "ep": 1, "o": "in1"})
            if took:
                b, last, _ = st["q"].pop(0)
                st["offering"] = False
                log(t, 2, {"e": "beat", "ep": 1, "b": b, "last": bool(last), "o": "in1"})
                if st["flush"]:
                    log(t, 3, {"e": "flush", "ep": 1, "o": "in1"})
            # transmitter emulation (protocol of USBDataPacketGenerator: PID cycle(s) first, then payload)
            p = dut.packet_stream
            valid, first, last = ctx.get(p.valid), ctx.get(p.first), ctx.get(p.last)
            ready = 0
            if st["tx"] == "idle":
                if valid and first:
                    st.update(tx="pid", wait=1 + (1 if rng.random() < stall_prob else 0), bytes=[],
                              pid=ctx.get(dut.data_pid), start=t)
                elif valid and last:
                    st["got"] = {"k": "data", "pid": ctx.get(dut.data_pid), "payload": [], "t": t}
            elif st["tx"] == "pid":
                st["wait"] -= 1
                if st["wait"] <= 0:
                    st["tx"] = "payload"
            else:
                ready = 0 if rng.random() < stall_prob else 1
                if not valid:
                    st["got"] = {"k": "bad", "pid": 0, "payload": [], "t": st["start"]}
                    st["tx"] = "idle"
                elif ready:
                    st["bytes"].append(ctx.get(p.payload))
                    if last or len(st["bytes"]) > 4 * self.m + 8:
                        st["got"] = {"k": "data" if last else "bad", "pid": st["pid"], "payload": st["bytes"],
                                     "t": st["start"]}
                        st["tx"] = "idle"
            ctx.set(p.ready, ready)
            if ctx.get(dut.handshakes_out.nak):
                st["got"] = {"k": "nak", "pid": 0, "payload": [], "t": t}
            await ctx.tick("usb")
            st["t"] += 1

        for _ in range(2):
            await cycle()
        for op in script:
            k = op[0]
            if k == "idle":
                for _ in range(op[1]):
                    await cycle()
            elif k == "feed":
                nb = st["t"] + (op[3] if len(op) > 3 else 0)
                st["q"].extend((b, l, nb) for b, l in op[2])
            elif k == "rate":
                st["rate"] = op[2]
            elif k == "flush":
                st["flush"] = int(op[2])
            elif k == "end":          # quiescence, as in Bench: settle the producer, poll until two NAKs, repeat
                st["flush"] = 0
                st["rate"] = 1.0

                def nbeats():
                    return sum(1 for x in ev if x[3]["e"] == "beat")

                for _round in range(400):
                    still = 0
                    for _ in range(20000):
                        if not st["q"]:
                            break
                        nb = nbeats()
                        await cycle()
                        still = still + 1 if nbeats() == nb else 0
                        if still >= 16 and st["q"][0][2] <= st["t"]:
                            break
                    nb = nbeats()
                    naks = 0
                    for _ in range(64):
                        log(st["t"], 0, {"e": "tok", "pid": "IN", "ep": 1, "o": "in1"})
                        st["got"] = None
                        await cycle(new_token=1)
                        await cycle()
                        await cycle(rfr=1)
                        n = 0
                        while st["got"] is None and (n < 6 or st["tx"] != "idle") and n < 40 * self.m + 200:
                            await cycle()
                            n += 1
                        g = st["got"]
                        if g is None:
                            log(st["t"], 0, {"e": "none", "o": "in1"})
                            naks = 2
                            break
                        log(g["t"], 0, {"e": "resp", "k": g["k"], "pid": g["pid"], "payload": g["payload"],
                                        "ok": g["k"] != "bad", "o": "in1"})
                        if g["k"] == "data":
                            naks = 0
                            await cycle()
                            await cycle(ack=1)
                            log(st["t"] - 1, 0, {"e": "hs", "o": "in1"})
                        else:
                            naks += 1
                            if naks >= 2:
                                break
                    if nbeats() == nb and not st["q"]:
                        break
                log(st["t"], 0, {"e": "end", "o": "bus"})
            elif k == "other_txn":    # a whole IN transaction of another endpoint, ACKed by the host (active = 0)
                log(st["t"], 0, {"e": "tok", "pid": "IN", "ep": 2, "o": "in2"})
                await cycle(new_token=1, active=0)
                await cycle(active=0)
                await cycle(rfr=1, active=0)
                for _ in range(4):
                    await cycle(active=0)
                await cycle(ack=1, active=0)
                log(st["t"] - 1, 0, {"e": "hs", "o": "in2"})
            elif k == "other_tok":
                log(st["t"], 0, {"e": "tok", "pid": "IN", "ep": 2, "o": "in2"})
                await cycle(new_token=1, active=0)
                for _ in range(2):
                    await cycle(active=0)
                await cycle(rfr=1, active=0)
                log(st["t"], 0, {"e": "none", "o": "in2"})
            elif k == "in":
                _, hs, d_rfr, d_ack = op
                log(st["t"], 0, {"e": "tok", "pid": "IN", "ep": 1, "o": "in1"})
                st["got"] = None
                await cycle(new_token=1)
                for _ in range(max(1, d_rfr) - 1):
                    await cycle()
                await cycle(rfr=1)
                n = 0
                while st["got"] is None and (n < 6 or st["tx"] != "idle") and n < 40 * self.m + 200:
                    await cycle()
                    n += 1
                g = st["got"]
                if g is None:
                    log(st["t"], 0, {"e": "none", "o": "in1"})
                    continue
                log(g["t"], 0, {"e": "resp", "k": g["k"], "pid": g["pid"], "payload": g["payload"],
                                "ok": g["k"] != "bad", "o": "in1"})
                if g["k"] == "data":
                    for _ in range(d_ack):
                        await cycle()
                    if hs == "ack":
                        await cycle(ack=1)
                        log(st["t"] - 1, 0, {"e": "hs", "o": "in1"})
                    else:
                        await cycle()
                        log(st["t"], 0, {"e": "nohs", "hostrx": hs == "lost", "o": "in1"})
            else:
                raise ValueError(op)
        for _ in range(2):
            await cycle()
        ev.sort(key=lambda x: (x[0], x[1], x[2]))
        self.cycles += st["t"]
        self._result = ([e for _, _, _, e in ev], [t for t, _, _, _ in ev])


# ---- running a script on a device whose endpoints carry other numbers -------------------------------------------
def renumber(ops, perm):
    """Apply the endpoint-number permutation `perm` (dict; identity elsewhere) to every op of a script, including the
    endpoint address inside a CLEAR_FEATURE(ENDPOINT_HALT) SETUP packet and ops nested in ("at", d, op) / clrhalt."""
    def mp(n):
        return perm.get(n, n)

    def one(op):
        extra = (op[-1],) if isinstance(op[-1], dict) else ()
        core = op[:len(op) - len(extra)]
        k = core[0]
        if k == "tok":
            core = (k, core[1], mp(core[2]))
        elif k in ("in", "ping", "feed", "rate", "flush", "cons", "sig"):
            core = (k, mp(core[1])) + tuple(core[2:])
        elif k == "out":
            core = (k, mp(core[1])) + tuple(core[2:])
        elif k == "at":
            core = (k, core[1], one(core[2]))
        elif k == "clrhalt":
            core = (k, mp(core[1]), core[2]) + ((renumber(core[3], perm),) if len(core) > 3 else ())
        elif k == "setup":
            req = list(core[1])
            if req[:4] == [2, 1, 0, 0]:
                req[4] = (req[4] & 0x80) | mp(req[4] & 0x0F)
            core = (k, req)
        return core + extra

    return [one(op) for op in ops]


def renumber_eps(eps, perm):
    return [dict(e, n=perm.get(e["n"], e["n"])) for e in eps]
