------------------------------- MODULE MCSsTx -------------------------------
(* Bounded instance of SsTx: every interleaving of partner link commands (matching and mismatching), *)
(* queue acceptances, header transmissions, retries and link-down points.  Header contents are       *)
(* abstracted to the sequence number assigned at acceptance.                                         *)
EXTENDS SsTx, TLC

CONSTANTS MaxAccepted,    \* bound on headers accepted per epoch
          MaxEpochs,
          Numbers         \* LGOOD numbers / LCRD letters offered are taken relative to the expected: offsets

VARIABLE epochs
mvars == <<vars, epochs>>

MCInit == Init /\ epochs = 0

MUp      == LinkUp /\ epochs' = epochs + 1
MDown    == UNCHANGED epochs /\ LinkDown
MDReset  == DomainReset /\ epochs' = epochs + 1
MLgood   == UNCHANGED epochs /\ \E d \in Numbers : PartnerLgood((nextAck + d) % 8)
MLcrd    == UNCHANGED epochs /\ \E d \in Numbers : PartnerLcrd((letter + d) % NBuf)
MLbad    == UNCHANGED epochs /\ PartnerLbad
MLrty    == UNCHANGED epochs /\ LrtyDone
MAccept  == UNCHANGED epochs /\ Accept(txSeq)
MRetry   == UNCHANGED epochs /\ RetryReq
MHpStart == UNCHANGED epochs /\ HpStart
\* a correct DUT: real headers as committed; void ones are copies of some unacknowledged header
MHpEnd   == UNCHANGED epochs /\
            \/ cur.k = "real" /\ \E dl \in BOOLEAN : HpEnd(cur.s, dl, cur.c)
            \/ cur.k = "void" /\ \E i \in 1..Len(unacked), dl \in BOOLEAN : HpEnd(unacked[i].s, dl, unacked[i].c)
            \/ cur.k = "stale" /\ HpEnd(0, FALSE, 0)
MRecov   == UNCHANGED epochs /\ Recov
MQuiet   == UNCHANGED epochs /\ Quiet

MCNext == MUp \/ MDown \/ MDReset \/ MLgood \/ MLcrd \/ MLbad \/ MLrty \/ MAccept \/ MRetry \/ MHpStart \/ MHpEnd
          \/ MRecov \/ MQuiet

MCSpec == MCInit /\ [][MCNext]_mvars
MCView == <<rvars, gvars, epochs>>
Bounded == gAccepted <= MaxAccepted /\ epochs <= MaxEpochs
=============================================================================
