"""Parser for TLA+ values as printed by TLC (state dumps, -simulate files, PrintT).

Records -> dict, sequences/tuples -> list, sets -> frozenset-like sorted list wrapped in
TlaSet, functions (a :> b @@ c :> d) -> dict, strings -> str, ints -> int, booleans -> bool,
model values / identifiers -> str.
"""
import re


class TlaSet(list):
    """A TLA+ set, kept as a list (elements may be unhashable dicts)."""
    pass


_TOK = re.compile(r"""
    \s*(?:
      (?P<str>"(?:[^"\\]|\\.)*")
    | (?P<int>-?\d+)
    | (?P<op><<|>>|\|->|:>|@@|\[|\]|\{|\}|\(|\)|,)
    | (?P<id>[A-Za-z_][A-Za-z0-9_!]*)
    )""", re.X)


def _tokenize(s):
    pos = 0
    out = []
    n = len(s)
    while pos < n:
        m = _TOK.match(s, pos)
        if not m:
            if s[pos:].strip() == "":
                break
            raise ValueError("cannot tokenize TLA value at %r" % s[pos:pos + 40])
        pos = m.end()
        kind = m.lastgroup
        out.append((kind, m.group(kind)))
    return out


class _P:
    def __init__(self, toks):
        self.t = toks
        self.i = 0

    def peek(self):
        return self.t[self.i] if self.i < len(self.t) else (None, None)

    def eat(self, val=None):
        k, v = self.t[self.i]
        if val is not None and v != val:
            raise ValueError("expected %r got %r" % (val, v))
        self.i += 1
        return k, v

    def value(self):
        k, v = self.peek()
        if k == "str":
            self.eat()
            return bytes(v[1:-1], "utf-8").decode("unicode_escape")
        if k == "int":
            self.eat()
            return int(v)
        if k == "id":
            self.eat()
            if v == "TRUE":
                return True
            if v == "FALSE":
                return False
            return v
        if v == "<<":
            self.eat()
            items = []
            while self.peek()[1] != ">>":
                items.append(self.value())
                if self.peek()[1] == ",":
                    self.eat()
            self.eat(">>")
            return items
        if v == "{":
            self.eat()
            items = TlaSet()
            while self.peek()[1] != "}":
                items.append(self.value())
                if self.peek()[1] == ",":
                    self.eat()
            self.eat("}")
            return items
        if v == "[":
            self.eat()
            rec = {}
            while self.peek()[1] != "]":
                _, name = self.eat()
                self.eat("|->")
                rec[name] = self.value()
                if self.peek()[1] == ",":
                    self.eat()
            self.eat("]")
            return rec
        if v == "(":
            self.eat()
            fn = {}
            while True:
                key = self.value()
                self.eat(":>")
                val = self.value()
                fn[key if not isinstance(key, list) else tuple(key)] = val
                if self.peek()[1] == "@@":
                    self.eat()
                    continue
                break
            self.eat(")")
            return fn
        raise ValueError("unexpected token %r" % (v,))


def parse_value(s):
    p = _P(_tokenize(s))
    v = p.value()
    if p.i != len(p.t):
        raise ValueError("trailing tokens in TLA value: %r" % (p.t[p.i:p.i + 5],))
    return v


_STATE_HDR = re.compile(r"^STATE_(\d+)\s*==\s*$")
_ACTION = re.compile(r"^\\\*\s*<(\w+)")


def parse_behaviour_file(text):
    """Parse one file written by `tlc -simulate file=...`.

    Returns a list of (action_name, {var: value}) in order.
    """
    states = []
    cur_action = None
    cur = None
    buf = []

    def flush():
        nonlocal cur, buf
        if cur is None:
            return
        body = "\n".join(buf)
        # conjunct list "/\ var = value" (values may span lines)
        parts = re.split(r"(?m)^\s*/\\ ", body)
        st = {}
        for part in parts:
            part = part.strip()
            if not part:
                continue
            name, _, val = part.partition("=")
            st[name.strip()] = parse_value(val.strip())
        states.append((cur, st))
        cur = None
        buf = []

    for line in text.splitlines():
        m = _ACTION.match(line)
        if m:
            flush()
            cur_action = m.group(1)
            continue
        m = _STATE_HDR.match(line)
        if m:
            flush()
            cur = cur_action or "Init"
            cur_action = None
            continue
        if line.startswith("====") or line.startswith("----") or line.startswith("EXTENDS"):
            continue
        if cur is not None:
            buf.append(line)
    flush()
    return states


def to_tla(v):
    """Render a Python value as a TLA+ expression (for cfg constants / generated modules)."""
    if isinstance(v, bool):
        return "TRUE" if v else "FALSE"
    if isinstance(v, int):
        return str(v)
    if isinstance(v, str):
        return '"%s"' % v
    if isinstance(v, TlaSet) or isinstance(v, (set, frozenset)):
        return "{" + ", ".join(to_tla(x) for x in v) + "}"
    if isinstance(v, (list, tuple)):
        return "<<" + ", ".join(to_tla(x) for x in v) + ">>"
    if isinstance(v, dict):
        return "[" + ", ".join("%s |-> %s" % (k, to_tla(x)) for k, x in v.items()) + "]"
    raise TypeError(v)
