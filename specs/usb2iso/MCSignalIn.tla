----------------------------- MODULE MCSignalIn -----------------------------
(* Bounded instance of SignalIn for exhaustive TLC exploration. *)
EXTENDS SignalIn, TLC

CONSTANTS Widths,      \* configurations explored, coded  2 * width + (1 if big endian else 0)  (cfg files have no records)
          Values,      \* signal values explored (taken modulo 2^width)
          MaxPolls

MCConfigs == {[width |-> c \div 2, bigEndian |-> (c % 2 = 1), epNum |-> 1, devAddr |-> 0,
               signalDomain |-> "usb", syncCycles |-> 0] : c \in Widths}
\* integer (< 2^31) -> value of the signal (limbs), truncated to the signal's width
Masked(v) == IF Width < 31 THEN v % (2 ^ Width) ELSE v
Limbs(v) == [i \in 1..NLimbs |-> IF i = 1 THEN Masked(v) % 65536 ELSE IF i = 2 THEN Masked(v) \div 65536 ELSE 0]
Vals == {Limbs(v) : v \in Values}

\* traffic that does not concern the endpoint <<pid, addr, ep, ack, hd>>: unanswered tokens, an acknowledged IN
\* transaction of another endpoint of this device and of another device, OUT / SETUP transactions with data
MCOthers == {<<"IN", DevAddr, EpNum + 1, FALSE, FALSE>>, <<"IN", DevAddr + 1, EpNum, FALSE, FALSE>>,
             <<"OUT", DevAddr, EpNum, FALSE, TRUE>>, <<"SETUP", DevAddr, EpNum, FALSE, FALSE>>,
             <<"IN", DevAddr, EpNum + 1, TRUE, FALSE>>, <<"OUT", DevAddr, EpNum + 1, FALSE, TRUE>>,
             <<"IN", DevAddr + 1, EpNum, TRUE, FALSE>>}

MCSetSignal == \E v \in Vals : v # sig /\ SetSignal(v)
\* quiet poll: the signal is stable while the request arrives
MCPoll      == /\ \E ack \in BOOLEAN, got \in BOOLEAN :
                      \E val \in (IF pending = <<>> THEN {sig} ELSE {pending[1]}) : Poll({sig}, val, ack, got)
               /\ UNCHANGED sig
\* racing poll: the signal changes to v2 while the request arrives; either value may be latched
MCPollRace  == \E v2 \in Vals \ {sig}, ack \in BOOLEAN, got \in BOOLEAN :
                   \E val \in (IF pending = <<>> THEN {sig, v2} ELSE {pending[1]}) :
                       Poll({sig, v2}, val, ack, got) /\ sig' = v2
MCOther     == \E o \in MCOthers : Other(o[1], o[2], o[3], o[4], o[5])
MCSof       == SofEvent
MCNext == MCSetSignal \/ MCPoll \/ MCPollRace \/ MCOther \/ MCSof
MCSpec == Init /\ [][MCNext]_vars

Bounded == Len(latchedLog) <= MaxPolls
=============================================================================
