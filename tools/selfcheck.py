#!/venv/bin/python
"""SANY every spec (with lib modules staged next to it) and import every binding."""
import importlib
import os
import shutil
import sys
import tempfile
from concurrent.futures import ThreadPoolExecutor

VERIF = os.path.dirname(os.path.dirname(os.path.abspath(__file__)))
sys.path.insert(0, VERIF)
from harness import tlc, registry, core  # noqa: E402


def check_engine_dir(d):
    bad = []
    tmp = tempfile.mkdtemp(prefix="verif-sany-")
    try:
        tlc.stage(d, tmp)
        for f in sorted(os.listdir(os.path.join(tlc.SPECS, d))):
            if f.endswith(".tla"):
                ok, out = tlc.sany(os.path.join(tmp, f))
                if not ok:
                    bad.append((d, f, out[-1500:]))
    finally:
        shutil.rmtree(tmp, ignore_errors=True)
    return bad


def main():
    dirs = [d for d in sorted(os.listdir(tlc.SPECS)) if os.path.isdir(os.path.join(tlc.SPECS, d))]
    bad = []
    with ThreadPoolExecutor(8) as ex:
        for b in ex.map(check_engine_dir, dirs):
            bad += b
    for d, f, out in bad:
        print("SANY FAILED %s/%s\n%s" % (d, f, out))
    core.use_repo()
    for e in registry.ENGINES:
        mod = importlib.import_module("harness.bindings." + e)
        for p in registry.ENGINES[e]:
            assert p in mod.CHECKS and p in mod.META, (e, p)
    print("setup ok: %d spec dirs, %d engines" % (len(dirs), len(registry.ENGINES)))
    return 1 if bad else 0


if __name__ == "__main__":
    sys.exit(main())
