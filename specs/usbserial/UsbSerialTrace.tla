-------------------------- MODULE UsbSerialTrace --------------------------
(* Trace validation for UsbSerial: Logs[tid] = [cfg |-> [vid, pid], steps |-> <<records>>]; every   *)
(* record is one host transaction / control transfer / batch of stream beats observed on the real  *)
(* USBSerialDevice.  status = name of the first violated clause.                                   *)
EXTENDS UsbSerial, TLC, TLCExt, Json, IOUtils

Logs == JsonDeserialize(IOEnv.TRACE_FILE)

VARIABLES tid, l, status
tvars == <<vars, tid, l, status>>

ASSUME \A i \in 1..Len(Logs) : TLCSet(i, <<0, "ok">>)

Steps == Logs[tid].steps
Cfg == Logs[tid].cfg

FailOf(r) ==
    CASE r.e = "tx"  -> TxBeatsFail(r.beats)
      [] r.e = "rx"  -> RxBeatsFail(r.bytes)
      [] r.e = "out" -> OutFail(r.addr, r.tog, r.payload, r.crc_ok, r.resp)
      [] r.e = "in"  -> InFail(r.addr, r.resp, r.host_ack)
      [] r.e = "ctl" -> CtlFail(r.addr, r.req, r.outcome, r.data, Cfg.vid, Cfg.pid)
      [] r.e = "end" -> EndFail
      [] OTHER -> "unknown_record"

Apply(r) ==
    CASE r.e = "tx"  -> TxBeats(r.beats)
      [] r.e = "rx"  -> RxBeats(r.bytes)
      [] r.e = "out" -> Out(r.addr, r.tog, r.payload, r.crc_ok, r.resp)
      [] r.e = "in"  -> In(r.addr, r.resp, r.host_ack)
      [] r.e = "ctl" -> Ctl(r.addr, r.req, r.outcome, r.data)
      [] OTHER -> UNCHANGED vars

TInit == Init /\ tid \in 1..Len(Logs) /\ l = 1 /\ status = "ok"

TNext == /\ status = "ok"
         /\ l <= Len(Steps)
         /\ LET r == Steps[l] IN
              LET f == FailOf(r) IN
                /\ status' = f
                /\ IF f = "ok" THEN Apply(r) ELSE UNCHANGED vars
         /\ l' = l + 1
         /\ UNCHANGED tid

TSpec == TInit /\ [][TNext]_tvars

TraceProp == RxExactlyOnceInOrder /\ TxExactlyOnceInOrder /\ TogglesBinary /\ AddressRange

\* a clause failure keeps its name; an invariant failure stops the trace there (it is not followed further)
Verdict == IF status # "ok" THEN status ELSE IF TraceProp THEN "ok" ELSE "prop_invariant"
Progress == TLCSet(tid, <<l - 1, Verdict>>) /\ Verdict = "ok"

Verdicts == JsonSerialize(IOEnv.VERDICT_FILE, [i \in 1..Len(Logs) |-> TLCGet(i)])
=============================================================================
