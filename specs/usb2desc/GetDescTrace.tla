--------------------------- MODULE GetDescTrace ---------------------------
(***************************************************************************)
(* Trace validation for GetDesc.  A trace recorded from real gateware is   *)
(*   [cfg   |-> [table, maxpkt, level, clean],                             *)
(*    steps |-> << one record per host action >>]                          *)
(* level "unit": a bare GetDescriptorHandler{Block,Distributed,Mux} driven *)
(*   through value / length / start_position / start and observed on its   *)
(*   tx stream and stall output by a USB IN-stream consumer;               *)
(* level "e2e" : a real USBDevice with a standard control endpoint driven  *)
(*   over UTMI by the host model, observed as bus packets.                 *)
(* Records:                                                                *)
(*   [e |-> "setup", v, wlen, spur]                                        *)
(*   [e |-> "in", ack, k, bytes, spur, ...]   k = "data" | "stall" | "nak" *)
(*                                               | "none" | "bad"          *)
(*        unit: off (start_position used), zlp, first, last (per accepted  *)
(*              beat), gaps (valid dropped inside the packet), junk        *)
(*        e2e : pid ("DATA0"/"DATA1"), crc_ok                              *)
(*   [e |-> "status", spur]        [e |-> "end", spur]                     *)
(*   [e |-> "reset", spur]  the DUT's clock-domain reset was asserted      *)
(* `spur` = device output observed since the previous response that no     *)
(* host action asked for (stream/stall activity, resp. bus packets).       *)
(***************************************************************************)
EXTENDS GetDesc, TLC, TLCExt, Json, IOUtils

Logs == JsonDeserialize(IOEnv.TRACE_FILE)
TraceCfgOf(i) == Logs[i].cfg

VARIABLES l, status,
          rtSince      \* history for KF_MuxStale: an IN was answered from a runtime descriptor and no IN
                       \* for a ROM descriptor has followed yet
tvars == <<vars, l, status, rtSince>>

ASSUME \A i \in 1..Len(Logs) : TLCSet(i, <<0, "ok">>)

Steps == Logs[cid].steps
OutOf(r) == [k |-> r.k, bytes |-> r.bytes]
N(r) == Len(r.bytes)

\* USB IN-stream framing of one packet on the handler's tx stream (unit level):
\* `first` on the first byte only, `last` on the final byte only, valid held in between;
\* a zero-length packet is a single beat with `last` and without `first`.
UnitFraming(r) ==
    IF ~(r.k = "data") THEN "ok"
    ELSE IF r.zlp # (N(r) = 0) THEN "zlp_framing"
    ELSE IF Len(r.first) # N(r) \/ Len(r.last) # N(r) THEN "beat_count"
    ELSE IF \E i \in 1..N(r) : r.first[i] # (i = 1) THEN "first"
    ELSE IF \E i \in 1..N(r) : r.last[i] # (i = N(r)) THEN "last"
    ELSE IF r.gaps # 0 THEN "valid_dropped_in_packet"
    ELSE IF r.junk # 0 THEN "beat_outside_packet"
    ELSE "ok"

E2EFraming(r) ==
    IF ~(r.k = "data") THEN "ok"
    ELSE IF ~r.crc_ok THEN "crc"
    ELSE IF r.pid # (IF tog = 1 THEN "DATA1" ELSE "DATA0") THEN "data_pid"
    ELSE "ok"

\* name of the first failing clause for record r (Env clauses first: those are harness errors)
Failing(r) ==
    IF r.e = "setup" THEN
        IF ~CanSetup \/ r.wlen < 1 THEN "env_setup_not_allowed"
        ELSE IF C.clean /\ (KF_DistEnd(r.v, r.wlen) \/ KF_MuxLang(r.v)) THEN "env_known_finding_trigger_in_clean_trace"
        ELSE IF r.spur # 0 THEN "spurious_output"
        ELSE "ok"
    ELSE IF r.e = "status" THEN
        IF ~CanStatus THEN "env_status_not_allowed"
        ELSE IF r.spur # 0 THEN "spurious_output"
        ELSE "ok"
    ELSE IF r.e = "end" \/ r.e = "reset" THEN
        IF r.spur # 0 THEN "spurious_output" ELSE "ok"
    ELSE IF r.e = "in" THEN
        IF ~CanIn THEN "env_in_not_allowed"
        ELSE IF C.clean /\ KF_MuxStale(rtSince) THEN "env_known_finding_trigger_in_clean_trace"
        ELSE IF C.level = "unit" /\ r.off # Len(sent) THEN "env_offset"
        ELSE IF r.spur # 0 THEN "spurious_output"
        ELSE IF r.k = "none" THEN "no_response"
        ELSE IF r.k = "bad" THEN "malformed_response"
        ELSE IF ~HasDesc(xfer.v) /\ r.k # "stall" THEN "stall_expected"
        ELSE IF HasDesc(xfer.v) /\ r.k = "stall" THEN "unexpected_stall"
        ELSE IF ~InKindOK(OutOf(r)) THEN "nak_limit"
        ELSE IF ~InLengthOK(OutOf(r)) THEN "packet_length"
        ELSE IF ~InBytesOK(OutOf(r)) THEN "packet_bytes"
        ELSE IF C.level = "unit" THEN UnitFraming(r)
        ELSE E2EFraming(r)
    ELSE "env_unknown_record"

Apply(r) ==
    CASE r.e = "setup"  -> Setup(r.v, r.wlen)
      [] r.e = "in"     -> In(r.ack, OutOf(r))
      [] r.e = "status" -> Status
      [] r.e = "end"    -> UNCHANGED vars
      [] r.e = "reset"  -> Reset

TInit == /\ cid \in 1..Len(Logs)
         /\ Init0
         /\ l = 1
         /\ status = "ok"
         /\ rtSince = FALSE

TNext == /\ status = "ok"
         /\ l <= Len(Steps)
         /\ LET r == Steps[l]
                f == Failing(r) IN
              /\ status' = f
              /\ IF f = "ok" THEN Apply(r) ELSE UNCHANGED vars
              /\ rtSince' = IF r.e = "in" /\ HasDesc(xfer.v) THEN EntryOf(xfer.v).dist ELSE rtSince
         /\ l' = l + 1

TSpec == TInit /\ [][TNext]_tvars

\* Prop invariants are evaluated on every state of every observed execution.
Progress == TLCSet(cid, <<l - 1, IF PropInv THEN status ELSE "prop_invariant">>)

Verdicts == JsonSerialize(IOEnv.VERDICT_FILE, [i \in 1..Len(Logs) |-> TLCGet(i)])
=============================================================================
