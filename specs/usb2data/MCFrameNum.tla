----------------------------- MODULE MCFrameNum -----------------------------
(* Bounded instance of FrameNum: every sequence of packets from a small alphabet (SOFs for each frame  *)
(* number in Frames with good CRC / each single CRC bit flipped, truncated, overlong, wrong PID check;  *)
(* other packets), with the outputs the Ref prescribes.                                                 *)
EXTENDS FrameNum, TLC

CONSTANTS Frames,      \* frame numbers used
          CrcFlips,    \* which single CRC5 bits (1..5) are flipped in corrupted SOFs
          InitMicros,  \* initial microframe numbers
          MaxSofs      \* bound on the ghost history

\* non-SOF packets: OUT token to address 0 endpoint 0 (good CRC5), IN token, ACK, a DATA0 ZLP, a 3-byte data-PID
\* packet, nothing at all (rx_active without bytes)
Others == {<<225, 0, 16>>, <<105, 0, 16>>, <<210>>, <<195, 0, 0>>, <<75, 165, 0>>, <<>>}

Expected(b) ==         \* the one observation the Ref allows
    IF WellFormedSof(b)
    THEN LET f == FrameOf(b) IN
         [bytes |-> b, nf |-> IF f # frame THEN 1 ELSE 0, sd |-> 1, frame |-> f,
          micro |-> IF f # frame THEN 0 ELSE (micro + 1) % 8]
    ELSE [bytes |-> b, nf |-> 0, sd |-> 0, frame |-> frame, micro |-> micro]

Do(b) == LET e == Expected(b) IN Legal(e) /\ Failing(e) = "ok" /\ Step(e)

\* (the bound sets are written state-dependently so that TLC reports each action as one unit in its coverage)
Now(S) == IF frame >= 0 THEN S ELSE {}
NewFrameSof == \E f \in {g \in Frames : g # frame} : Do(SofBytes(f, 0))
RepeatSof   == \E f \in {g \in Frames : g = frame} : Do(SofBytes(f, 0))
BadCrcSof   == \E f \in Now(Frames) : \E k \in CrcFlips : Do(SofBytes(f, k))
ShortSof    == \E f \in Now(Frames) : Do(SubSeq(SofBytes(f, 0), 1, 2))
LongSof     == \E f \in Now(Frames) : Do(SofBytes(f, 0) \o <<0>>)
BadPidSof   == \E f \in Now(Frames) : Do([SofBytes(f, 0) EXCEPT ![1] = 37])        \* 0x25: SOF PID nibble, wrong check nibble
OtherPacket == \E b \in Now(Others) : Do(b)

MCInit == \E f \in Frames, m \in InitMicros : InitWith(f, m)
MCNext == NewFrameSof \/ RepeatSof \/ BadCrcSof \/ ShortSof \/ LongSof \/ BadPidSof \/ OtherPacket
MCSpec == MCInit /\ [][MCNext]_vars

Bounded == Len(hist) <= MaxSofs
=============================================================================
