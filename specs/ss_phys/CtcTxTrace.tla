------------------------------ MODULE CtcTxTrace ------------------------------
(***************************************************************************)
(* Trace validation for C33.  trace = [cfg |-> [kind, limit], steps |-> ..] *)
(*  kind "ctc": the real CTCSkipInserter alone.  step =                     *)
(*      [w, idle, rdy, hold, ov, ow]   w/idle = link word and can_send_skip;*)
(*      rdy = sink.ready, hold = sending_skip, ov/ow = source.valid / word. *)
(*      The output may lag the input by any (bounded) number of cycles:     *)
(*      expected words are queued, each valid output word pops one.         *)
(*  kind "phy": the real USB3PhysicalLayer transmit path (scrambler + CTC   *)
(*      as wired), observed at the PHY.  step = [w, idle, rdy, en, ow]      *)
(*      ow = phy.tx_data/tx_datak.  The PHY takes a word every cycle, so    *)
(*      the pipeline latency lat is a constant, chosen in TInit (1..2).     *)
(*      Expected word = SKP word if inserted, else the link word scrambled  *)
(*      with the LFSR, which is held (does not advance) over an insertion.  *)
(* Environment as wired: the transmit path never stalls (rdy in every       *)
(* recorded cycle), idle only flagged on the idle word.                     *)
(***************************************************************************)
EXTENDS CtcTx, SsLfsr, TLC, TLCExt, Json, IOUtils

Logs == JsonDeserialize(IOEnv.TRACE_FILE)

VARIABLES tid, l, status,
          elapsed, owed,     \* Ref (CtcTx)
          ss,                \* Ref: scrambler LFSR (phy)
          exp,               \* expected output words not yet observed
          lat,               \* phy: pipeline latency of this branch
          wst                \* WordStep(ss), computed once per step
tvars == <<tid, l, status, elapsed, owed, ss, exp, lat, wst>>

Seed == 65535
WStep(x) == WordStep(x)
Scr == INSTANCE Scrambler

Cfg == Logs[tid].cfg
NSteps(t) == Len(Logs[t].steps)
MaxLat == 3

ASSUME \A i \in 1..Len(Logs) : TLCSet(i, <<0, "ok">>)

Word(x) == <<x[1], x[2], x[3], x[4]>>
InOf(r) == [w |-> Word(r.w), idle |-> r.idle]

Mismatch(want, got) ==
    IF want = SKPW THEN "skp_not_inserted_when_owed_and_idle"
    ELSE IF got = SKPW THEN "skp_inserted_over_non_idle_or_not_owed"
    ELSE "link_word_changed_dropped_or_reordered"

\* the word the PHY should get for this link word
Expected(r, ws) ==
    IF Insert(owed, InOf(r)) THEN SKPW
    ELSE IF Cfg.kind = "phy" THEN Scr!ScrWordK(ws.key, r.en, Word(r.w))
    ELSE Word(r.w)

FailCommon(r) == IF ~r.rdy THEN "link_stream_stalled"
                 ELSE IF ~IdleLegal(InOf(r)) THEN "env_idle_flag_on_non_idle_word"
                 ELSE IF owed > MaxOwed THEN "env_skp_debt_above_assumed_bound"
                 ELSE "ok"

FailCtc(r) ==
    IF FailCommon(r) # "ok" THEN FailCommon(r)
    ELSE IF r.hold # Insert(owed, InOf(r)) THEN
            (IF r.hold THEN "scrambler_held_without_insertion" ELSE "scrambler_not_held_over_inserted_skp")
    ELSE IF r.ov /\ exp = <<>> THEN "output_word_from_nowhere"
    ELSE IF r.ov /\ Word(r.ow) # Head(exp) THEN Mismatch(Head(exp), Word(r.ow))
    ELSE IF ~r.ov /\ Len(exp) >= MaxLat THEN "output_missing"
    ELSE "ok"

FailPhy(r) ==
    IF FailCommon(r) # "ok" THEN FailCommon(r)
    ELSE IF Len(exp) >= lat /\ Word(r.ow) # Head(exp) THEN Mismatch(Head(exp), Word(r.ow))
    ELSE "ok"

TInit == /\ tid \in 1..Len(Logs)
         /\ l = 1 /\ status = "ok"
         /\ elapsed = 0 /\ owed = 0 /\ ss = Seed /\ exp = <<>>
         /\ lat \in (IF Logs[tid].cfg.kind = "phy" THEN 1..2 ELSE {1})
         /\ wst = IF Logs[tid].cfg.kind = "phy" THEN WordStep(Seed) ELSE [key |-> <<0, 0, 0, 0>>, next |-> 0]

TNext == /\ status = "ok"
         /\ l <= NSteps(tid)
         /\ LET r   == Logs[tid].steps[l]
                i   == InOf(r)
                pop == IF Cfg.kind = "phy" THEN Len(exp) >= lat ELSE (r.ov /\ exp # <<>>)
                e1  == IF pop THEN Tail(exp) ELSE exp
            IN /\ status' = IF Cfg.kind = "phy" THEN FailPhy(r) ELSE FailCtc(r)
               /\ exp' = Append(e1, Expected(r, wst))
               /\ elapsed' = ElapsedNext(elapsed)
               /\ owed' = OwedNext(owed, elapsed, i)
               /\ ss' = IF Cfg.kind = "phy"
                          THEN Scr!LfsrNextW(ss, wst.next, [valid |-> TRUE, ready |-> TRUE, hold |-> Insert(owed, i),
                                                          en |-> r.en, clr |-> FALSE, w |-> Word(r.w)])
                          ELSE ss
               /\ wst' = IF ss' = ss THEN wst ELSE WordStep(ss')
         /\ l' = l + 1
         /\ UNCHANGED <<tid, lat>>

TSpec == TInit /\ [][TNext]_tvars

\* several branches (lat) per trace: keep the verdict of the branch that got furthest
Rank(m, st) == IF st = "ok" THEN 2 * m + 1 ELSE 2 * m
TraceProp == elapsed \in 0..(Limit - 1) /\ owed >= 0 /\ Len(exp) <= MaxLat + 1
Verdict == IF status # "ok" THEN status ELSE IF TraceProp THEN "ok" ELSE "prop_invariant"
Progress == /\ IF Rank(l - 1, Verdict) > Rank(TLCGet(tid)[1], TLCGet(tid)[2])
                 THEN TLCSet(tid, <<l - 1, Verdict>>) ELSE TRUE
            /\ Verdict = "ok"
Verdicts == JsonSerialize(IOEnv.VERDICT_FILE, [i \in 1..Len(Logs) |-> TLCGet(i)])
=============================================================================
