#!/venv/bin/python
"""Run checks against a patched scratch worktree of /repo (never touches /repo or the committed evidence).

usage: tools/seedtest.py <patch.diff> <ID> [<ID>...] [--tier quick|thorough]
Exit 0 when at least one of the checks reports a VIOLATION (the change is detected).
"""
import os
import shutil
import subprocess
import sys
import tempfile

VERIF = os.path.dirname(os.path.dirname(os.path.abspath(__file__)))


def main():
    args = [a for a in sys.argv[1:] if not a.startswith("--")]
    tier = "quick"
    if "--tier" in sys.argv:
        tier = sys.argv[sys.argv.index("--tier") + 1]
        args.remove(tier)
    patch, ids = os.path.abspath(args[0]), args[1:]
    wt = tempfile.mkdtemp(prefix="seedwt-")
    out = tempfile.mkdtemp(prefix="seedout-")
    os.rmdir(wt)
    detected = False
    try:
        subprocess.run(["git", "-C", "/repo", "worktree", "add", "--detach", "-q", wt, "HEAD"], check=True)
        if subprocess.run(["git", "-C", wt, "apply", patch], stderr=subprocess.DEVNULL).returncode != 0:
            # the tree moved on (fix: commits near the patched lines): fall back to a fuzzy application of the same hunks
            subprocess.run(["patch", "-p1", "-s", "-F3", "--no-backup-if-mismatch", "-d", wt, "-i", patch], check=True)
            print("(patch applied with fuzz: /repo HEAD has moved since it was written)")
        env = dict(os.environ, VERIF_REPO=wt, VERIF_EVIDENCE_DIR=out, VERIF_REPLAY_DIR=out)
        for pid in ids:
            p = subprocess.run([os.path.join(VERIF, "check"), pid, "--tier", tier], env=env, cwd=VERIF,
                               stdout=subprocess.PIPE, stderr=subprocess.STDOUT, text=True)
            lines = [l for l in p.stdout.splitlines() if "condarc" not in l]
            viol = [l for l in lines if l.startswith("VIOLATION")]
            print("%s: exit=%d %s" % (pid, p.returncode, "DETECTED" if viol and p.returncode == 1 else "missed"))
            for l in lines[-6:]:
                print("   | " + l[:400])
            detected |= bool(viol) and p.returncode == 1
    finally:
        subprocess.run(["git", "-C", "/repo", "worktree", "remove", "--force", wt], check=False)
        shutil.rmtree(wt, ignore_errors=True)
        shutil.rmtree(out, ignore_errors=True)
    return 0 if detected else 1


if __name__ == "__main__":
    sys.exit(main())
