"""Shared plumbing for all checks: environment, evidence, known findings, verdict lines."""
import json
import os
import random
import sys
import time

VERIF = os.path.dirname(os.path.dirname(os.path.abspath(__file__)))
REPO = os.environ.get("VERIF_REPO", "/repo")
LEVELS = ("exploration", "fault_enumeration", "model_checking", "proof", "translation_validation", "other")


def use_repo():
    """Make `import luna` resolve to the tree under test (always the current sources)."""
    if REPO not in sys.path or sys.path[0] != REPO:
        sys.path.insert(0, REPO)
    os.environ.setdefault("LUNA_VERIF", "1")
    import luna  # noqa
    got = os.path.realpath(os.path.dirname(os.path.dirname(luna.__file__)))
    if got != os.path.realpath(REPO):
        raise RuntimeError("luna imported from %s, expected %s" % (got, REPO))


def get_seed():
    try:
        return int(os.environ.get("VERIF_SEED", "1"))
    except ValueError:
        return 1


def get_tier(cli=None):
    t = cli or os.environ.get("VERIF_TIER") or "quick"
    return "thorough" if t.startswith("t") else "quick"


class Machinery(Exception):
    """A failure of the verification machinery itself (exit 2, never a VIOLATION)."""


def load_findings():
    out = []
    p = os.path.join(VERIF, "known_findings.json")
    if os.path.exists(p):
        with open(p) as f:
            out += json.load(f)["findings"]
    d = os.path.join(VERIF, "known_findings.d")      # staging area, merged by tools/merge_findings.py
    if os.path.isdir(d):
        for fn in sorted(os.listdir(d)):
            if fn.endswith(".json"):
                with open(os.path.join(d, fn)) as f:
                    out += json.load(f)["findings"]
    return out


class Report:
    """Accumulates what a check covered; writes evidence; prints verdict lines."""

    def __init__(self, prop_id, tier, seed, engine):
        self.id = prop_id
        self.tier = tier
        self.seed = seed
        self.engine = engine
        self.t0 = time.time()
        self.states = 0
        self.transitions = 0
        self.traces = 0
        self.trace_steps = 0
        self.evaluations = 0
        self.nontrivial = set()
        self.samples = []
        self.assumptions = []
        self.notes = []
        self.violations = []
        self.known = []
        self.drift = []
        self.mc_runs = []
        self.exhaustive = False
        self.rule = ""
        self.rng = random.Random("%s-%s" % (prop_id, seed))
        self.findings = [f for f in load_findings() if f["property"] == prop_id]
        self.extra = {}

    # ---- coverage accounting -------------------------------------------------------------
    def add_mc(self, label, res, bounds=None):
        self.states += res.get("distinct", 0)
        self.transitions += res.get("generated", 0)
        self.mc_runs.append({"model": label, "distinct_states": res.get("distinct"),
                             "states_generated": res.get("generated"), "depth": res.get("depth"),
                             "wall_s": res.get("wall_s"), "bounds": bounds,
                             "actions_covered": sorted({v["action"] for v in res.get("coverage", {}).values()
                                                        if v["generated"] > 0})})
        self.exhaustive = True

    def add_traces(self, n_accepted, steps):
        self.traces += n_accepted
        self.trace_steps += steps

    def add_eval(self, n=1):
        self.evaluations += n

    def nontriv(self, key):
        self.nontrivial.add(key if isinstance(key, (str, int, tuple)) else json.dumps(key, sort_keys=True))

    def sample(self, obj, limit=6):
        if len(self.samples) < limit:
            self.samples.append(obj)

    def assume(self, text):
        if text not in self.assumptions:
            self.assumptions.append(text)

    # ---- verdicts ------------------------------------------------------------------------
    def violation(self, signature, what, replay):
        """A real-gateware execution rejected by the specification.

        signature: dict(clause=..., pattern=...) used to match known findings.
        """
        for f in self.findings:
            if f.get("status") != "open":
                continue
            sig = f.get("signature", {})
            if all(signature.get(k) == v for k, v in sig.items()):
                if f["id"] not in [k["id"] for k in self.known]:
                    self.known.append({"id": f["id"], "what": f["what"], "signature": signature})
                return "known"
        rdir = os.environ.get("VERIF_REPLAY_DIR", os.path.join(VERIF, "replays"))
        os.makedirs(rdir, exist_ok=True)
        n = len(self.violations)
        path = os.path.join(rdir, "%s-%s-%d.json" % (self.id, self.tier, n))
        if n < 5:
            with open(path, "w") as fh:
                json.dump({"property": self.id, "engine": self.engine, "signature": signature,
                           "what": what, "seed": self.seed, "replay": replay}, fh, indent=1, default=str)
        self.violations.append({"signature": signature, "what": what, "replay": path})
        return "violation"

    def finish(self):
        wall = time.time() - self.t0
        cov = {
            "states": self.states,
            "transitions": self.transitions,
            "traces_validated_against_impl": self.traces,
            "trace_steps_validated": self.trace_steps,
            "evaluations": max(self.evaluations, self.traces),
            "distinct_nontrivial": len(self.nontrivial),
            "rule": self.rule,
            "samples": self.samples if self.samples else ["(none recorded)"],
            "exhaustive": self.exhaustive,
            "exhaustive_scope": "bounded TLA+ model only (bounds listed in model_runs); real-gateware traces are sampled",
            "model_runs": self.mc_runs,
            "drift": self.drift[:10],
            "known_findings": self.known,
            "violations_detail": self.violations[:10],
            "notes": self.notes,
        }
        cov.update(self.extra)
        ev = {"property_id": self.id, "tier": self.tier, "seed": self.seed, "level": "model_checking",
              "coverage": cov, "assumptions": self.assumptions, "wall_s": round(wall, 2),
              "violations": len(self.violations)}
        edir = os.environ.get("VERIF_EVIDENCE_DIR", os.path.join(VERIF, "evidence"))
        os.makedirs(edir, exist_ok=True)
        with open(os.path.join(edir, "%s.json" % self.id), "w") as fh:
            json.dump(ev, fh, indent=1, default=str)
        for k in self.known:
            print("KNOWN-FINDING: property=%s %s" % (self.id, k["what"]))
        seen = set()
        for v in self.violations:
            key = json.dumps(v["signature"], sort_keys=True)
            if key in seen:
                continue
            seen.add(key)
            print("VIOLATION property=%s replay=%s" % (self.id, v["replay"]))
            print("  what: %s" % v["what"])
        print("%s %s: states=%d transitions=%d traces=%d steps=%d nontrivial=%d known=%d violations=%d wall=%.1fs"
              % (self.id, self.tier, self.states, self.transitions, self.traces, self.trace_steps,
                 len(self.nontrivial), len(self.known), len(self.violations), wall))
        return 1 if self.violations else 0
