-------------------------------- MODULE CRC --------------------------------
(***************************************************************************)
(* The USB CRCs, defined bit-serially from the wording of the standards     *)
(* ([USB2.0 8.3.5], [USB3.2 7.2.1.1.2 / 7.2.1.2.1 / 7.2.2.1.1]):           *)
(*   - a W-bit shift register is pre-loaded with all ones;                  *)
(*   - for every bit on the wire (fields LSB first) the register's MSB is   *)
(*     XORed with the data bit, the register shifts left by one with a 0    *)
(*     shifted in, and if the XOR was 1 the register is XORed with the      *)
(*     generator polynomial (without its x^W term);                         *)
(*   - the CRC field is the *inverted* register, sent MSB (x^(W-1)) first.  *)
(* Registers are sequences of W bits, index 1 = coefficient of x^(W-1).     *)
(***************************************************************************)
EXTENDS Bits

CrcShift(reg, bit, poly) ==
    LET W  == Len(reg)
        fb == Xor(reg[1], bit)
    IN [i \in 1..W |-> LET s == IF i < W THEN reg[i + 1] ELSE 0
                       IN IF fb = 1 THEN Xor(s, poly[i]) ELSE s]

RECURSIVE CrcFrom(_, _, _, _)
CrcFrom(reg, bits, k, poly) ==           \* process bits[k..Len(bits)]
    IF k > Len(bits) THEN reg ELSE CrcFrom(CrcShift(reg, bits[k], poly), bits, k + 1, poly)
CrcRun(reg, bits, poly) == CrcFrom(reg, bits, 1, poly)

Ones(W) == [i \in 1..W |-> 1]

\* the CRC field in the order it goes onto the wire (first element = first bit sent)
CrcField(bits, poly) == Invert(CrcRun(Ones(Len(poly)), bits, poly))

\* Generator polynomials, coefficient of x^(W-1) first, x^W term omitted.
Poly5   == <<0, 0, 1, 0, 1>>                                   \* x^5 + x^2 + 1         (USB2 token, USB3 link control word)
Poly16  == <<1,0,0,0, 0,0,0,0, 0,0,0,0, 0,1,0,1>>              \* x^16 + x^15 + x^2 + 1 (USB2 data)
Poly16H == <<0,0,0,1, 0,0,0,0, 0,0,0,0, 1,0,1,1>>              \* x^16+x^12+x^3+x+1  = 0x100B (USB3 header)
Poly32  == <<0,0,0,0, 0,1,0,0, 1,1,0,0, 0,0,0,1, 0,0,0,1, 1,1,0,1, 1,0,1,1, 0,1,1,1>>   \* 0x04C11DB7 (USB3 data payload)

-----------------------------------------------------------------------------
(* USB2 *)
\* 11 token bits (addr[0..6], endp[0..3]) or a frame number, as an integer: 5-bit field value whose
\* bit 0 is the first CRC bit sent (so the token's 16 payload bits are  value | field << 11).
Usb2Crc5(v11) == ValLSB(CrcField(BitsLSB(v11, 11), Poly5))
Usb2TokenOk(b1, b2) ==      \* the two bytes after the PID
    LET w == b1 + 256 * b2 IN Usb2Crc5(w % 2048) = w \div 2048

\* CRC16 of a payload (sequence of bytes): 16-bit value whose low byte is sent first.
Usb2Crc16(bytes) == ValLSB(CrcField(BytesToBits(bytes), Poly16))
Usb2Crc16Lo(bytes) == Usb2Crc16(bytes) % 256
Usb2Crc16Hi(bytes) == Usb2Crc16(bytes) \div 256

(* USB3 *)
Usb3Crc5(v11)      == ValLSB(CrcField(BitsLSB(v11, 11), Poly5))
Usb3Crc16(bytes)   == ValLSB(CrcField(BytesToBits(bytes), Poly16H))     \* over the 12 header bytes
\* CRC32 as the 4 bytes in the order they follow the payload
Usb3Crc32Bytes(bytes) == BitsToBytes(CrcField(BytesToBits(bytes), Poly32))
=============================================================================
