------------------------------- MODULE MCIla -------------------------------
(* Bounded instance of Ila for exhaustive TLC exploration. *)
EXTENDS Ila, TLC

CONSTANT MaxT              \* number of cycles explored (bounds the ghost history)

Bounded == Len(hist) <= MaxT
=============================================================================
