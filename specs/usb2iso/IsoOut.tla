------------------------------- MODULE IsoOut -------------------------------
(***************************************************************************)
(* Reference specification of an isochronous OUT stream endpoint           *)
(* (property C16; luna USBIsochronousStreamOutEndpoint), written from the  *)
(* property statement and the module doc-string.                           *)
(*                                                                         *)
(* Grain: one step = one bus-level event or one beat of the output stream. *)
(*   Env  : the host sends a token (Token), then possibly a data packet    *)
(*          (Data: one per token, any data PID, at most MaxPkt bytes,      *)
(*          CRC16 right or damaged); the consumer takes one entry from     *)
(*          the output stream (Read) whenever it likes (back-pressure =    *)
(*          not reading).                                                  *)
(*   Ref  : q = entries delivered to the stream and not yet read.  A data  *)
(*          packet is *delivered entirely or not at all* (named choice     *)
(*          `deliver`): never if it is damaged, empty or not addressed to  *)
(*          the endpoint; always if at least MaxPkt bytes of the buffer    *)
(*          were free when its OUT token arrived ("if there isn't          *)
(*          max_packet_size space in the endpoint buffer, additional data  *)
(*          will be silently dropped"); otherwise the choice is free.      *)
(*   Prop : framing / whole-packet / corrupted-contributes-nothing         *)
(*          theorems over ghost logs.                                      *)
(***************************************************************************)
EXTENDS Integers, Sequences, FiniteSets

CONSTANTS Configs     \* the endpoint configurations discussed: records [maxPkt, bufSize, epNum, devAddr]

VARIABLES conf,       \* elaboration-time parameters of the endpoint (chosen at Init, never changes)
          q,          \* entries [d, f, l] delivered to the output stream, not yet read (oldest first)
          armed,      \* the last token was an OUT token for this endpoint, and no data packet followed yet
          spaceTok,   \* free buffer space when that token arrived
          phase,      \* Env: "tok" = a token was sent and no data packet has followed it yet; else "idle"
          ev,         \* the event that led to this state
          nOffered,   \* ghost: data packets seen so far
          goodIdx,    \* ghost: indices (1..nOffered) of the packets that were addressed to us, CRC-valid, non-empty
          offeredLog, \* ghost: payload of every data packet seen, by index
          delivered,  \* ghost: indices of the packets delivered, in order
          consumed    \* ghost: every entry read from the stream, in order

vars == <<conf, q, armed, spaceTok, phase, ev, nOffered, goodIdx, offeredLog, delivered, consumed>>

MaxPkt  == conf.maxPkt                   \* the endpoint's max packet size
BufSize == conf.bufSize                  \* bytes of buffer
EpNum   == conf.epNum                    \* the endpoint's number
DevAddr == conf.devAddr                  \* the device's address

TokenPids == {"OUT", "IN", "SETUP", "PING"}
DataPids  == {"DATA0", "DATA1", "DATA2", "MDATA"}

\* a payload as it appears in the output stream: first on its first byte, last on its final byte
Marked(p) == [i \in 1..Len(p) |-> [d |-> p[i], f |-> (i = 1), l |-> (i = Len(p))]]

ToUs(pid, addr, ep) == pid = "OUT" /\ addr = DevAddr /\ ep = EpNum

Space == BufSize - Len(q)

-----------------------------------------------------------------------------
InitState == /\ q = <<>> /\ armed = FALSE /\ spaceTok = BufSize /\ phase = "idle"
             /\ ev = [e |-> "init"]
             /\ nOffered = 0 /\ goodIdx = {} /\ offeredLog = <<>> /\ delivered = <<>> /\ consumed = <<>>
Init == conf \in Configs /\ InitState

Token(pid, addr, ep) ==
    /\ armed' = ToUs(pid, addr, ep)
    /\ spaceTok' = Space
    /\ phase' = "tok"
    /\ ev' = [e |-> "tok", pid |-> pid, addr |-> addr, ep |-> ep]
    /\ UNCHANGED <<conf, q, nOffered, goodIdx, offeredLog, delivered, consumed>>

\* may / must this packet be delivered?
Eligible(payload, good)    == armed /\ good /\ payload # <<>>
MustDeliver(payload, good) == Eligible(payload, good) /\ spaceTok >= MaxPkt

\* Env assumption (legal host): a data packet follows a token, one per token.
Data(pid, payload, good, deliver) ==
    /\ phase = "tok" /\ phase' = "idle"
    /\ deliver => Eligible(payload, good)
    /\ deliver => Len(q) + Len(payload) <= BufSize       \* what is delivered was held by the buffer
    /\ MustDeliver(payload, good) => deliver
    /\ q' = IF deliver THEN q \o Marked(payload) ELSE q
    /\ armed' = FALSE
    /\ nOffered' = nOffered + 1
    /\ offeredLog' = Append(offeredLog, payload)
    /\ goodIdx' = IF Eligible(payload, good) THEN goodIdx \cup {nOffered + 1} ELSE goodIdx
    /\ delivered' = IF deliver THEN Append(delivered, nOffered + 1) ELSE delivered
    /\ ev' = [e |-> "data", pid |-> pid, payload |-> payload, good |-> good, deliver |-> deliver]
    /\ UNCHANGED <<conf, spaceTok, consumed>>

Read ==
    /\ q # <<>>
    /\ q' = Tail(q)
    /\ consumed' = Append(consumed, q[1])
    /\ ev' = [e |-> "rd", x |-> q[1]]
    /\ UNCHANGED <<conf, armed, spaceTok, phase, nOffered, goodIdx, offeredLog, delivered>>

-----------------------------------------------------------------------------
(* Prop *)
RECURSIVE Flatten(_)
Flatten(ss) == IF ss = <<>> THEN <<>> ELSE ss[1] \o Flatten(Tail(ss))

Stream == consumed \o q            \* everything ever delivered to the output stream, in order

\* The output stream is the concatenation of the complete payloads of the delivered packets ...
WholePackets == Stream = Flatten([k \in 1..Len(delivered) |-> Marked(offeredLog[delivered[k]])])

\* ... which are CRC-valid, non-empty packets addressed to the endpoint, in the order they were sent,
\* each at most once (corrupted / foreign packets contribute nothing).
OnlyGoodInOrder == /\ \A k \in 1..Len(delivered) : delivered[k] \in goodIdx
                   /\ \A j, k \in 1..Len(delivered) : j < k => delivered[j] < delivered[k]

\* first / last delimit packets: a `first` entry follows a `last` entry (or starts the stream) and vice versa.
Framing == \A i \in 1..Len(Stream) : Stream[i].f <=> (i = 1 \/ Stream[i - 1].l)
LastEndsStream == Stream # <<>> => Stream[Len(Stream)].l

\* A packet that found at least MaxPkt bytes free is never dropped.
NoNeedlessDrop == [][(ev'.e = "data" /\ armed /\ ev'.good /\ ev'.payload # <<>> /\ spaceTok >= MaxPkt)
                        => ev'.deliver]_vars

\* The stream grows only by a whole eligible packet.
GrowsOnlyByPackets == [][Len(consumed') + Len(q') > Len(consumed) + Len(q) =>
                            (ev'.e = "data" /\ ev'.good /\ armed
                             /\ Len(consumed') + Len(q') = Len(consumed) + Len(q) + Len(ev'.payload))]_vars

ConfigNeverChanges == [][conf' = conf]_vars

TypeOK == /\ armed \in BOOLEAN /\ spaceTok \in 0..BufSize /\ Len(q) <= BufSize
          /\ nOffered = Len(offeredLog)
=============================================================================
