"""Engine `fifo` — C18: TransactionalizedFIFO vs specs/fifo/Fifo.tla."""
import os

from .. import tlc
from ..core import use_repo
from ..sim import CycleDriver

ENGINE = "fifo"
SPEC_DIR = "fifo"

META = {
    "C18": {
        "text": "TLC explores every legal 7-input control schedule of the pointer-free queue specification Fifo.tla "
                "(depths 1..4, 2-value data, bounded commit log) and proves the no-loss/dup/reorder, flag and "
                "rollback theorems on it; the real TransactionalizedFIFO is then driven with TLC-simulated "
                "behaviours and with long biased-random control schedules (depths 1..33 incl. non powers of two, "
                "widths 1..16) and every recorded cycle (inputs + empty/full/space/read_data) is validated by TLC "
                "against the specification, with the Prop invariants evaluated on every observed state.",
        "note": "Assumes commit and discard of the same port are never asserted in the same cycle (no defined "
                "meaning). Trusted base: TLC, amaranth.sim, the 60-line cycle driver. Exhaustive only for the "
                "bounded model; implementation traces are sampled.",
        "technique": "TLA+ queue spec, TLC exhaustive + batch trace validation of pysim traces (both directions)",
        "design_ref": "§5 C18, Appendix B",
    }
}

IN_NAMES = ["we", "wd", "wc", "wdsc", "re", "rc", "rdsc"]
BOOL_IN = ["we", "wc", "wdsc", "re", "rc", "rdsc"]


def _cfg(name):
    with open(os.path.join(tlc.SPECS, SPEC_DIR, name)) as f:
        return f.read()


def make_driver(depth, width, domain="sync"):
    use_repo()
    from luna.gateware.memory import TransactionalizedFIFO
    # configuration coverage: the default domain with a named memory, and a non-default domain without a name
    dut = TransactionalizedFIFO(width=width, depth=depth, name="mem") if domain == "sync" else \
        TransactionalizedFIFO(width=width, depth=depth, domain=domain)
    ins = {"we": dut.write_en, "wd": dut.write_data, "wc": dut.write_commit, "wdsc": dut.write_discard,
           "re": dut.read_en, "rc": dut.read_commit, "rdsc": dut.read_discard}
    outs = {"empty": dut.empty, "full": dut.full, "space": dut.space_available, "rdata": dut.read_data}
    return CycleDriver(dut, ins, outs, domain=domain, bool_outputs=("empty", "full"), bool_inputs=BOOL_IN)


def random_stimulus(rng, n, width):
    """Biased random control schedule honouring the Env assumption; moods change every few cycles."""
    stim = []
    mood = None
    left = 0
    maxd = (1 << width) - 1
    for _ in range(n):
        if left == 0:
            mood = rng.choice(["fill", "drain", "mixed", "txn_w", "txn_r", "chaos", "idle"])
            left = rng.randint(1, 12)
        left -= 1
        p = {"fill": (0.9, 0.15, 0.05, 0.1, 0.05, 0.02),
             "drain": (0.1, 0.3, 0.02, 0.9, 0.2, 0.05),
             "mixed": (0.5, 0.2, 0.1, 0.5, 0.2, 0.1),
             "txn_w": (0.8, 0.1, 0.3, 0.3, 0.1, 0.0),
             "txn_r": (0.3, 0.3, 0.0, 0.8, 0.1, 0.3),
             "chaos": (0.5, 0.5, 0.5, 0.5, 0.5, 0.5),
             "idle": (0.05, 0.05, 0.05, 0.05, 0.05, 0.05)}[mood]
        we, wc, wdsc, re, rc, rdsc = [rng.random() < x for x in p]
        if wc and wdsc:
            if rng.random() < 0.5:
                wc = False
            else:
                wdsc = False
        if rc and rdsc:
            if rng.random() < 0.5:
                rc = False
            else:
                rdsc = False
        stim.append({"we": we, "wd": rng.randint(0, maxd), "wc": wc, "wdsc": wdsc,
                     "re": re, "rc": rc, "rdsc": rdsc})
    return stim


def classify(trace, matched, status):
    """Normalised cause of a rejection, computed from the recorded trace (for known-finding matching)."""
    k = matched  # 1-based index of the failing record
    rec = trace[k - 1] if 0 < k <= len(trace) else None
    prev = trace[k - 2] if k >= 2 else None
    pattern = "other"
    if status == "read_data" and prev is not None and prev["rdsc"]:
        pattern = "cycle_after_read_discard"
    elif status == "read_data" and prev is not None and prev["re"]:
        pattern = "cycle_after_read_enable"
    return {"clause": status, "pattern": pattern}, rec, prev


def check_C18(rep):
    quick = rep.tier == "quick"
    rep.rule = ("real-FIFO cycles recorded and validated against Fifo.tla; a cycle is non-trivial when at least one "
                "control input is asserted; distinct by (depth, control vector, empty, full, space)")
    rep.assume("write_commit/write_discard (and read_commit/read_discard) are never asserted in the same cycle")
    rep.assume("read_data is only constrained while empty is false (as documented)")

    # 1. exhaustive exploration of the specification
    for depth, maxc in ([(1, 3), (2, 4), (3, 4)] if quick else [(1, 4), (2, 5), (3, 5), (4, 5)]):
        cfg = tlc.render_cfg(_cfg("MCFifo.cfg.tmpl"), {"Depth": depth, "MaxCommitted": maxc})
        res = tlc.model_check(SPEC_DIR, "MCFifo", cfg, timeout=1500)
        rep.add_mc("MCFifo Depth=%d Data={0,1} MaxCommitted=%d" % (depth, maxc), res,
                   {"Depth": depth, "Data": [0, 1], "MaxCommitted": maxc})

    # 2. stimuli: TLC-simulated behaviours (spec -> code) and biased random schedules (code -> spec)
    jobs = []   # (depth, width, stimulus, origin)
    for depth in ([2, 3] if quick else [1, 2, 3, 4]):
        cfg = tlc.render_cfg(_cfg("MCFifo_sim.cfg.tmpl"), {"Depth": depth})
        behs = tlc.simulate(SPEC_DIR, "MCFifo", cfg, num=60 if quick else 400, depth=40,
                            seed=rep.seed * 7 + depth)
        for b in behs:
            stim = [st["in"] for _, st in b[1:]]
            jobs.append((depth, 1, stim, "tlc-simulate"))
    rnd_cfgs = [(1, 8), (2, 8), (3, 1), (4, 8), (5, 9), (7, 8), (16, 8)] if quick else \
        [(1, 8), (2, 8), (3, 1), (3, 8), (4, 8), (5, 9), (6, 3), (7, 8), (8, 16), (15, 8), (16, 8), (33, 8), (64, 8)]
    for depth, width in rnd_cfgs:
        for _ in range(6 if quick else 40):
            jobs.append((depth, width, random_stimulus(rep.rng, 300 if quick else 1000, width), "random"))

    # 3. run on the real module
    drivers = {}
    by_depth = {}
    for depth, width, stim, origin in jobs:
        key = (depth, width)
        if key not in drivers:
            drivers[key] = make_driver(depth, width, "usb" if (depth + width) % 2 else "sync")
        trace = drivers[key].run(stim)
        rep.add_eval(len(trace))
        for r in trace:
            if any(r[k] for k in BOOL_IN):
                rep.nontriv((depth,) + tuple(int(r[k]) for k in BOOL_IN) + (r["empty"], r["full"], r["space"]))
        by_depth.setdefault(depth, []).append((trace, origin, width))

    # 4. validate with TLC, grouped by the constant Depth
    for depth, items in sorted(by_depth.items()):
        cfg = tlc.render_cfg(_cfg("FifoTrace.cfg.tmpl"), {"Depth": depth})
        traces = [t for t, _, _ in items]
        verdicts, res = tlc.validate_traces(SPEC_DIR, "FifoTrace", cfg, traces)
        ok = 0
        steps = 0
        for (trace, origin, width), (matched, status) in zip(items, verdicts):
            if status == "ok" and matched == len(trace):
                ok += 1
                steps += len(trace)
                continue
            sig, rec, prev = classify(trace, matched, status)
            what = ("TransactionalizedFIFO(depth=%d,width=%d) trace (%s) rejected at cycle %d: clause %s (%s); "
                    "record=%s previous=%s" % (depth, width, origin, matched, status, sig["pattern"], rec, prev))
            rep.violation(sig, what, {"depth": depth, "width": width, "origin": origin,
                                      "failing_cycle": matched, "clause": status,
                                      "trace_prefix": trace[:matched + 1]})
        rep.add_traces(ok, steps)
        if items:
            rep.sample({"depth": depth, "origin": items[0][1], "first_cycles": items[0][0][:6]})


CHECKS = {"C18": check_C18}
