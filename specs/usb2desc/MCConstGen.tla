---------------------------- MODULE MCConstGen ----------------------------
(* Bounded instance of ConstGen: TLC enumerates the configurations (data length, word width, byte     *)
(* order, with/without max_length), every legal request (start position, length limit), every ready   *)
(* pattern and every latency choice, and checks the Prop formulas in every reachable state.           *)
EXTENDS ConstGen, TLC

CONSTANTS NsByte,      \* data lengths explored with byte-wide words
          NsHalf,      \* data lengths explored with 2-byte words
          NsWide,      \* data lengths explored with 4-byte words (both byte orders)
          PortMax,     \* largest values of the max_length port explored (2^W - 1: below and above the data lengths)
          ExtraLen     \* max_length ranges over 0 .. min(data length + ExtraLen, port maximum)

DataOf(n) == [i \in 1..n |-> (i * 37 + 11) % 256]          \* pairwise distinct bytes for n <= 9

Shapes == {[n |-> n, w |-> 1, big |-> FALSE] : n \in NsByte}
          \cup {[n |-> n, w |-> 2, big |-> FALSE] : n \in NsHalf}
          \cup {[n |-> n, w |-> 4, big |-> b] : n \in NsWide, b \in BOOLEAN}
MCConfigs ==
    {[data |-> DataOf(s.n), w |-> s.w, big |-> s.big, haslen |-> TRUE, mlmax |-> pm, olen |-> TRUE,
      v1 |-> FALSE, latched |-> (pm > 255 /\ ~s.big /\ s.n <= 5), clean |-> FALSE] : s \in Shapes, pm \in PortMax}
    \cup {[data |-> DataOf(s.n), w |-> s.w, big |-> s.big, haslen |-> FALSE, mlmax |-> s.n, olen |-> FALSE,
           v1 |-> (s.w = 2), latched |-> FALSE, clean |-> FALSE] : s \in Shapes}

MCInit == Init0 /\ cfg \in MCConfigs

\* Env: every legal input of the cycle
Requests == {r \in [sp : 0..(NWordsTotal(cfg) - 1),
                    ml : IF cfg.haslen THEN 0..Min(NBytes(cfg) + ExtraLen, cfg.mlmax) ELSE {NBytes(cfg)}] :
                 LegalReq(cfg, r)}
HeldIn(rd)  == [start |-> FALSE, sp |-> req.sp, ml |-> req.ml, ready |-> rd, rst |-> FALSE]
\* latched modules: the inputs may change right after the strobe (one representative other value)
OtherIn(rd) == [start |-> FALSE, sp |-> (req.sp + 1) % NWordsTotal(cfg), ml |-> 0, ready |-> rd, rst |-> FALSE]
QuietInputs == {HeldIn(rd) : rd \in BOOLEAN}
               \cup (IF cfg.latched /\ phase # "idle" THEN {OtherIn(rd) : rd \in BOOLEAN} ELSE {})
StartInputs == {[start |-> TRUE, sp |-> r.sp, ml |-> r.ml, ready |-> rd, rst |-> FALSE] :
                    r \in Requests, rd \in BOOLEAN}

\* Ref: the canonical representatives of the allowed outputs (don't-care lanes = 0, flags low while idle)
Quiet(d) == [valid |-> 0, lanes |-> [i \in 1..cfg.w |-> 0], first |-> FALSE, last |-> FALSE, done |-> d, olen |-> 0]
Beat == [valid |-> ExpMask(cfg, WValid(cfg, req, k)),
         lanes |-> [l \in 1..cfg.w |->
                       IF \E i \in 1..WValid(cfg, req, k) : LaneOf(cfg, req, k, i) = l
                       THEN cfg.data[WBase(cfg, req, k) + (CHOOSE i \in 1..WValid(cfg, req, k) : LaneOf(cfg, req, k, i) = l)]
                       ELSE 0],
         first |-> (k = 0), last |-> (k = NW(cfg, req) - 1), done |-> FALSE, olen |-> Count(cfg, req)]
AllowedOut ==
    CASE phase = "idle"      -> {Quiet(FALSE)}
      [] phase = "streaming" -> {Beat} \cup (IF ~offered /\ wait < MaxLat THEN {Quiet(FALSE)} ELSE {})
      [] phase = "finishing" -> {Quiet(TRUE)} \cup (IF wait < MaxLat THEN {Quiet(FALSE)} ELSE {})
      [] phase = "zero"      -> {Quiet(TRUE), Quiet(FALSE)}

Do(i, o) == /\ Assert(LegalInput(i), "MC generated an illegal input")
            /\ Assert(OutOK(o), "allowed-output generator disagrees with the observation relation")
            /\ Step(i, o)

\* One named action per kind of cycle, so that TLC's coverage shows that each kind is exercised.
IdleCycle   == phase = "idle" /\ \E i \in QuietInputs, o \in AllowedOut : Do(i, o)
StartTx     == phase = "idle" /\ \E i \in StartInputs, o \in AllowedOut :
                   Count(cfg, [sp |-> i.sp, ml |-> i.ml]) > 0 /\ Do(i, o)
StartZero   == phase = "idle" /\ \E i \in StartInputs, o \in AllowedOut :
                   Count(cfg, [sp |-> i.sp, ml |-> i.ml]) = 0 /\ Do(i, o)
Bubble      == phase = "streaming" /\ \E i \in QuietInputs, o \in AllowedOut : o.valid = 0 /\ Do(i, o)
StallCycle  == phase = "streaming" /\ \E i \in QuietInputs, o \in AllowedOut : o.valid # 0 /\ ~i.ready /\ Do(i, o)
AcceptWord  == phase = "streaming" /\ \E i \in QuietInputs, o \in AllowedOut :
                   o.valid # 0 /\ i.ready /\ k + 1 < NW(cfg, req) /\ Do(i, o)
AcceptFinal == phase = "streaming" /\ \E i \in QuietInputs, o \in AllowedOut :
                   o.valid # 0 /\ i.ready /\ k + 1 = NW(cfg, req) /\ Do(i, o)
AwaitDone   == phase = "finishing" /\ \E i \in QuietInputs, o \in AllowedOut : ~o.done /\ Do(i, o)
DonePulse   == phase = "finishing" /\ \E i \in QuietInputs, o \in AllowedOut : o.done /\ Do(i, o)
ZeroCycle   == phase = "zero" /\ \E i \in QuietInputs, o \in AllowedOut : Do(i, o)
\* (bounded: the model resets while the first two words are in flight, while waiting for done, and in "zero")
ResetCycle  == phase # "idle" /\ k <= 1 /\ \E o \in AllowedOut :
                   Do([start |-> FALSE, sp |-> 0, ml |-> 0, ready |-> FALSE, rst |-> TRUE], o)

Cycle == \/ IdleCycle \/ StartTx \/ StartZero \/ Bubble \/ StallCycle \/ AcceptWord \/ AcceptFinal
         \/ AwaitDone \/ DonePulse \/ ZeroCycle \/ ResetCycle

MCSpec == MCInit /\ [][Cycle]_vars

\* --- non-vacuity: each of these must be reachable (checked by a separate run expecting a violation) ---
TypeOK == /\ phase \in {"idle", "streaming", "finishing", "zero"}
          /\ k \in 0..NWordsTotal(cfg) /\ wait \in 0..MaxLat /\ dones \in 0..1

\* action-level theorems
DoneOnlyAfterLast == [][out'.done => (phase \in {"finishing", "zero"})]_vars
NoEmissionForZero == [][phase = "zero" => out'.valid = 0]_vars
AcceptedInOrder   == [][Len(emitted') >= Len(emitted) \/ in'.start \/ in'.rst]_vars
=============================================================================
