-------------------------- MODULE MultibyteInTrace --------------------------
(***************************************************************************)
(* Trace validation for MultibyteIn.  Logs is an array of traces           *)
(*   [cfg |-> [byteWidth], steps |-> <<...>>]                              *)
(* recorded from a real USBMultibyteStreamInEndpoint; steps are per-cycle  *)
(* records                                                                 *)
(*   [e |-> "c", wv, lo, hi, wf, wl,      word stream: valid, payload       *)
(*               wr,                       limbs, first, last; ready (obs.) *)
(*               bv, bd, bf, bl, br]       byte stream: valid, payload,     *)
(*                                         first, last (obs.); ready        *)
(* sampled after the inputs of the cycle settled, before the clock edge,   *)
(* closed by [e |-> "end"] after the word producer has been silent and the *)
(* byte endpoint ready for a long time (everything must have been sent).   *)
(***************************************************************************)
EXTENDS MultibyteIn, TLC, TLCExt, Json, IOUtils

Logs == JsonDeserialize(IOEnv.TRACE_FILE)
TrConfigs == {Logs[i].cfg : i \in 1..Len(Logs)}

VARIABLES tid, l, status
tvars == <<vars, tid, l, status>>

ASSUME \A i \in 1..Len(Logs) : TLCSet(i, <<0, "ok">>)

Steps == Logs[tid].steps
Rec == Steps[l]

WordOf(r) == [lo |-> r.lo, hi |-> r.hi, f |-> r.wf, l |-> r.wl]
ByteOfRec(r) == [d |-> r.bd, f |-> r.bf, l |-> r.bl]

FailingCycle(r) ==
    LET take == r.bv /\ r.br
        rest == IF take /\ pend # <<>> THEN Tail(pend) ELSE pend
    IN IF take /\ pend = <<>> THEN "byte_sent_without_word"
       ELSE IF take /\ r.bd # pend[1].d THEN "byte_data"
       ELSE IF take /\ r.bf # pend[1].f THEN "byte_first"
       ELSE IF take /\ r.bl # pend[1].l THEN "byte_last"
       ELSE IF r.wv /\ r.wr /\ rest # <<>> THEN "word_accepted_before_bytes_taken"
       ELSE IF r.wv /\ r.wr /\ (r.lo >= 65536 \/ r.hi >= 65536 \/ (ByteWidth < 3 /\ r.hi # 0)) THEN "env_word"
       ELSE "ok"

TInit == /\ tid \in 1..Len(Logs)
         /\ conf = Logs[tid].cfg
         /\ InitState
         /\ l = 1
         /\ status = "ok"

TNext == /\ status = "ok"
         /\ l <= Len(Steps)
         /\ LET r == Rec IN
              IF r.e = "end"
              THEN /\ status' = (IF pend = <<>> THEN "ok" ELSE "end_bytes_never_sent")
                   /\ UNCHANGED vars
              ELSE LET f == FailingCycle(r) IN
                   /\ status' = f
                   /\ IF f = "ok" THEN Cycle(r.wv, WordOf(r), r.br, r.wr, r.bv, ByteOfRec(r))
                      ELSE UNCHANGED vars
         /\ l' = l + 1
         /\ UNCHANGED tid

TSpec == TInit /\ [][TNext]_tvars

\* The ghost logs grow with the trace; the serialisation theorem is checked on the newest word only
\* (older words were checked when they were the newest) to keep validation linear.
NewestWordSerialised ==
    /\ Len(Bytes) = ByteWidth * Len(words)
    /\ words # <<>> =>
         LET k == Len(words) IN
         \A j \in 0..(ByteWidth - 1) :
             LET x == Bytes[(k - 1) * ByteWidth + j + 1] IN
               /\ x.d = ByteOf(words[k], j)
               /\ x.f = (words[k].f /\ j = 0)
               /\ x.l = (words[k].l /\ j = ByteWidth - 1)

TraceProp == NewestWordSerialised /\ AtMostOneWordPending

\* After a failure (clause or Prop invariant) the constraint is FALSE: the trace is not followed further and a
\* later step cannot overwrite the verdict.
Verdict == IF status # "ok" THEN status ELSE IF TraceProp THEN "ok" ELSE "prop_invariant"
Progress == TLCSet(tid, <<l - 1, Verdict>>) /\ Verdict = "ok"

Verdicts == JsonSerialize(IOEnv.VERDICT_FILE, [i \in 1..Len(Logs) |-> TLCGet(i)])
=============================================================================
