------------------------------ MODULE MCAligner ------------------------------
(***************************************************************************)
(* Bounded model of Aligner.  Each position of an input word is either one  *)
(* of the Special symbols (the ones alignment patterns are made of) or a    *)
(* fresh numbered symbol (1001, 1002, ... so that loss, duplication and     *)
(* misplacement are visible).  All placements are explored, subject to the  *)
(* Unambiguous assumption.                                                  *)
(***************************************************************************)
EXTENDS Aligner, TLC

CONSTANTS Special,        \* set of special symbols
          MaxWords,       \* valid words per behaviour
          MaxInvalid      \* invalid cycles per behaviour

VARIABLES off, prev,           \* Ref
          in, out,             \* Env input; presented output [valid, w, off]
          inSyms,              \* ghost: all symbols of valid words (after the 4 unknown start symbols)
          outs,                \* ghost: sequence of presented [w, off, start] (start = index into inSyms)
          nid, ninv

vars == <<off, prev, in, out, inSyms, outs, nid, ninv>>

U4 == <<Unknown, Unknown, Unknown, Unknown>>

Init == /\ off = 0 /\ prev = U4
        /\ in = [valid |-> FALSE, w |-> U4]
        /\ out = [valid |-> FALSE, w |-> U4, off |-> 0]
        /\ inSyms = U4 /\ outs = <<>> /\ nid = 1001 /\ ninv = 0

\* choice c[k] \in Special \cup {0}: 0 = fresh symbol
WordOf(c, base) == [k \in 1..4 |-> IF c[k] # 0 THEN c[k]
                                   ELSE base + Cardinality({j \in 1..(k - 1) : c[j] = 0})]

ValidWord == \E c \in [1..4 -> Special \cup {0}] :
    LET w  == WordOf(c, nid)
        no == NewOff(off, prev, w)
    IN /\ Len(outs) < MaxWords
       /\ Unambiguous(prev, w)
       /\ in' = [valid |-> TRUE, w |-> w]
       /\ out' = [valid |-> TRUE, w |-> OutWord(off, prev, w), off |-> no]
       /\ off' = no /\ prev' = w
       /\ inSyms' = inSyms \o w
       /\ outs' = Append(outs, [w |-> OutWord(off, prev, w), off |-> no, start |-> Len(inSyms) - 4 + no + 1])
       /\ nid' = nid + Cardinality({k \in 1..4 : c[k] = 0})
       /\ UNCHANGED ninv

InvalidWord == /\ ninv < MaxInvalid
               /\ in' = [valid |-> FALSE, w |-> U4]
               /\ out' = [valid |-> FALSE, w |-> U4, off |-> off]
               /\ ninv' = ninv + 1
               /\ UNCHANGED <<off, prev, inSyms, outs, nid>>

Next == ValidWord \/ InvalidWord
Spec == Init /\ [][Next]_vars

-----------------------------------------------------------------------------
(* Prop *)
\* every presented word is a slice of the input symbol stream, at its offset
OutputIsInputRegrouped ==
    \A k \in 1..Len(outs) : /\ outs[k].w = SubSeq(inSyms, outs[k].start, outs[k].start + 3)
                            /\ outs[k].start = 4 * (k - 1) + outs[k].off + 1
\* while the offset is unchanged consecutive words are contiguous in the input stream
NoLossNoDupWhileOffsetUnchanged ==
    \A k \in 1..(Len(outs) - 1) : outs[k + 1].off = outs[k].off => outs[k + 1].start = outs[k].start + 4
\* a pattern completed in the window is presented as one whole word, now
PatternPresentedWhole ==
    [][(in'.valid /\ Matches(prev, in'.w) # {}) => out'.w \in Patterns]_vars
\* the offset only moves when a pattern is presented
OffsetMovesOnlyOnPattern == [][off' # off => (out'.valid /\ out'.w \in Patterns)]_vars
\* invalid cycles consume and present nothing
InvalidIsTransparent == [][~in'.valid => (~out'.valid /\ off' = off /\ prev' = prev)]_<<vars>>
PrevIsTail == prev = SubSeq(inSyms, Len(inSyms) - 3, Len(inSyms))
=============================================================================
