------------------------------- MODULE MCHsGen -------------------------------
(* Bounded instance of HsGen: every combination of the three request strobes and tx_ready in every   *)
(* cycle, every output Ref allows, up to MaxReq accepted requests.                                    *)
EXTENDS HsGen, TLC

CONSTANT MaxReq

Inputs == [ack : BOOLEAN, nak : BOOLEAN, stall : BOOLEAN, ready : BOOLEAN]
Outputs(i) == {o \in [valid : BOOLEAN, data : {0} \cup BytesOf(Kinds) \cup {byte}] :
                 /\ OutViolation(i, o) = "ok"
                 /\ (~o.valid => o.data = 0)}               \* tx_data is a don't-care while tx_valid is low

Cycle(i) == \E o \in Outputs(i) : Step(i, o)

IdleNoRequest   == \E i \in Inputs : st = "idle" /\ Requested(i) = {} /\ Cycle(i)
IdleRequest     == \E i \in Inputs : st = "idle" /\ Requested(i) # {} /\ Len(reqLog) < MaxReq /\ Cycle(i)
PendingCycle    == \E i \in Inputs : st = "pending" /\ Cycle(i)
SendingStalled  == \E i \in Inputs : st = "sending" /\ ~i.ready /\ Cycle(i)
SendingAccepted == \E i \in Inputs : st = "sending" /\ i.ready /\ Cycle(i)

Next == IdleNoRequest \/ IdleRequest \/ PendingCycle \/ SendingStalled \/ SendingAccepted
Spec == Init /\ [][Next]_vars

TypeOK == /\ st \in {"idle", "pending", "sending"} /\ kinds \subseteq Kinds /\ age \in 0..GLat
          /\ (st = "pending" <=> kinds # {}) /\ (st = "sending" => byte \in BytesOf(Kinds))

\* the three handshake bytes of [USB2.0 8.3.1]: ACK D2, NAK 5A, STALL 1E
ASSUME HsByte("ack") = 210 /\ HsByte("nak") = 90 /\ HsByte("stall") = 30
=============================================================================
